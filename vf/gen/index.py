"""Index-expression generator shared by C06 / C10 / C11.  Expressions are JSON-able:
   int | ["s", start, stop, step] | ["t", [ints...]] | "..." ; decode() turns them into python index objects."""
import itertools


def dim_candidates(n, rich=True):
    """index candidates for one dimension of size n (never selecting nothing)"""
    out = [0, -1]
    if n > 2:
        out += [1, -2]
    starts = [None, 0, 1, -1, -2, n, n + 5] if rich else [None, 1, -1]
    stops = [None, 0, 1, 2, -1, -2, n, n + 5] if rich else [None, 2, -1, n + 5]
    steps = [None, 1, 2, 3] if rich else [None, 2]
    seen = set()
    for a, b, c in itertools.product(starts, stops, steps):
        sel = tuple(range(n)[slice(a, b, c)])
        if not sel:
            continue
        key = (sel, a is None, b is None)  # keep None-vs-explicit variants: they take different code branches
        if key in seen and not (a in (n + 5,) or b in (n + 5, -1, -2)):
            continue
        seen.add(key)
        out.append(["s", a, b, c])
    tens = [[0], [n - 1, 0] if n > 1 else [0], list(range(n))[::-1], [0, 0] if n > 0 else [0], [-1, 0] if n > 1 else [-1]]
    if n > 2:
        tens.append([2, 0, 1])
        # contiguous value range but permuted / repeated (a min..max shortcut would accept them)
        tens += [[0, 0, 2], [0, 1, 1], [1, 0, 2]]
    if n > 3:
        tens.append([0, 2, 1, 3])
    for t in tens:
        if ["t", t] not in out:
            out.append(["t", t])
    return out


def decode(expr):
    import torch

    if isinstance(expr, (list, tuple)) and len(expr) and expr[0] == "s":
        return slice(expr[1], expr[2], expr[3])
    if isinstance(expr, (list, tuple)) and len(expr) and expr[0] == "t":
        return torch.tensor(expr[1], dtype=torch.long)
    if expr == "...":
        return Ellipsis
    if isinstance(expr, (list, tuple)):
        return tuple(decode(e) for e in expr)
    return expr


def decode_index(idx):
    return tuple(decode(e) for e in idx)


def kind(expr):
    if isinstance(expr, int):
        return "int-" if expr < 0 else "int"
    if expr == "...":
        return "ellipsis"
    if expr[0] == "s":
        a, b, c = expr[1:]
        return "slice(%s,%s,%s)" % ("N" if a is None else ("-" if a < 0 else "+"), "N" if b is None else ("-" if b < 0 else "+"), "N" if c is None else c)
    return "tensor"
