"""Attach monitors to real functions from the harness (no edit of /repo).

wrap(owner, name, before=, after=) replaces owner.name by a wrapper that calls the real function and hands
(args, kwargs, result) to the monitor. Monitors are suspended while a monitor/oracle itself runs
(`with quiet():`), so reference computations that call back into the library are not re-monitored.
"""
import contextlib
import functools

_depth = [0]
_undo = []


@contextlib.contextmanager
def quiet():
    _depth[0] += 1
    try:
        yield
    finally:
        _depth[0] -= 1


def active():
    return _depth[0] == 0


def wrap(owner, name, before=None, after=None, on_raise=None):
    raw = owner.__dict__[name] if isinstance(owner, type) else getattr(owner, name)
    kind = None
    f = raw
    if isinstance(raw, staticmethod):
        kind, f = staticmethod, raw.__func__
    elif isinstance(raw, classmethod):
        kind, f = classmethod, raw.__func__
    elif isinstance(raw, property):
        kind, f = property, raw.fget

    @functools.wraps(f)
    def w(*a, **k):
        if _depth[0]:
            return f(*a, **k)
        tok = None
        if before is not None:
            with quiet():
                tok = before(a, k)
        try:
            r = f(*a, **k)
        except BaseException as e:
            if on_raise is not None:
                with quiet():
                    on_raise(a, k, e, tok)
            raise
        if after is not None:
            with quiet():
                after(a, k, r, tok)
        return r

    new = w
    if kind is staticmethod:
        new = staticmethod(w)
    elif kind is classmethod:
        new = classmethod(w)
    elif kind is property:
        new = property(w, raw.fset, raw.fdel)
    setattr(owner, name, new)
    _undo.append((owner, name, raw))
    return w


def count(owner, name, ctx, label):
    """path witness: count calls of owner.name under monitor name `label`"""
    return wrap(owner, name, before=lambda a, k: ctx.hit(label))


def detach_all():
    while _undo:
        owner, name, raw = _undo.pop()
        setattr(owner, name, raw)
