"""C18 - persistence round trips (state_dict -> fresh model, pickle, deepcopy) reproduce the model exactly.

History-shaped: save points are taken after every step of generated train/eval/predict histories (shared driver with
C03). At each save point the model is restored by the three mechanisms and the restored object's prior, posterior /
variational predictive (mean, covariance), training objective value and its gradients must equal the original's.
The fresh model for the state_dict mechanism is constructed with DIFFERENT prior parameters / constraint bounds /
random features, so anything prediction-relevant that is not carried by the state_dict shows up.
"""
import random

PROPERTY = "C18"
RULE = (
    "case = (model family incl. priors+custom constraints, RFF, model list; history of 0-4 operations from the C03 alphabet; mechanism in "
    "{state_dict into a fresh model built with other prior parameters/bounds, pickle, deepcopy}); comparison at every save point of prior "
    "prediction, posterior/variational prediction, objective value and gradients; distinct = (family, history, mechanism); non-trivial iff "
    "the model's state differs from a default-constructed model's (parameters perturbed or trained)"
    "; pass 5: priors registered by parameter name and by a module-level closure; copies first looked at only after the original has moved; copies' objectives after the original moved"
    '; pass 6: exact Kronecker multitask and lazily constructed RFF families; checkpoints are not modified by loading them (second load of other values, third load back); used variational models reset to a checkpoint taken before their first call'
    "; pass 7: checkpoints of the un-whitened era (no `updated_strategy` key) loaded into strategies with their own jitter_val / under a jitter setting: q(f) equals the dense un-whitened posterior of the stored (m, S); re-saved checkpoint reproduces it"
    "; pass 8: means-only predictions as an observable and a directed means-only / in-place load history; deep copies and pickles OF the restored model (KISS-GP restored into other grid bounds)"
    "; pass 9: SmoothedBoxPrior in the priors family, alternative constructor arguments that are not a pure rescaling"
)
REQUIRED = ["state_dict_roundtrip", "pickle_roundtrip", "deepcopy_roundtrip", "objective_roundtrip", "prior_params_carried", "legacy_checkpoint"]
ASSUMPTIONS = ["pickle/deepcopy of an object are compared with the original at 1e-9 (caches may be recomputed), state_dict round trip at 1e-7"]
ANCHOR_FILES = ["gpytorch/module.py", "gpytorch/models/", "gpytorch/kernels/", "gpytorch/priors/", "gpytorch/constraints/", "gpytorch/variational/"]

FAMS = ["default", "batch", "mt_kronecker", "hadamard_two_inputs", "ski", "ski_dynamic_grid", "sgpr", "svgp_whitened", "svgp_unwhitened", "svgp_meanfield", "svgp_batch_decoupled", "lmc_multitask", "priors", "rff", "rff_lazy", "natural", "svgp_fixed_inducing", "modellist"]
SAVE_OPS = ["pred", "pred_fpv", "train_step", "load_sd", "train_eval", "set_data", "pred_nodetach", "prior", "pred_skipvar"]
VAR_SAVE_OPS = ["pred", "pred_batch", "train_step", "load_sd", "train_eval", "prior", "pred_skipvar"]
VARF = {"svgp_fixed_inducing", "svgp_whitened", "svgp_unwhitened", "svgp_meanfield", "svgp_batch_decoupled", "lmc_multitask", "natural"}


def cases(tier, seed):
    rnd = random.Random(18000 + seed)
    n = 14 if tier == "quick" else 150
    for fam in FAMS:
        for i in range(n):
            L = 0 if i == 0 else rnd.randint(1, 4)
            ops = VAR_SAVE_OPS if fam in VARF else SAVE_OPS
            if fam == "lmc_multitask":
                ops = [o for o in ops if o != "pred_batch"]
            yield {"family": fam, "seq": [rnd.choice(ops) for _ in range(L)], "mseed": rnd.randrange(1000)}
    # directed: a means-only prediction, then an in-place load of other values, then a means-only prediction again
    for fam in FAMS:
        if fam not in ("modellist",):
            yield {"family": fam, "seq": ["pred_skipvar", "load_sd"], "mseed": rnd.randrange(1000)}
    for fam in ("svgp_whitened", "svgp_unwhitened", "svgp_meanfield", "svgp_batch_decoupled", "natural"):
        for seq in ([], ["pred"], ["train_step", "pred"]):
            yield {"family": fam, "kind": "reset_uninitialised", "seq": seq, "mseed": rnd.randrange(1000)}
    # checkpoints of the un-whitened era (no `updated_strategy` key), strategies with their own jitter
    for rep in range(1 if tier == "quick" else 12):
        for jv in (None, 1e-4, 1e-2):
            for vd in ("cholesky", "meanfield"):
                for setting in (None, 1e-3):
                    yield {"family": "legacy", "kind": "legacy_checkpoint", "seq": [], "jitter_val": jv, "vd": vd, "setting": setting, "batch": rnd.choice([[], [], [2]]), "M": rnd.choice([4, 7]), "prior_first": rnd.random() < 0.3, "mseed": rnd.randrange(10**6)}


class _LegacyModel(__import__("gpytorch").models.ApproximateGP):
    """SVGP with an explicit strategy jitter (module level so that it pickles)"""

    def __init__(self, Z, jitter_val, vd):
        import gpytorch

        V = gpytorch.variational
        q = (V.CholeskyVariationalDistribution if vd == "cholesky" else V.MeanFieldVariationalDistribution)(Z.size(-2), batch_shape=Z.shape[:-2])
        super().__init__(V.VariationalStrategy(self, Z, q, learn_inducing_locations=True, jitter_val=jitter_val))
        self.mean_module = gpytorch.means.ConstantMean(batch_shape=Z.shape[:-2])
        self.covar_module = gpytorch.kernels.ScaleKernel(gpytorch.kernels.RBFKernel(batch_shape=Z.shape[:-2]), batch_shape=Z.shape[:-2])

    def forward(self, x):
        import gpytorch

        return gpytorch.distributions.MultivariateNormal(self.mean_module(x), self.covar_module(x))


def _legacy_checkpoint(case, ctx):
    """a checkpoint written by a version that stored q(u) = N(m, S) un-whitened (no `updated_strategy` key) is converted at the
    first call: the restored model's q(f) is the dense un-whitened SVGP posterior for (m, S) with the strategy's OWN K_ZZ
    factor (explicit jitter_val, jitter setting in force at the call), and saving / reloading it afterwards changes nothing"""
    import copy
    import warnings

    import torch

    import gpytorch
    from vf import util

    g = util.gen(case["mseed"])
    b = case["batch"]
    M, n = case["M"], 7
    Z = util.randn(g, *b, M, 2)
    X = util.randn(g, *b, n, 2)
    jv = case["jitter_val"]
    src = _LegacyModel(Z.clone(), jv, case["vd"])
    util.randomize(src, g, 0.4)
    m = util.randn(g, *b, M)
    if case["vd"] == "cholesky":
        Ls = torch.tril(util.randn(g, *b, M, M)) * 0.3 + torch.diag_embed(0.5 + util.rand(g, *b, M))
        S = Ls @ Ls.transpose(-1, -2)
    else:
        sd_ = 0.3 + util.rand(g, *b, M)
        S = torch.diag_embed(sd_**2)
    sd = {k: v.clone() for k, v in src.state_dict().items() if not k.endswith("updated_strategy")}
    sd["variational_strategy._variational_distribution.variational_mean"] = m.clone()
    if case["vd"] == "cholesky":
        sd["variational_strategy._variational_distribution.chol_variational_covar"] = Ls.clone()
    else:
        sd["variational_strategy._variational_distribution._variational_stddev"] = sd_.clone()
    sd["variational_strategy.variational_params_initialized"] = torch.tensor(1)
    kept = {k: v.clone() for k, v in sd.items()}
    ctxs = case["setting"]

    def _S():
        import contextlib

        if ctxs is None:
            return contextlib.nullcontext()
        return gpytorch.settings.variational_cholesky_jitter(float_value=ctxs, double_value=ctxs)

    fresh = _LegacyModel(util.randn(g, *b, M, 2), jv, case["vd"])
    with warnings.catch_warnings(record=True) as w:
        warnings.simplefilter("always")
        fresh.load_state_dict(sd)
    ctx.expect("legacy_checkpoint", any("previous version" in str(x.message) for x in w), "loading a checkpoint without the `updated_strategy` key did not warn", mech="legacy")
    fresh.eval()
    with torch.no_grad(), _S():
        eff = jv if jv is not None else (ctxs if ctxs is not None else 1e-6)
        Zs = sd["variational_strategy.inducing_points"]
        src2 = src.eval()
        Kzz = src2.covar_module(Zs).to_dense() + eff * torch.eye(M)
        Kzx = src2.covar_module(Zs, X).to_dense()
        Kxx = src2.covar_module(X).to_dense() + eff * torch.eye(n)
        mz, mx = src2.mean_module(Zs), src2.mean_module(X)
        A = torch.linalg.solve(Kzz, Kzx)
        ref_mean = mx + (A.transpose(-1, -2) @ (m - mz).unsqueeze(-1)).squeeze(-1)
        ref_cov = Kxx + A.transpose(-1, -2) @ (S - Kzz) @ A
        if case["prior_first"]:
            fresh(X, prior=True)
        out = fresh(X)
        ctx.close("legacy_checkpoint", out.mean, ref_mean, (1e-7, 1e-7), cls="mean", mech="legacy", jitter_val=jv)
        ctx.close("legacy_checkpoint", out.covariance_matrix, ref_cov, (1e-7, 1e-7), cls="covar", mech="legacy", jitter_val=jv, part="covar")
        out2 = fresh(X)
        ctx.close("legacy_checkpoint", out2.covariance_matrix, ref_cov, (1e-7, 1e-7), cls="second_call", mech="legacy", jitter_val=jv, part="covar")
        # re-saved: new-style checkpoint reproduces the same q(f) in another fresh model, without a second conversion
        sd2 = copy.deepcopy(fresh.state_dict())
        ctx.expect("legacy_checkpoint", bool(sd2["variational_strategy.updated_strategy"]), "the re-saved checkpoint is not marked as converted", mech="legacy")
        again = _LegacyModel(util.randn(g, *b, M, 2), jv, case["vd"])
        again.load_state_dict(sd2)
        again.eval()
        out3 = again(X)
        ctx.close("state_dict_roundtrip", out3.mean, ref_mean, (1e-7, 1e-7), cls="legacy_resaved_mean", mech="legacy", jitter_val=jv)
        ctx.close("state_dict_roundtrip", out3.covariance_matrix, ref_cov, (1e-7, 1e-7), cls="legacy_resaved_covar", mech="legacy", jitter_val=jv, part="covar")
        # whatever the conversion made of the checkpoint, re-saving and re-loading reproduces THAT model exactly
        ctx.close("state_dict_roundtrip", torch.cat([out3.mean.reshape(-1), out3.covariance_matrix.reshape(-1)]), torch.cat([out.mean.reshape(-1), out.covariance_matrix.reshape(-1)]), (1e-9, 1e-9), cls="legacy_resaved_vs_converted", mech="legacy", jitter_val=jv)
    same = all(torch.equal(sd[k], kept[k]) for k in kept)
    ctx.expect("checkpoint_not_modified_by_loading", same, "the legacy checkpoint's tensors changed while it was loaded / converted", mech="legacy")
    ctx.cell({k_: v_ for k_, v_ in case.items() if k_ != "mseed"}, nontrivial=True)


class _FixedZModel(__import__("gpytorch").models.ApproximateGP):
    """SVGP whose inducing locations are NOT learned (a buffer, not a parameter) - module level so that it pickles"""

    def __init__(self, Z):
        import gpytorch

        V = gpytorch.variational
        vs = V.VariationalStrategy(self, Z, V.CholeskyVariationalDistribution(Z.size(-2)), learn_inducing_locations=False)
        super().__init__(vs)
        self.mean_module = gpytorch.means.ConstantMean()
        self.covar_module = gpytorch.kernels.ScaleKernel(gpytorch.kernels.RBFKernel())

    def forward(self, x):
        import gpytorch

        return gpytorch.distributions.MultivariateNormal(self.mean_module(x), self.covar_module(x))


def _extra_families():
    import torch

    import gpytorch
    from vf import history as H
    from vf import util

    class Priors(H.Default):
        name = "priors"

        def build(self, alt=False):
            P, C = gpytorch.priors, gpytorch.constraints
            s = 1.7 if alt else 1.0
            lik = gpytorch.likelihoods.GaussianLikelihood(noise_prior=P.GammaPrior(1.1 * s, 0.5 * s), noise_constraint=C.GreaterThan(1e-3 * s))
            k = gpytorch.kernels.ScaleKernel(
                gpytorch.kernels.MaternKernel(nu=2.5, ard_num_dims=H.D, lengthscale_prior=P.LogNormalPrior(0.2 * s, 0.7 * s),
                                              lengthscale_constraint=C.Interval(torch.tensor([0.05, 0.1]) * s, torch.tensor([8.0, 9.0]) * s)),
                outputscale_prior=P.HalfCauchyPrior(1.5 * s), outputscale_constraint=C.Interval(0.01 * s, 20.0 * s),
            )
            mean = gpytorch.means.ConstantMean(constant_prior=P.SmoothedBoxPrior(-1.0 * s, 1.5 * s, sigma=0.1 * s * s))  # (its normaliser depends on (b - a) / sigma)
            gp = util.GP(self.X, self.y, lik, mean, k)
            # priors registered by parameter NAME (the library builds the closure) and by user closures
            k.base_kernel.register_prior("vf_named_raw_ls", P.NormalPrior(0.3 * s, 1.1 * s), "raw_lengthscale")
            k.register_prior("vf_closure_os", P.GammaPrior(2.0 * s, 1.5 * s), _outputscale_of)
            return gp

    class RFF(H.Default):
        name = "rff"

        def kernel(self, lik):
            return gpytorch.kernels.ScaleKernel(gpytorch.kernels.RFFKernel(num_samples=6, num_dims=H.D))

    class RFFLazy(H.Default):
        """RFF kernel constructed without num_dims: its random weights exist only after the first evaluation - or a load"""

        name = "rff_lazy"

        def kernel(self, lik):
            return gpytorch.kernels.ScaleKernel(gpytorch.kernels.RFFKernel(num_samples=6))

    class Natural(H.SVGP):
        name = "natural"
        dist = "NaturalVariationalDistribution"

        def make(self):
            m = super().make()
            g = util.gen(self.init_seed + 5)
            vd = m.variational_strategy._variational_distribution
            L = torch.tril(util.randn(g, 4, 4)) * 0.3 + torch.eye(4)
            Sinv = torch.linalg.inv(L @ L.T)
            with torch.no_grad():
                vd.natural_vec.copy_(Sinv @ util.randn(g, 4))
                vd.natural_mat.copy_(-0.5 * Sinv)
            return m

    class FixedZ(H.SVGP):
        name = "svgp_fixed_inducing"
        has_alt = True

        def build(self, alt=False):
            # the receiving model of the state_dict route is constructed with OTHER inducing locations
            Z = util.randn(util.gen(self.init_seed + 99), 4, H.D) if alt else self.X[:4].clone()
            m = _FixedZModel(Z)
            m.likelihood = gpytorch.likelihoods.GaussianLikelihood()
            return m

    Priors.has_alt = True
    return {c.name: c for c in (Priors, RFF, RFFLazy, Natural, FixedZ)}


_ST = {}


def _fams():
    from vf import history as H

    if "fams" not in _ST:
        d = dict(H.FAMILIES)
        d.update(_extra_families())
        _ST["fams"] = d
    return _ST["fams"]


def _outputscale_of(mod):
    """a user closure for a registered prior (module level, so that pickle can carry it by reference)"""
    return mod.outputscale


def _objective(fam, m):
    """training objective value and gradients at the current state (leaves the model in eval mode)"""
    import torch

    import gpytorch

    m.train()
    m.likelihood.train()
    m.zero_grad()
    if fam.exact:
        mll = gpytorch.mlls.ExactMarginalLogLikelihood(m.likelihood, m)
        v = mll(m(*m.train_inputs), m.train_targets).sum()
    else:
        mll = gpytorch.mlls.VariationalELBO(m.likelihood, m, num_data=fam.n)
        v = mll(m(fam.X), fam.y).sum()
    params = [p for p in m.parameters() if p.requires_grad]
    g = torch.autograd.grad(v, params, allow_unused=True)
    m.eval()
    m.likelihood.eval()
    return v.detach(), [x.detach() if x is not None else None for x in g]


def _observe(fam, m):
    import torch

    from gpytorch import settings as S
    from vf import history as H

    out = {}
    with torch.no_grad():
        out["post"] = H.predict(m, fam.xs)
        # the means-only path (skip_posterior_variances) has caches of its own
        mo = H.predict(m, fam.xs, (False, True, True, True))
        out["post_mean_only"] = (mo[0], torch.zeros(1))
        if fam.exact:
            with S.prior_mode(True):
                o = H.call(m, fam.xs)
        else:
            o = m(fam.xs, prior=True)
        out["prior"] = (o.mean.clone(), o.covariance_matrix.clone())
    return out


def _compare(ctx, mon, fam, a, b, tol, **kw):
    import torch

    for key in ("post", "prior", "post_mean_only"):
        if key not in a or key not in b:
            continue
        ctx.close(mon, torch.cat([b[key][0].reshape(-1), b[key][1].reshape(-1)]), torch.cat([a[key][0].reshape(-1), a[key][1].reshape(-1)]), tol, cls=mon + ":" + key, quantity=key, **kw)


def run_case(case, ctx):
    import copy
    import io
    import pickle

    import torch

    import gpytorch
    from vf import history as H
    from vf import util

    if case["family"] == "modellist":
        return _modellist(case, ctx)
    if case.get("kind") == "legacy_checkpoint":
        return _legacy_checkpoint(case, ctx)
    if case.get("kind") == "reset_uninitialised":
        return _reset_uninitialised(case, ctx)
    fam = _fams()[case["family"]](case["mseed"])
    state = {"fam": fam}
    m = fam.make()
    steps = [None] + list(case["seq"])
    for i, op in enumerate(steps):
        if op is not None:
            try:
                H.apply_op(case["family"], m, op, state)
            except Exception as e:
                ctx.reject(f"operation raised: {case['family']}:{op}: {type(e).__name__}")
                return
        if not all(bool(torch.isfinite(p).all()) for p in m.parameters()):
            ctx.reject("non-finite parameters")
            return
        kw = {"family": case["family"], "step": i, "op": op, "prefix": case["seq"][:i]}
        # copies are taken FIRST: the save point is the object exactly as the history left it (with its live caches)
        copies = {}
        for mech, fn in (("pickle", lambda x: pickle.loads(pickle.dumps(x))), ("deepcopy", copy.deepcopy)):
            try:
                copies[mech] = fn(m)
            except Exception as e:
                ctx.fail(mech + "_roundtrip", f"{mech} raised {type(e).__name__}: {str(e)[:160]}", "raise", exc=type(e).__name__, mech=mech, **kw)
        try:
            orig = _observe(fam, m)
            ov, og = _objective(fam, m)
            orig2 = _observe(fam, m)
        except Exception as e:
            ctx.reject(f"original cannot be observed: {case['family']}: {type(e).__name__}")
            return
        # ---- state_dict into a fresh model (built with other prior parameters / bounds where the family has them)
        try:
            fam.alt = True  # other constructor-time inducing points (every family); other prior parameters / bounds where it has them
            try:
                fr = fam.build(alt=True) if getattr(fam, "has_alt", False) else fam.build()
            finally:
                fam.alt = False
            if fam.exact:
                fr.set_train_data(H.train_inputs_of(m), m.train_targets, strict=False)
            sd = copy.deepcopy(m.state_dict())
            buf = io.BytesIO()
            torch.save(sd, buf)
            buf.seek(0)
            loaded = torch.load(buf, weights_only=False)
            keep = {k_: v_.clone() for k_, v_ in loaded.items() if torch.is_tensor(v_)}
            fr.load_state_dict(loaded)
            fr.eval()
            _compare(ctx, "state_dict_roundtrip", fam, orig2, _observe(fam, fr), (1e-7, 1e-7), **kw)
            # copies OF the restored model (its constructor arguments are not the checkpoint's): still the checkpointed model
            for mech2, fn2 in (("deepcopy", copy.deepcopy), ("pickle", lambda o_: pickle.loads(pickle.dumps(o_)))):
                try:
                    c2 = fn2(fr)
                    c2.eval()
                    _compare(ctx, mech2 + "_roundtrip", fam, orig2, _observe(fam, c2), (1e-7, 1e-7), of_restored_model=True, **kw)
                except Exception as e:
                    ctx.fail(mech2 + "_roundtrip", f"{mech2} of the restored model raised {type(e).__name__}: {str(e)[:140]}", "raise", exc=type(e).__name__, mech=mech2, of_restored_model=True, **kw)
            fv, fg = _objective(fam, fr)
            ctx.close("objective_roundtrip", fv, ov, (1e-7, 1e-7), cls="objective:state_dict", mech="state_dict", **kw)
            for a, b in zip(og, fg):
                if a is not None and b is not None:
                    ctx.close("objective_grad_roundtrip", b, a, (1e-6, 1e-6), cls="objective_grad:state_dict", mech="state_dict", **kw)
            # the checkpoint stays what it was: loading it, then loading OTHER values into the same model and training it,
            # leaves the dict the user holds untouched (a model must copy, not adopt, the tensors of a state dict)
            try:
                other = {k_: (v_ + 0.37 if torch.is_tensor(v_) and v_.dtype.is_floating_point and "constraint" not in k_ and "initialized" not in k_ and "updated" not in k_ else v_) for k_, v_ in copy.deepcopy(loaded).items()}
                fr.load_state_dict(other)
                with torch.no_grad():
                    for p_ in fr.parameters():
                        p_.add_(0.01)
                same = all(torch.equal(loaded[k_], keep[k_]) for k_ in keep)
                ctx.expect("checkpoint_not_modified_by_loading", same, "tensors of a state dict changed after it had been loaded (the model adopted them instead of copying)",
                           keys=[k_ for k_ in keep if not torch.equal(loaded[k_], keep[k_])][:4], **kw)
                fr.load_state_dict(loaded)
                fr.eval()
                _compare(ctx, "state_dict_roundtrip", fam, orig2, _observe(fam, fr), (1e-7, 1e-7), reload_after_other_checkpoint=True, **kw)
            except Exception as e:
                ctx.fail("state_dict_roundtrip", f"second / third load raised {type(e).__name__}: {str(e)[:140]}", "raise", exc=type(e).__name__, mech="state_dict", **kw)
            if case["family"] == "priors":
                vals_m = {n: [getattr(p, a).detach().clone() for a in ("loc", "scale", "concentration", "rate") if hasattr(p, a)] for n, _, p, _, _ in m.named_priors()}
                vals_f = {n: [getattr(p, a).detach().clone() for a in ("loc", "scale", "concentration", "rate") if hasattr(p, a)] for n, _, p, _, _ in fr.named_priors()}
                same = all(len(vals_m[n]) == len(vals_f[n]) and all(torch.allclose(x, y) for x, y in zip(vals_m[n], vals_f[n])) for n in vals_m)
                ctx.expect("prior_params_carried", same, "prior parameters of the restored model differ from the saved model's", **kw)
                bounds_m = {n: (c.lower_bound.clone(), c.upper_bound.clone()) for n, c in m.named_constraints()}
                bounds_f = {n: (c.lower_bound.clone(), c.upper_bound.clone()) for n, c in fr.named_constraints()}
                sameb = all(torch.allclose(bounds_m[n][0], bounds_f[n][0]) and torch.allclose(bounds_m[n][1], bounds_f[n][1]) for n in bounds_m)
                ctx.expect("constraint_bounds_carried", sameb, "constraint bounds of the restored model differ from the saved model's", **kw)
            else:
                ctx.hit("prior_params_carried", 0)
        except Exception as e:
            ctx.fail("state_dict_roundtrip", f"state_dict round trip raised {type(e).__name__}: {str(e)[:160]}", "raise", exc=type(e).__name__, mech="state_dict", **kw)
        # ---- pickle / deepcopy of the live object (with whatever caches it holds)
        for mech, cp in copies.items():
            mon = mech + "_roundtrip"
            try:
                ctx.expect(mon + "_mode", not cp.training and all(not a.training for a in cp.modules()), f"{mech}: copy of an eval-mode model has modules in training mode", mech=mech, **kw)
                _compare(ctx, mon, fam, orig, _observe(fam, cp), (1e-9, 1e-9), mech=mech, **kw)
                cv, cg = _objective(fam, cp)
                ctx.close("objective_roundtrip", cv, ov, (1e-9, 1e-9), cls="objective:" + mech, mech=mech, **kw)
            except Exception as e:
                ctx.fail(mon, f"restored ({mech}) model raised {type(e).__name__}: {str(e)[:160]}", "raise_after", exc=type(e).__name__, mech=mech, **kw)
        # the original itself is unaffected by having been saved
        _compare(ctx, "original_unaffected", fam, orig, _observe(fam, m), (1e-9, 1e-9), **kw)
        # ---- loading into a model that is ALREADY in evaluation mode and has predicted (caches of its own state alive),
        # without calling eval() afterwards
        try:
            fam.alt = True
            try:
                fr2 = fam.build(alt=True) if getattr(fam, "has_alt", False) else fam.build()
            finally:
                fam.alt = False
            if fam.exact:
                fr2.set_train_data(H.train_inputs_of(m), m.train_targets, strict=False)
            for mod in fr2.modules():
                if hasattr(mod, "variational_params_initialized"):
                    mod.variational_params_initialized.fill_(1)
            fr2.eval()
            _observe(fam, fr2)
            fr2.load_state_dict(copy.deepcopy(m.state_dict()))
            _compare(ctx, "state_dict_into_warm_eval_model", fam, orig2, _observe(fam, fr2), (1e-7, 1e-7), **kw)
        except Exception as e:
            ctx.fail("state_dict_into_warm_eval_model", f"raised {type(e).__name__}: {str(e)[:160]}", "raise", exc=type(e).__name__, **kw)
        # ---- a copy is independent of the original: the original moves on (an in-place parameter update, what an
        # optimiser step does), the copies still describe the saved state
        if i == len(steps) - 1:
            # copies that are only LOOKED AT after the original has moved (nothing recomputed on them before)
            untouched = {}
            for mech, fn in (("pickle", lambda x: pickle.loads(pickle.dumps(x))), ("deepcopy", copy.deepcopy)):
                try:
                    untouched[mech] = fn(m)
                except Exception:
                    pass
            before_cp = {}
            for mech, cp in copies.items():
                try:
                    before_cp[mech] = _observe(fam, cp)
                except Exception:
                    pass
            with torch.no_grad():
                for p_ in m.parameters():
                    p_.add_(0.05)
            for mech, ob in before_cp.items():
                try:
                    _compare(ctx, "copy_independent_of_original", fam, ob, _observe(fam, copies[mech]), (1e-12, 1e-12), mech=mech, **kw)
                except Exception as e:
                    ctx.fail("copy_independent_of_original", f"{mech} copy raised after the original moved: {type(e).__name__}: {str(e)[:120]}", "raise", mech=mech, **kw)
            for mech, cp in untouched.items():
                try:
                    _compare(ctx, "copy_independent_of_original", fam, orig2, _observe(fam, cp), (1e-9, 1e-9), mech=mech + ":first_look_after_original_moved", **kw)
                    cv, _ = _objective(fam, cp)
                    ctx.close("copy_independent_of_original", cv, ov, (1e-9, 1e-9), cls="objective:" + mech + ":first_look_after_original_moved", mech=mech, **kw)
                except Exception as e:
                    ctx.fail("copy_independent_of_original", f"{mech} copy raised after the original moved: {type(e).__name__}: {str(e)[:120]}", "raise", mech=mech, **kw)
            for mech, cp in copies.items():
                try:
                    cv, _ = _objective(fam, cp)
                    ctx.close("copy_independent_of_original", cv, ov, (1e-9, 1e-9), cls="objective:" + mech, mech=mech, **kw)
                except Exception as e:
                    ctx.fail("copy_independent_of_original", f"{mech} copy's objective raised after the original moved: {type(e).__name__}: {str(e)[:120]}", "raise", mech=mech, **kw)
    ctx.cell({"family": case["family"], "seq": case["seq"]}, nontrivial=True)


def _reset_uninitialised(case, ctx):
    """a variational model that has been used is reset to a checkpoint taken BEFORE its first call (initialisation flag 0):
    its next call initialises q(u) exactly as a freshly constructed model loaded with the same checkpoint does"""
    import copy

    import torch

    from vf import history as H

    fam = _fams()[case["family"]](case["mseed"])
    state = {"fam": fam}
    A = fam.build()
    sdA = copy.deepcopy(A.state_dict())
    B = fam.make()
    for op in case["seq"]:
        try:
            H.apply_op(case["family"], B, op, state)
        except Exception:
            ctx.reject("operation raised")
            return
    B.load_state_dict(copy.deepcopy(sdA))
    B.eval()
    Cm = fam.build()
    Cm.load_state_dict(copy.deepcopy(sdA))
    Cm.eval()
    try:
        torch.manual_seed(77)
        ob = _observe(fam, B)
        torch.manual_seed(77)
        oc = _observe(fam, Cm)
    except Exception as e:
        ctx.fail("state_dict_roundtrip", f"prediction after a reset to the un-initialised checkpoint raised {type(e).__name__}: {str(e)[:140]}", "raise", exc=type(e).__name__, family=case["family"])
        return
    _compare(ctx, "state_dict_roundtrip", fam, oc, ob, (1e-9, 1e-9), family=case["family"], reset_to_uninitialised=True)
    flags_b = [int(mod.variational_params_initialized) for mod in B.modules() if hasattr(mod, "variational_params_initialized")]
    flags_c = [int(mod.variational_params_initialized) for mod in Cm.modules() if hasattr(mod, "variational_params_initialized")]
    ctx.expect("initialisation_flags_carried", flags_b == flags_c, f"initialisation flags after the first call: reset model {flags_b}, fresh model {flags_c}", family=case["family"])
    sdb, sdc = B.state_dict(), Cm.state_dict()
    same = all(torch.allclose(sdb[k_], sdc[k_], atol=1e-10) for k_ in sdb if torch.is_tensor(sdb[k_]) and sdb[k_].dtype.is_floating_point)
    ctx.expect("initialisation_flags_carried", same, "variational parameters after the first call differ between the reset model and a fresh model", family=case["family"])
    ctx.cell({"family": case["family"], "kind": "reset_uninitialised", "seq": case["seq"]}, nontrivial=True)


def _modellist(case, ctx):
    import copy
    import pickle

    import torch

    import gpytorch
    from vf import history as H

    f1, f2 = H.FAMILIES["default"](case["mseed"]), H.FAMILIES["default"](case["mseed"] + 1)
    ml = gpytorch.models.IndependentModelList(f1.make(), f2.make())
    ml.eval()
    with torch.no_grad():
        ref = [(o.mean.clone(), o.covariance_matrix.clone()) for o in ml(f1.xs, f1.xs)]
        fr = gpytorch.models.IndependentModelList(f1.build(), f2.build())
        fr.load_state_dict(copy.deepcopy(ml.state_dict()))
        fr.eval()
        for mech, obj in (("state_dict", fr), ("pickle", pickle.loads(pickle.dumps(ml))), ("deepcopy", copy.deepcopy(ml))):
            outs = obj(f1.xs, f1.xs)
            for (rm, rc), o in zip(ref, outs):
                ctx.close(mech + "_roundtrip", torch.cat([o.mean, o.covariance_matrix.reshape(-1)]), torch.cat([rm, rc.reshape(-1)]), (1e-7, 1e-7), cls="modellist:" + mech, mech=mech, family="modellist")
    ctx.hit("objective_roundtrip", 0)
    ctx.cell({"family": "modellist", "seq": case["seq"], "mseed": case["mseed"] % 3})


def _deepcopy_grad_caches(case, fl):
    """deepcopy of an object holding eval caches that are non-leaf tensors (created with autograd enabled)"""
    return fl.get("mech") == "deepcopy" and fl.get("mechanism") == "raise" and "graph leaves" in fl.get("detail", "")


def _legacy_meanfield(case, fl):
    """un-whitened mean-field checkpoints: the whitened mean-field family cannot hold the stored covariance"""
    return case.get("kind") == "legacy_checkpoint" and case.get("vd") == "meanfield" and fl.get("mech") == "legacy" and fl.get("part") == "covar"


MATCHERS = {"C18-deepcopy-with-grad-caches": _deepcopy_grad_caches, "C18-legacy-meanfield-checkpoint-projected": _legacy_meanfield}
