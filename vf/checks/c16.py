"""C16 - missing observations (NaN policy) behave as if those observations were deleted.

Monitors: finite-ness invariant on every tensor leaving the real exact_predictive_mean / exact_predictive_covar /
ExactMarginalLogLikelihood.forward / Gaussian expected_log_prob / log_marginal while a NaN policy is active; the
posterior (mean, covariance, variance), the MLL (un-normalised: value * N_all) and the likelihood terms are compared
with the dense closed forms evaluated on the OBSERVED subset only; a history monitor runs the policies in every order
on one model object and demands order independence.
"""
import itertools
import random

PROPERTY = "C16"
RULE = (
    "case = (model in {single-output, batch single-output, Kronecker multitask}, NaN pattern in {none, first, last, interior, random p=.2/.5, "
    "all-but-one, per-batch-element different, per-task different}, policy order (all orders of mask/fill [+ignore on clean data]), "
    "fast_pred_var, likelihood in {gauss, fixed}, seed); distinct = cell without seed; non-trivial iff >=1 observation is missing and >=1 observed"
    "; pass 6: the policies together with linear means, fixed+learned noise, linear / KISS-GP / RFF kernels and iterative solves ('mask' only)"
    "; pass 7: objective on another target tensor than the stored one; policy orders starting with 'ignore'; the deprecated GaussianLikelihoodWithMissingObs (terms and gradients of the observed entries alone, under any policy setting)"
    "; pass 8: the same target buffer refilled in place with another missing pattern, the same likelihood object called again"
    "; pass 9: fixed-noise (with / without learned additional noise) likelihood terms under both policies"
)
REQUIRED = ["posterior_mean", "posterior_covar", "mll_unnormalised", "expected_log_prob", "log_marginal", "no_nan_leaves", "order_independent"]
ASSUMPTIONS = [
    "'fill' is documented as not supporting lazy covariance matrices during prediction: the iterative-solver variant runs under 'mask' only (under 'fill' the -999 fill values enter the CG right-hand side and cost 3 digits: 2e-3 observed)",
    "policy 'mask' with batched targets masks an observation for the whole batch when it is NaN in any batch element (documented); the reference deletes the union",
    "ExactMarginalLogLikelihood under 'mask' divides by the total count: compared un-normalised; 'fill' is documented as unsupported for the MLL (counted as rejected input)",
]
ANCHOR_FILES = ["gpytorch/models/exact_prediction_strategies.py", "gpytorch/mlls/exact_marginal_log_likelihood.py", "gpytorch/likelihoods/gaussian_likelihood.py", "gpytorch/settings.py"]

PATTERNS = ["none", "first", "last", "interior", "random20", "random50", "allbutone"]


def cases(tier, seed):
    rnd = random.Random(16000 + seed)
    reps = 1 if tier == "quick" else 40
    orders = [["mask"], ["fill"], ["mask", "fill"], ["fill", "mask"], ["mask", "fill", "mask"], ["fill", "mask", "fill"]]
    for _ in range(reps):
        for pat, model, fpv in itertools.product(PATTERNS, ["single", "batch", "mt"], [False, True]):
            for order in (orders if tier == "thorough" else rnd.sample(orders, 3)):
                yield {"kind": "posterior", "model": model, "pattern": pat, "order": order, "fast_pred_var": fpv, "lik": rnd.choice(["gauss", "fixed"]) if model != "mt" else "mt",
                       "n": rnd.choice([5, 8]), "rank": rnd.choice([0, 1, 2]), "fillvalue_target": rnd.random() < 0.25, "seed": rnd.randrange(10**6)}
        # the policies together with other features that have prediction code of their own
        for var, pat, fpv in itertools.product(["linear_mean", "fixed+learn", "kiss", "rff", "linear_kernel", "iterative"], ["first", "interior", "random50"], [False, True]):
            yield {"kind": "posterior", "model": "single", "pattern": pat, "order": rnd.choice(orders) if var != "iterative" else ["mask"], "fast_pred_var": fpv, "lik": "gauss", "variant": var, "n": rnd.choice([6, 9]), "rank": 0,
                   "fillvalue_target": False, "seed": rnd.randrange(10**6)}
        # the model is first used OUTSIDE any policy (policy 'ignore': NaN in, NaN out - not compared), then under a policy
        for pat, model, fpv, tail in itertools.product(["first", "random50"], ["single", "batch", "mt"], [False, True], [["mask"], ["fill"], ["fill", "mask"]]):
            yield {"kind": "posterior", "model": model, "pattern": pat, "order": ["ignore"] + tail, "fast_pred_var": fpv, "lik": "gauss" if model != "mt" else "mt", "n": rnd.choice([5, 8]), "rank": 0,
                   "fillvalue_target": False, "seed": rnd.randrange(10**6)}
        for pat, model in itertools.product(PATTERNS, ["single", "batch", "mt"]):
            yield {"kind": "mll", "model": model, "pattern": pat, "lik": "gauss" if model != "mt" else "mt", "n": rnd.choice([5, 8]), "rank": rnd.choice([0, 1]), "seed": rnd.randrange(10**6)}
        for pat, pol, b in itertools.product(PATTERNS, ["mask", "fill"], [[], [2]]):
            yield {"kind": "lik_terms", "pattern": pat, "policy": pol, "batch": b, "n": 6, "fillvalue_target": True, "seed": rnd.randrange(10**6)}
            yield {"kind": "lik_terms", "pattern": pat, "policy": pol, "batch": b, "n": 4, "t": 2, "seed": rnd.randrange(10**6)}
        # fixed per-point noise (with and without a learned additional noise): the noise entries of the missing points go with them
        for pat, pol, lk in itertools.product(PATTERNS, ["mask", "fill"], ["fixed", "fixed+learn"]):
            yield {"kind": "lik_terms", "pattern": pat, "policy": pol, "lik": lk, "batch": [], "n": 6, "seed": rnd.randrange(10**6)}
        # the (deprecated) likelihood class that handles NaN targets itself, whatever the policy setting
        for pat, pol, b in itertools.product(PATTERNS, ["ignore", "fill"], [[], [2]]):
            yield {"kind": "lik_terms", "pattern": pat, "policy": pol, "legacy_class": True, "batch": b, "n": 6, "fillvalue_target": True, "seed": rnd.randrange(10**6)}


_ST = {}


def setup(ctx):
    import torch

    import gpytorch
    from gpytorch import settings as S
    from gpytorch.likelihoods.gaussian_likelihood import _GaussianLikelihoodBase as G
    from gpytorch.models.exact_prediction_strategies import DefaultPredictionStrategy as DPS
    from vf import attach

    _ST["ctx"] = ctx

    def finite(label):
        def post(a, k, out, tok):
            if S.observation_nan_policy.value() == "ignore" or ctx._case is None:
                return
            t = out.to_dense() if hasattr(out, "to_dense") else out
            with torch.no_grad():
                ctx.expect("no_nan_leaves", bool(torch.isfinite(t).all()), f"non-finite values leave {label} under policy {S.observation_nan_policy.value()}", where=label)

        return post

    attach.wrap(DPS, "exact_predictive_mean", after=finite("exact_predictive_mean"))
    attach.wrap(DPS, "exact_predictive_covar", after=finite("exact_predictive_covar"))
    attach.wrap(gpytorch.mlls.ExactMarginalLogLikelihood, "forward", after=finite("ExactMarginalLogLikelihood.forward"))
    attach.wrap(G, "expected_log_prob", after=finite("expected_log_prob"))
    attach.wrap(G, "log_marginal", after=finite("log_marginal"))
    attach.count(DPS, "_mean_cache", ctx, "path:_mean_cache")


def _mask(pattern, g, shape, per_elem=False):
    """boolean tensor (True = missing) of the targets' shape"""
    import torch

    n = shape[-1] if len(shape) == 1 or True else None
    flat = 1
    for s in shape:
        flat *= s
    m = torch.zeros(shape, dtype=torch.bool)
    ev = m.reshape(-1, shape[-1]) if len(shape) > 1 else m.reshape(1, -1)

    def fill(row):
        k = row.numel()
        if pattern == "first":
            row[0] = True
        elif pattern == "last":
            row[-1] = True
        elif pattern == "interior" and k > 2:
            row[k // 2] = True
        elif pattern == "random20":
            row[torch.rand(k, generator=g) < 0.2] = True
        elif pattern == "random50":
            row[torch.rand(k, generator=g) < 0.5] = True
        elif pattern == "allbutone":
            row[:] = True
            row[int(torch.randint(0, k, (1,), generator=g))] = False
        if bool(row.all()):
            row[0] = False

    return m, fill


def _build(case, g):
    import torch

    import gpytorch
    from vf import util

    n = case["n"]
    kern = {"k": "scale", "base": {"k": "matern", "nu": 2.5}}
    if case["model"] == "mt":
        t = 2
        X = util.randn(g, n, 2)
        y = util.randn(g, n, t)
        lik = gpytorch.likelihoods.MultitaskGaussianLikelihood(num_tasks=t, rank=case.get("rank", 0))  # rank > 0: inter-task noise is not diagonal
        model = util.MTGP(X, y, lik, t, 1, kern, 2)
        miss = torch.zeros(n * t, dtype=torch.bool)
        _, fill = _mask(case["pattern"], g, (n * t,))
        fill(miss)
        miss = miss.reshape(n, t)
    else:
        b = [2] if case["model"] == "batch" else []
        X = util.randn(g, *b, n, 2)
        y = util.randn(g, *b, n)
        if case.get("lik") == "fixed":
            lik = gpytorch.likelihoods.FixedNoiseGaussianLikelihood(noise=util.rand(g, *b, n) * 0.3 + 0.05, batch_shape=torch.Size(b))
        else:
            lik = gpytorch.likelihoods.GaussianLikelihood(batch_shape=torch.Size(b))
        var = case.get("variant")
        mean_mod = util.build_mean("linear" if var == "linear_mean" else "constant", 2, b)
        if var == "fixed+learn":
            lik = gpytorch.likelihoods.FixedNoiseGaussianLikelihood(noise=util.rand(g, *b, n) * 0.3 + 0.05, learn_additional_noise=True, batch_shape=torch.Size(b))
        K = gpytorch.kernels
        if var == "kiss":
            kmod = K.ScaleKernel(K.GridInterpolationKernel(K.RBFKernel(), grid_size=10, num_dims=2, grid_bounds=[(-3.5, 3.5), (-3.5, 3.5)]))
            X = X.clamp(-3.0, 3.0)
        elif var == "rff":
            kmod = K.ScaleKernel(K.RFFKernel(num_samples=6, num_dims=2))
        elif var == "linear_kernel":
            kmod = K.ScaleKernel(K.LinearKernel())
        else:
            kmod = util.build_kernel(kern, 2, b)
        model = util.GP(X, y, lik, mean_mod, kmod)
        miss = torch.zeros(*b, n, dtype=torch.bool)
        _, fill = _mask(case["pattern"], g, (n,))
        if b:
            for i in range(b[0]):
                fill(miss[i])  # per batch element different
        else:
            fill(miss)
    util.randomize(model, g, 0.5)
    if case.get("fillvalue_target"):
        # a genuine observation that happens to equal the value the 'fill' policy writes into missing slots
        obs_idx = (~miss).reshape(-1).nonzero().reshape(-1)
        y.reshape(-1)[obs_idx[0]] = -999.0
    yn = y.clone()
    yn[miss] = float("nan")
    model.set_train_data(X, yn, strict=False)
    return model, lik, X, y, yn, miss


def _dense_ref(model, lik, X, y, miss_flat, xs, mt):
    """dense conditional on the observed subset (rows of the flattened training vector); per batch element"""
    import torch

    import gpytorch
    from vf import util

    Kxx, Ksx, Kss, mx, ms = util.prior_pieces(model, X, xs)
    if mt:
        n, t = y.shape[-2:]
        base = gpytorch.distributions.MultitaskMultivariateNormal(torch.zeros_like(mx), torch.eye(n * t))
        Sn = (lik(base, X).covariance_matrix - base.covariance_matrix).detach()
        mxf, msf, yf = mx.reshape(-1), ms.reshape(-1), y.reshape(-1)
    else:
        n = y.shape[-1]
        base = gpytorch.distributions.MultivariateNormal(torch.zeros_like(mx), torch.eye(n).expand(*mx.shape[:-1], n, n))
        Sn = (lik(base, X).covariance_matrix - base.covariance_matrix).detach()
        mxf, msf, yf = mx, ms, y
    outs_m, outs_c = [], []
    bshape = yf.shape[:-1]
    yf2, mx2, ms2 = yf.reshape(-1, yf.shape[-1]), mxf.expand(*bshape, mxf.shape[-1]).reshape(-1, mxf.shape[-1]), msf.expand(*bshape, msf.shape[-1]).reshape(-1, msf.shape[-1])
    K2, Ks2, Kss2, S2 = [z.expand(*bshape, *z.shape[-2:]).reshape(-1, *z.shape[-2:]) for z in (Kxx, Ksx, Kss, Sn)]
    mf = miss_flat.reshape(-1, miss_flat.shape[-1])
    for b in range(yf2.shape[0]):
        obs = ~mf[b]
        m_, c_, _, _ = util.dense_conditional(K2[b][obs][:, obs], Ks2[b][:, obs], Kss2[b], mx2[b][obs], ms2[b], S2[b][obs][:, obs], yf2[b][obs])
        outs_m.append(m_)
        outs_c.append(c_)
    return torch.stack(outs_m).reshape(*bshape, -1), torch.stack(outs_c).reshape(*bshape, *outs_c[0].shape)


def run_case(case, ctx):
    from vf import util

    g = util.gen(case["seed"])
    return {"posterior": _posterior, "mll": _mll, "lik_terms": _lik_terms}[case["kind"]](case, ctx, g)


def _posterior(case, ctx, g):
    import torch

    from gpytorch import settings as S
    from vf import util

    model, lik, X, y, yn, miss = _build(case, g)
    mt = case["model"] == "mt"
    xs = util.randn(g, 3, 2)
    model.eval()
    results = {}
    for step, pol in enumerate(case["order"]):
        if pol == "ignore":
            # a call outside any policy: with NaN targets the outputs are NaN (not compared) - whatever it leaves behind must
            # not change what the policies give afterwards
            try:
                with S.fast_pred_var(case["fast_pred_var"]), torch.no_grad():
                    model(xs)
            except Exception:
                pass
            continue
        # 'mask' with a batch masks the union over batch elements (documented); 'fill' is per element
        if mt:
            mflat = miss.reshape(-1)
        else:
            mflat = miss
            if pol == "mask" and miss.dim() > 1:
                mflat = miss.any(0, keepdim=True).expand_as(miss)
        ref_m, ref_c = _dense_ref(model, lik, X, y, mflat, xs, mt)
        try:
            import contextlib

            with contextlib.ExitStack() as st:
                if case.get("variant") == "iterative":
                    for c_ in (S.max_cholesky_size(0), S.cg_tolerance(1e-10), S.eval_cg_tolerance(1e-10), S.max_cg_iterations(3000), S.max_root_decomposition_size(100)):
                        st.enter_context(c_)
                st.enter_context(S.observation_nan_policy(pol))
                st.enter_context(S.fast_pred_var(case["fast_pred_var"]))
                st.enter_context(torch.no_grad())
                out = model(xs)
                mean, cov, var = out.mean, out.covariance_matrix, out.variance
        except Exception as e:
            ctx.fail("call_raised", f"model(x*) under policy {pol} raised {type(e).__name__}: {str(e)[:150]}", "raise", exc=type(e).__name__, policy=pol, step=step)
            continue
        vr = case.get("variant")
        cls = f"{case['model']}:{pol}:{'love' if case['fast_pred_var'] else 'exact'}" + (":" + vr if vr else "")
        mtol = "iter" if vr == "iterative" else ((1e-6, 1e-6) if vr in ("kiss", "rff") else "direct")
        ctol_ = ("lanczos" if case["fast_pred_var"] else "iter") if vr == "iterative" else ("loose" if case["fast_pred_var"] else ((1e-6, 1e-6) if vr in ("kiss", "rff") else "direct"))
        ctx.expect("no_nan_leaves", bool(torch.isfinite(mean).all() and torch.isfinite(cov).all()), f"NaN in the posterior under policy {pol}", where="model(x*)", variant=vr)
        ctx.close("posterior_mean", mean.reshape(ref_m.shape), ref_m, mtol, cls=cls + ":mean", policy=pol, step=step, quantity="mean", variant=vr)
        ctx.close("posterior_covar", cov.reshape(ref_c.shape), ref_c, ctol_, cls=cls + ":covar", policy=pol, step=step, quantity="covar",
                  love=case["fast_pred_var"], variant=vr)
        ctx.close("posterior_variance", var.reshape(ref_m.shape), torch.diagonal(ref_c, dim1=-2, dim2=-1).clamp_min(1e-10), ctol_, cls=cls + ":var",
                  policy=pol, step=step, quantity="covar", love=case["fast_pred_var"], variant=vr)
        results.setdefault(pol, []).append((mean, cov))
    # the result is the same whichever policy was used first on the same model object (history)
    for pol, lst in results.items():
        for m2, c2 in lst[1:]:
            ctx.close("order_independent", torch.cat([m2.reshape(-1), c2.reshape(-1)]), torch.cat([lst[0][0].reshape(-1), lst[0][1].reshape(-1)]), (1e-9, 1e-9), cls="order:" + pol)
    # a fantasy model created under the policy conditions on the OBSERVED data plus the fantasy data (also when the fantasy
    # targets themselves miss an entry)
    plain = case.get("variant") in (None, "linear_mean", "linear_kernel")
    if case["model"] == "single" and case.get("lik") == "gauss" and bool(miss.any()) and plain:
        pol = case["order"][-1]
        Xf, yf = util.randn(g, 3, 2), util.randn(g, 3)
        try:
            with S.observation_nan_policy(pol), S.fast_pred_var(case["fast_pred_var"]), torch.no_grad():
                fm = model.get_fantasy_model(Xf, yf)
                of = fm(xs)
            obs = ~miss
            Xa, ya = torch.cat([X[obs], Xf]), torch.cat([y[obs], yf])
            Kxx, Ksx, Kss, mx, ms = util.prior_pieces(model, Xa, xs)
            rm, rc, _, _ = util.dense_conditional(Kxx, Ksx, Kss, mx, ms, lik.noise.detach() * torch.eye(Xa.shape[0]), ya)
            ctx.expect("no_nan_leaves", bool(torch.isfinite(of.mean).all() and torch.isfinite(of.covariance_matrix).all()), f"NaN in a fantasy posterior under policy {pol}", where="fantasy")
            ctx.close("posterior_mean", of.mean, rm, "direct", cls=f"fantasy:{pol}:mean", policy=pol, quantity="mean", fantasy=True)
            ctx.close("posterior_covar", of.covariance_matrix, rc, "loose" if case["fast_pred_var"] else "direct", cls=f"fantasy:{pol}:covar", policy=pol, quantity="covar", fantasy=True)
        except NotImplementedError:
            ctx.reject("fantasy under a NaN policy not implemented")
        except Exception as e:
            ctx.fail("call_raised", f"get_fantasy_model under policy {pol} raised {type(e).__name__}: {str(e)[:150]}", "raise", exc=type(e).__name__, policy=pol, fantasy=True)
    # the same model next gets targets with the SAME observed values but another pattern of missing entries (targets-only
    # set_train_data, default strictness): its predictions follow the new pattern
    if not mt and case["pattern"] != "none" and plain:
        miss2 = torch.roll(miss, 1, -1)
        if bool(miss2.any()) and not bool(miss2.all(-1).any()) and not torch.equal(miss2, miss):
            yn2 = y.clone()
            yn2[miss2] = float("nan")
            model.set_train_data(targets=yn2)
            pol = case["order"][-1]
            mflat2 = miss2 if not (pol == "mask" and miss2.dim() > 1) else miss2.any(0, keepdim=True).expand_as(miss2)
            ref_m2, ref_c2 = _dense_ref(model, lik, X, y, mflat2, xs, mt)
            try:
                with S.observation_nan_policy(pol), S.fast_pred_var(case["fast_pred_var"]), torch.no_grad():
                    out2 = model(xs)
                ctx.close("posterior_mean", out2.mean.reshape(ref_m2.shape), ref_m2, "direct", cls=f"{case['model']}:{pol}:new_pattern:mean", policy=pol, quantity="mean", new_pattern=True)
                ctx.close("posterior_covar", out2.covariance_matrix.reshape(ref_c2.shape), ref_c2, "loose" if case["fast_pred_var"] else "direct", cls=f"{case['model']}:{pol}:new_pattern:covar", policy=pol, quantity="covar", new_pattern=True)
            except Exception as e:
                ctx.fail("call_raised", f"model(x*) after a new NaN pattern raised {type(e).__name__}: {str(e)[:150]}", "raise", exc=type(e).__name__, policy=pol)
    if len(case["order"]) == 1:
        ctx.hit("order_independent", 0)
    ctx.cell({k: v for k, v in case.items() if k != "seed"}, nontrivial=bool(miss.any()) and not bool(miss.all()))


def _mll(case, ctx, g):
    import torch

    import gpytorch
    from gpytorch import settings as S
    from vf import util

    model, lik, X, y, yn, miss = _build(case, g)
    mt = case["model"] == "mt"
    lik.register_prior("vf_noise_prior", gpytorch.priors.GammaPrior(2.0, 1.5), lambda m: m.noise)
    model.train()
    mll = gpytorch.mlls.ExactMarginalLogLikelihood(lik, model)
    with torch.no_grad():
        with S.observation_nan_policy("mask"):
            got = mll(model(X), yn)
        Kxx, _, _, mx, _ = util.prior_pieces(model, X, X)
        if mt:
            n, t = y.shape
            base = gpytorch.distributions.MultitaskMultivariateNormal(torch.zeros_like(mx), torch.eye(n * t))
            A = Kxx + (lik(base, X).covariance_matrix - base.covariance_matrix)
            yf, mf, ms = y.reshape(-1), mx.reshape(-1), miss.reshape(-1)
            nall = n * t
            obs = ~ms
            logp = util.mvn_logpdf(yf[obs], mf[obs], A[obs][:, obs])
        else:
            n = y.shape[-1]
            nall = n
            A = Kxx + lik.noise.unsqueeze(-1) * torch.eye(n)
            union = miss.any(0) if miss.dim() > 1 else miss
            obs = ~union
            logp = util.mvn_logpdf(y[..., obs], mx[..., obs], A[..., obs, :][..., :, obs])
        prior = torch.distributions.Gamma(2.0, 1.5).log_prob(lik.noise).sum(-1)
        ref = logp + prior
        ctx.close("mll_unnormalised", got * nall, ref, "direct", cls="mll:" + case["model"])
        # the objective of ANOTHER target tensor on the same model (other values, another pattern of missing entries - e.g. a
        # validation set of targets for the same inputs): the missing entries are those of the tensor handed in
        if not mt and miss.dim() == 1:
            y2 = y * 0.7 + 0.4
            miss2 = torch.roll(miss, 2, -1)
            if case["pattern"] == "none":
                miss2 = miss2.clone()
                miss2[1] = True
            if not bool(miss2.all()):
                y2n = y2.clone()
                y2n[miss2] = float("nan")
                with S.observation_nan_policy("mask"):
                    got2 = mll(model(X), y2n)
                obs2 = ~miss2
                ref2 = util.mvn_logpdf(y2[obs2], mx[obs2], A[obs2][:, obs2]) + prior
                ctx.close("mll_unnormalised", got2 * nall, ref2, "direct", cls="mll:" + case["model"] + ":other_target_tensor")
        try:
            with S.observation_nan_policy("fill"):
                mll(model(X), yn)
            ctx.info["mll_fill_accepted"] += 1
        except ValueError:
            ctx.reject("ExactMarginalLogLikelihood under 'fill' is documented as unsupported")
    ctx.cell({k: v for k, v in case.items() if k != "seed"}, nontrivial=bool(miss.any()))


def _lik_terms(case, ctx, g):
    import math

    import torch

    import gpytorch
    from gpytorch import settings as S
    from gpytorch.distributions import MultitaskMultivariateNormal as MT
    from gpytorch.distributions import MultivariateNormal as MVN
    from vf import util

    n, b, pol = case["n"], case["batch"], case["policy"]
    t = case.get("t")
    N = n * (t or 1)
    a = util.randn(g, *b, N, N)
    C = a @ a.transpose(-1, -2) / N + 0.3 * torch.eye(N)
    if t:
        mean = util.randn(g, *b, n, t)
        d = MT(mean, C)
        lik = gpytorch.likelihoods.MultitaskGaussianLikelihood(num_tasks=t, rank=0)
        util.randomize(lik, g, 0.5)
        r = (lik.task_noises + lik.noise).detach().expand(*b, n, t)
        v = d.variance
    else:
        mean = util.randn(g, *b, N)
        d = MVN(mean, C)
        if case.get("lik") in ("fixed", "fixed+learn"):
            fixed_ = util.rand(g, N) * 0.6 + 0.05
            lik = gpytorch.likelihoods.FixedNoiseGaussianLikelihood(noise=fixed_.clone(), learn_additional_noise=case["lik"] == "fixed+learn")
        elif case.get("legacy_class"):
            import warnings

            with warnings.catch_warnings():
                warnings.simplefilter("ignore")
                lik = gpytorch.likelihoods.GaussianLikelihoodWithMissingObs()
        else:
            lik = gpytorch.likelihoods.GaussianLikelihood()
        util.randomize(lik, g, 0.5)
        r = lik.noise.detach().expand(*b, N) if case.get("lik") not in ("fixed", "fixed+learn") else (fixed_ + (lik.second_noise.detach() if case["lik"] == "fixed+learn" else 0.0)).expand(*b, N)
        v = torch.diagonal(C, dim1=-2, dim2=-1)
    y = mean + util.randn(g, *mean.shape)
    miss = torch.zeros(mean.shape, dtype=torch.bool)
    _, fill = _mask(case["pattern"], g, (N,))
    rows = miss.reshape(-1, N)
    for i in range(rows.shape[0]):
        fill(rows[i])
    miss = rows.reshape(mean.shape)
    if pol == "mask" and b:
        miss = miss.any(0, keepdim=True).expand_as(miss).clone()  # documented: masked for the complete batch
    if case.get("fillvalue_target"):
        obs_idx = (~miss).reshape(-1).nonzero().reshape(-1)
        if obs_idx.numel():
            y.reshape(-1)[obs_idx[0]] = -999.0  # a genuine observation equal to the 'fill' policy's placeholder value
    yn = y.clone()
    yn[miss] = float("nan")
    elp_full = -0.5 * (((y - mean) ** 2 + v) / r + torch.log(r) + math.log(2 * math.pi))
    lm_full = -0.5 * ((y - mean) ** 2 / (v + r) + torch.log(v + r) + math.log(2 * math.pi))
    keep = (~miss).to(elp_full.dtype)
    with S.observation_nan_policy(pol), torch.no_grad():
        elp = lik.expected_log_prob(yn, d)
        lm = lik.log_marginal(yn, d)
    # every observed entry contributes its closed form, missing ones nothing: compare totals per batch element and,
    # where the shape is kept ('fill'), elementwise
    dims = tuple(range(len(b), elp_full.dim()))
    ctx.close("expected_log_prob", elp.reshape(*b, -1).sum(-1), (elp_full * keep).sum(dims), "direct", cls=f"elp:{pol}:{'mt' if t else 'single'}", policy=pol)
    ctx.close("log_marginal", lm.reshape(*b, -1).sum(-1), (lm_full * keep).sum(dims), "direct", cls=f"lm:{pol}:{'mt' if t else 'single'}", policy=pol)
    if case.get("legacy_class"):
        ctx.close("log_marginal", lm, lm_full * keep, "direct", cls="lm:legacy_class:elementwise", policy=pol)
        # gradients w.r.t. the noise and the latent mean: those of the observed entries alone, finite
        mean_g = mean.clone().requires_grad_(True)
        with S.observation_nan_policy(pol):
            tot = lik.expected_log_prob(yn, MVN(mean_g, C)).sum() + lik.log_marginal(yn, MVN(mean_g, C)).sum()
        gn, gm = torch.autograd.grad(tot, [lik.raw_noise, mean_g])
        mean_r = mean.clone().requires_grad_(True)
        rr = lik.noise.expand(*b, N)
        ref_tot = ((-0.5 * (((y - mean_r) ** 2 + v) / rr + torch.log(rr) + math.log(2 * math.pi))) * keep).sum() + ((-0.5 * ((y - mean_r) ** 2 / (v + rr) + torch.log(v + rr) + math.log(2 * math.pi))) * keep).sum()
        rn, rm = torch.autograd.grad(ref_tot, [lik.raw_noise, mean_r])
        ctx.expect("no_nan_leaves", bool(torch.isfinite(gn).all() and torch.isfinite(gm).all()), "NaN in the gradients of the likelihood terms", where="lik_terms:legacy_class")
        ctx.close("expected_log_prob", torch.cat([gn.reshape(-1), gm.reshape(-1)]), torch.cat([rn.reshape(-1), rm.reshape(-1)]), "direct", cls="grad:legacy_class", policy=pol)
    if (pol == "fill" or case.get("legacy_class")) and not t and elp.shape == elp_full.shape:
        ctx.close("expected_log_prob_elementwise", elp, elp_full * keep, "direct", cls="elp:fill:elementwise")
    ctx.expect("no_nan_leaves", bool(torch.isfinite(elp).all() and torch.isfinite(lm).all()), "NaN in likelihood terms", where="lik_terms")
    # the SAME target buffer refilled in place (a pending observation arrives, other targets, another missing pattern), the same
    # likelihood object called again: the terms of the targets it holds NOW
    miss2 = torch.roll(miss, shifts=1, dims=-1 if not t else -2)
    if pol == "mask" and b:
        miss2 = miss2.any(0, keepdim=True).expand_as(miss2).clone()
    y2 = mean + util.randn(g, *mean.shape)
    yn.copy_(torch.where(miss2, torch.full_like(y2, float("nan")), y2))
    elp2_full = -0.5 * (((y2 - mean) ** 2 + v) / r + torch.log(r) + math.log(2 * math.pi))
    lm2_full = -0.5 * ((y2 - mean) ** 2 / (v + r) + torch.log(v + r) + math.log(2 * math.pi))
    keep2 = (~miss2).to(elp_full.dtype)
    with S.observation_nan_policy(pol), torch.no_grad():
        try:
            elp2 = lik.expected_log_prob(yn, d)
            lm2 = lik.log_marginal(yn, d)
            ctx.close("expected_log_prob", elp2.reshape(*b, -1).sum(-1), (elp2_full * keep2).sum(dims), "direct", cls=f"elp:{pol}:refilled_buffer", policy=pol)
            ctx.close("log_marginal", lm2.reshape(*b, -1).sum(-1), (lm2_full * keep2).sum(dims), "direct", cls=f"lm:{pol}:refilled_buffer", policy=pol)
        except Exception as e:
            ctx.fail("expected_log_prob", f"second call on the refilled target buffer raised {type(e).__name__}: {str(e)[:120]}", "raise", policy=pol)
    ctx.cell({k: v_ for k, v_ in case.items() if k != "seed"}, nontrivial=bool(miss.any()))


def _specialised_strategy(case, fl):
    """the NaN policies live in DefaultPredictionStrategy only: KISS-GP (interpolated strategy) lets NaN through, the RFF
    strategy's covariance ignores the missing pattern"""
    v = case.get("variant")
    if v == "kiss":
        return fl["monitor"] in ("no_nan_leaves", "posterior_mean", "posterior_covar", "posterior_variance", "order_independent")
    if v == "rff":
        return fl["monitor"] in ("posterior_covar", "posterior_variance", "order_independent")
    return False


MATCHERS = {"C16-specialised-strategies-ignore-nan-policy": _specialised_strategy}
