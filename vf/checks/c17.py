"""C17 - constraints, parameter setters and priors: bounds, bijection, round trips.

Monitors: an INVARIANT HOOK that runs after every monitored mutation (public setter found by reflection, initialize,
load_state_dict, optimiser step with large learning rates, sample_from_prior): every constrained parameter of the module
tree reads back inside its constraint's closed bounds. Oracles: transform range/monotonicity/inverse on the whole float
range (float64 and float32, scalar and tensor bounds); setter round trip (module.p = v ; module.p == v) for every
(module, parameter) pair discovered by reflection; out-of-bounds assignments rejected with the old value intact; prior
log-densities vs scipy/mpmath references incl. tails and normalisation; registered-prior closures see the constrained
value; sample_from_prior stores the sampled value.
"""
import itertools
import random

PROPERTY = "C17"
RULE = (
    'case kinds: (constraint) class x bounds (scalar, tensor, infinite side) x dtype x raw-value chunk over +-1e-300..+-1e300 incl. subnormals; '
    '(setter) one (module, parameter) pair found by reflection over exported kernels/likelihoods/means x value regime (interior, near bound, '
    'large, out of bounds); (sequence) module x random sequence of set / initialize / optimiser step (Adam/SGD/LBFGS, lr up to 10) / '
    'load_state_dict / sample_from_prior with the invariant hook after each; (prior) prior class x parameters: 200-point density comparison + '
    'normalisation; (ctor_priors) every `<parameter>_prior=` constructor argument of 25 classes: closure reads / setting closure writes its own '
    'parameter; setters also under a distinct custom constraint per parameter; distinct = cell without seed; non-trivial iff >=1 finite bound '
    '(constraint) / value != default (setter)'
    '; pass 5: one prior object registered for several parameters (by closure and by name)'
    '; pass 6: constraint bounds loaded from a state dict saved with other bounds (Interval, GreaterThan, LessThan)'
    "; pass 8: assignments with the debug checks switched off; kernels built with the deprecated param_transform keyword"
    "; pass 9: pyro_load_from_samples read-back for modules whose priors share a local name; constructor priors named after the raw parameter are resolved (were skipped)"
)
REQUIRED = ["transform_in_bounds", "transform_monotone", "inverse_roundtrip", "setter_roundtrip", "out_of_bounds_rejected", "invariant_after_mutation", "prior_log_prob", "prior_normalised", "prior_closure_sees_constrained", "sample_from_prior_readback"]
ASSUMPTIONS = [
    "round trip transform(inverse_transform(v)) is required on the interior excluding a saturation zone of 1e-9*(u-l) (1e-3 in float32) next to a finite bound; values up to 1e6 above a lower bound",
    "reference densities: scipy.stats (Normal, LogNormal, Gamma, HalfNormal, HalfCauchy, Uniform, multivariate normal), LKJ from its documented formula with mpmath normalising constant, SmoothedBox by numerical integration, Horseshoe from its documented (lb+ub)/2 formula",
]
ANCHOR_FILES = ["gpytorch/constraints/", "gpytorch/priors/", "gpytorch/module.py", "gpytorch/utils/transforms.py"]


def _constraint_specs():
    return [
        ("Positive", {}), ("GreaterThan", {"lower_bound": 1e-4}), ("GreaterThan", {"lower_bound": -3.0}), ("GreaterThan", {"lower_bound": [0.1, 2.0]}),
        ("LessThan", {"upper_bound": 2.0}), ("LessThan", {"upper_bound": [-1.0, 5.0]}),
        ("Interval", {"lower_bound": 0.1, "upper_bound": 0.9}), ("Interval", {"lower_bound": -5.0, "upper_bound": 7.0}),
        ("Interval", {"lower_bound": [0.0, 1.0], "upper_bound": [1.0, 5.0]}), ("Interval", {"lower_bound": 1e-6, "upper_bound": 1e6}),
    ]


def _module_specs():
    return [
        "RBFKernel", "RBFKernel:ard3:batch2", "MaternKernel", "RQKernel", "PeriodicKernel", "PeriodicKernel:ard3", "CosineKernel", "LinearKernel", "PolynomialKernel",
        "ConstantKernel", "ScaleKernel", "ScaleKernel:batch2", "SpectralMixtureKernel", "ArcKernel", "CylindricalKernel", "HammingIMQKernel", "IndexKernel", "PiecewisePolynomialKernel",
        "RFFKernel", "NewtonGirardAdditiveKernel", "GaussianLikelihood", "GaussianLikelihood:batch2", "MultitaskGaussianLikelihood", "LaplaceLikelihood", "StudentTLikelihood",
        "BetaLikelihood", "FixedNoiseGaussianLikelihood:learn", "ConstantMean", "ConstantMean:batch2", "MultitaskKernel", "LCMKernel",
    ]


PRIORS = ["NormalPrior", "LogNormalPrior", "GammaPrior", "HalfNormalPrior", "HalfCauchyPrior", "UniformPrior", "MultivariateNormalPrior", "SmoothedBoxPrior", "HorseshoePrior", "LKJPrior", "LKJCholeskyFactorPrior", "LKJCovariancePrior"]


# classes whose constructor takes `<parameter>_prior=` arguments, with the other arguments they need
CTOR_PRIOR_CLASSES = {
    "RBFKernel": {}, "MaternKernel": {}, "RQKernel": {}, "PeriodicKernel": {}, "CosineKernel": {}, "LinearKernel": {}, "PolynomialKernel": {"power": 2},
    "ConstantKernel": {}, "ScaleKernel": {"base_kernel": "RBFKernel"}, "SpectralMixtureKernel": {"num_mixtures": 2, "ard_num_dims": 2}, "ArcKernel": {"base_kernel": "MaternKernel"},
    "CylindricalKernel": {"num_angular_weights": 3, "radial_base_kernel": "MaternKernel"}, "HammingIMQKernel": {"vocab_size": 3}, "PiecewisePolynomialKernel": {},
    "GaussianLikelihood": {}, "LaplaceLikelihood": {}, "StudentTLikelihood": {}, "BetaLikelihood": {}, "ConstantMean": {}, "MultitaskGaussianLikelihood": {"num_tasks": 3},
    "FixedNoiseGaussianLikelihood": {"noise": "rand4", "learn_additional_noise": True}, "RBFKernelGrad": {}, "Matern52KernelGrad": {}, "PolynomialKernelGrad": {"power": 2},
    "SpectralDeltaKernel": {"num_dims": 2, "num_deltas": 3},
}


def cases(tier, seed):
    rnd = random.Random(17000 + seed)
    for (cname, kw), dtype, chunk in itertools.product(_constraint_specs(), ["float64", "float32"], range(3)):
        yield {"kind": "constraint", "cls": cname, "kw": kw, "dtype": dtype, "chunk": chunk, "seed": rnd.randrange(10**6)}
    reps = 1 if tier == "quick" else 40
    for _ in range(reps):
        for spec in _module_specs():
            for regime in ("interior", "nearbound", "large", "oob"):
                yield {"kind": "setter", "module": spec, "regime": regime, "seed": rnd.randrange(10**6)}
            # every constrained parameter gets a constraint of its own, different from all its siblings'
            for regime in ("interior", "oob"):
                yield {"kind": "setter", "module": spec, "regime": regime, "custom": True, "seed": rnd.randrange(10**6)}
            yield {"kind": "sequence", "module": spec, "length": rnd.randint(3, 8), "seed": rnd.randrange(10**6)}
            yield {"kind": "aliasing", "module": spec, "seed": rnd.randrange(10**6)}
            # the same assignments with the library's debug checks switched off (bounds are part of the contract, not of debugging)
            for regime in ("interior", "oob"):
                yield {"kind": "setter", "module": spec, "regime": regime, "env": "debug_off", "seed": rnd.randrange(10**6)}
        # kernels constructed with the deprecated `param_transform` keyword (documented as ignored, with a warning)
        for spec in ("RBFKernel:param_transform_exp", "MaternKernel:param_transform_exp:ard3", "PeriodicKernel:param_transform_exp"):
            for regime in ("interior", "nearbound", "large", "oob"):
                yield {"kind": "setter", "module": spec, "regime": regime, "seed": rnd.randrange(10**6)}
            yield {"kind": "sequence", "module": spec, "length": rnd.randint(3, 8), "seed": rnd.randrange(10**6)}
        # pyro_load_from_samples (no pyro needed): a dict of samples keyed by prior names is written through the priors'
        # setting closures - EVERY module's parameter then reads back its own samples (modules whose priors share a local name)
        for struct, ns_ in itertools.product(["sum_of_two", "scale_of_scale", "shared_prior_object"], [1, 3]):
            yield {"kind": "load_samples", "struct": struct, "samples": ns_, "seed": rnd.randrange(10**6)}
        for pr in PRIORS:
            for variant in range(2):
                yield {"kind": "prior", "prior": pr, "variant": variant, "seed": rnd.randrange(10**6)}
        for cname in CTOR_PRIOR_CLASSES:
            yield {"kind": "ctor_priors", "cls": cname, "seed": rnd.randrange(10**6)}
        for by in ("closure", "name"):
            yield {"kind": "shared_prior", "by": by, "seed": rnd.randrange(10**6)}
        for cls_, (sv, rc) in itertools.product(["interval", "greater", "less"], [((0.5, 4.0), (0.01, 0.9)), ((0.01, 0.9), (0.5, 4.0)), ((2.0, 3.0), (2.5, 30.0))]):
            yield {"kind": "bounds_loaded", "cls": cls_, "saved": list(sv), "receiver": list(rc), "seed": rnd.randrange(10**6)}
        for spec in ("RBFKernel", "ScaleKernel", "GaussianLikelihood", "PeriodicKernel"):
            for pr in ("GammaPrior", "LogNormalPrior", "HalfCauchyPrior", "UniformPrior"):
                yield {"kind": "registered", "module": spec, "prior": pr, "seed": rnd.randrange(10**6)}


def _build_module(spec):
    import torch

    import gpytorch

    K, L, Mn = gpytorch.kernels, gpytorch.likelihoods, gpytorch.means
    name, *opts = spec.split(":")
    kw = {}
    if "batch2" in opts:
        kw["batch_shape"] = torch.Size([2])
    if "ard3" in opts:
        kw["ard_num_dims"] = 3
    if "param_transform_exp" in opts:
        import warnings

        with warnings.catch_warnings():
            warnings.simplefilter("ignore")
            return getattr(K, name)(param_transform=torch.exp, **kw)
    if name == "ScaleKernel":
        return K.ScaleKernel(K.RBFKernel(**kw), **kw)
    if name == "PolynomialKernel":
        return K.PolynomialKernel(power=2)
    if name == "SpectralMixtureKernel":
        return K.SpectralMixtureKernel(num_mixtures=2, ard_num_dims=2)
    if name == "ArcKernel":
        return K.ArcKernel(K.MaternKernel(nu=2.5))
    if name == "CylindricalKernel":
        return K.CylindricalKernel(3, K.MaternKernel())
    if name == "HammingIMQKernel":
        return K.HammingIMQKernel(vocab_size=3)
    if name == "IndexKernel":
        return K.IndexKernel(num_tasks=3)
    if name == "RFFKernel":
        return K.RFFKernel(num_samples=4, num_dims=2)
    if name == "NewtonGirardAdditiveKernel":
        return K.NewtonGirardAdditiveKernel(K.RBFKernel(ard_num_dims=3), num_dims=3, max_degree=2)
    if name == "MultitaskKernel":
        return K.MultitaskKernel(K.RBFKernel(), num_tasks=2, rank=1)
    if name == "LCMKernel":
        return K.LCMKernel([K.RBFKernel(), K.MaternKernel()], num_tasks=2, rank=1)
    if name == "MultitaskGaussianLikelihood":
        return L.MultitaskGaussianLikelihood(num_tasks=3)
    if name == "FixedNoiseGaussianLikelihood":
        return L.FixedNoiseGaussianLikelihood(torch.rand(4) + 0.1, learn_additional_noise=True)
    for ns in (K, L, Mn):
        if hasattr(ns, name):
            return getattr(ns, name)(**kw)
    raise KeyError(spec)


def _constrained_pairs(module):
    """(owner module, public property name, constraint, raw parameter name) for every constrained parameter with a public setter"""
    out = []
    for mname, mod in module.named_modules():
        for cname, cons in getattr(mod, "_constraints", {}).items():
            raw = cname[: -len("_constraint")]
            pub = raw[4:] if raw.startswith("raw_") else None
            prop = getattr(type(mod), pub, None) if pub else None
            if isinstance(prop, property) and prop.fset is not None:
                out.append((mod, pub, cons, raw))
    return out


def check_invariant(ctx, module, where):
    """every constrained parameter of the tree reads back inside the closed bounds of its constraint"""
    import torch

    bad = []
    for mname, mod in module.named_modules():
        for cname, cons in getattr(mod, "_constraints", {}).items():
            raw = cname[: -len("_constraint")]
            p = getattr(mod, raw, None)
            if p is None:
                continue
            with torch.no_grad():
                v = cons.transform(p)
                ok = torch.isfinite(p).all() and bool(((v >= cons.lower_bound) & (v <= cons.upper_bound)).all())
                pub = raw[4:] if raw.startswith("raw_") else None
                if pub and isinstance(getattr(type(mod), pub, None), property):
                    pv = getattr(mod, pub)
                    ok = ok and bool(((pv >= cons.lower_bound) & (pv <= cons.upper_bound)).all())
            if not ok:
                bad.append(f"{type(mod).__name__}.{raw}")
    ctx.expect("invariant_after_mutation", not bad, f"after {where}: outside bounds / non-finite: {bad[:4]}", where=where)


def run_case(case, ctx):
    from vf import util

    g = util.gen(case["seed"])
    if case.get("env") == "debug_off":
        from gpytorch import settings as S

        with S.debug(False):
            return _setter(case, ctx, g)
    return {"constraint": _constraint, "setter": _setter, "sequence": _sequence, "prior": _prior, "registered": _registered, "ctor_priors": _ctor_priors, "aliasing": _aliasing, "shared_prior": _shared_prior, "bounds_loaded": _bounds_loaded, "load_samples": _load_samples}[case["kind"]](case, ctx, g)


def _load_samples(case, ctx, g):
    import torch

    import gpytorch
    from vf import util

    K, P = gpytorch.kernels, gpytorch.priors
    S_ = case["samples"]
    if case["struct"] == "sum_of_two":
        kern = K.RBFKernel(lengthscale_prior=P.GammaPrior(2.0, 1.0)) + K.MaternKernel(nu=1.5, lengthscale_prior=P.GammaPrior(3.0, 2.0))
    elif case["struct"] == "scale_of_scale":
        kern = K.ScaleKernel(K.ScaleKernel(K.RBFKernel(lengthscale_prior=P.GammaPrior(2.0, 1.0)), outputscale_prior=P.GammaPrior(2.0, 3.0)), outputscale_prior=P.GammaPrior(1.5, 1.0))
    else:
        one = P.GammaPrior(2.0, 1.0)  # ONE prior object on two modules: the first owner's closure is used once (documented memo)
        kern = K.RBFKernel(lengthscale_prior=one) + K.MaternKernel(nu=2.5, lengthscale_prior=one)
    lik = gpytorch.likelihoods.GaussianLikelihood(noise_prior=P.GammaPrior(1.1, 2.0))
    X, y = util.randn(g, 5, 2), util.randn(g, 5)
    m = util.GP(X, y, lik, gpytorch.means.ConstantMean(constant_prior=P.NormalPrior(0.0, 1.0)), kern)
    seen, samples, expect = set(), {}, []
    for name, owner, prior, closure, _ in m.named_priors():
        if id(prior) in seen:
            continue
        seen.add(id(prior))
        shape = closure(owner).shape
        val = (util.rand(g, S_, *shape) + 0.3) if "mean" not in name else util.randn(g, S_, *shape)
        samples[name] = val
        expect.append((name, owner, closure, val))
    try:
        m.pyro_load_from_samples(samples)
    except Exception as e:
        ctx.fail("sample_from_prior_readback", f"pyro_load_from_samples raised {type(e).__name__}: {str(e)[:140]}", "raise", struct=case["struct"])
        return
    for name, owner, closure, val in expect:
        back = closure(owner).detach()
        ok = back.shape == val.shape or back.numel() == val.numel()
        ctx.expect("sample_from_prior_readback", ok, f"{name}: reads back shape {tuple(back.shape)} for samples of shape {tuple(val.shape)}", struct=case["struct"], prior=name)
        if ok:
            ctx.close("sample_from_prior_readback", back.reshape(val.shape), val, (1e-9, 1e-9), cls="load_samples:" + case["struct"], prior=name)
    ctx.cell({k_: v_ for k_, v_ in case.items() if k_ != "seed"}, nontrivial=True)


def _constraint(case, ctx, g):
    import torch

    import gpytorch
    from vf import util

    dt = getattr(torch, case["dtype"])
    kw = {k: (torch.tensor(v, dtype=dt) if isinstance(v, list) else v) for k, v in case["kw"].items()}
    c = getattr(gpytorch.constraints, case["cls"])(**kw)
    lo, hi = c.lower_bound.to(dt), c.upper_bound.to(dt)
    tiny = float(torch.finfo(dt).tiny)
    big = 1e300 if dt == torch.float64 else 1e38
    special = [-big, -1e30, -745.0, -88.0, -50.0, -tiny, -tiny / 4, -0.0, 0.0, tiny / 4, tiny, 50.0, 88.0, 709.0, 745.0, 1e30, big]
    rnd = (util.randn(g, 400) * (5.0 ** (case["chunk"] + 1))).tolist()
    raws = torch.tensor(special + rnd, dtype=dt)
    nb = max(lo.numel(), hi.numel())
    r = raws if nb == 1 else raws.unsqueeze(-1).expand(-1, nb)
    t = c.transform(r)
    # closed interval up to a few ulps of the bound (l + (u-l)*sigmoid rounds): 4 eps relative
    ulp = 4 * float(torch.finfo(dt).eps)
    inb = (t >= lo - ulp * lo.abs()) & (t <= hi + ulp * hi.abs())
    ctx.expect("transform_in_bounds", bool(inb.all()) and not bool(torch.isnan(t).any()), f"transform left [{lo.tolist()}, {hi.tolist()}] or produced NaN at raw={r[~inb | torch.isnan(t)][:3].tolist()}", cls=case["cls"])
    srt, _ = r.sort(0)
    ts = c.transform(srt)
    ctx.expect("transform_monotone", bool((ts[1:] >= ts[:-1]).all()), "transform is not monotone non-decreasing", cls=case["cls"])
    # inverse on the interior
    flo = torch.where(torch.isfinite(lo), lo, hi - 10)
    fhi = torch.where(torch.isfinite(hi), hi, lo + 10)
    bshape = lo.shape if lo.numel() >= hi.numel() else hi.shape
    u = util.rand(g, 300, *bshape).to(dt)
    sat = 1e-9 if dt == torch.float64 else 1e-3
    v = flo + (fhi - flo) * u.clamp(sat * 10, 1 - sat * 10)
    if not torch.isfinite(hi).all():
        v = torch.cat([v, lo + 10 ** (util.rand(g, 100, *bshape).to(dt) * 12 - 6)])
    if not torch.isfinite(lo).all():
        v = torch.cat([v, hi - 10 ** (util.rand(g, 100, *bshape).to(dt) * 12 - 6)])
    rt = c.transform(c.inverse_transform(v))
    rtol = 1e-9 if dt == torch.float64 else 1e-3
    err = ((rt - v).abs() / (rtol * (v.abs() + (fhi - flo).abs().clamp_max(1.0)))).max()
    ctx.expect("inverse_roundtrip", bool(err <= 1), f"transform(inverse_transform(v)) != v: normalised error {float(err):.3g}", cls=case["cls"], err=float(err))
    ctx.expect("check_accepts_transformed", bool(c.check(c.transform(torch.zeros(bshape, dtype=dt)))), "constraint.check rejects its own transform(0)")
    ctx.cell({k: v_ for k, v_ in case.items() if k != "seed"}, nontrivial=bool(torch.isfinite(lo).any() or torch.isfinite(hi).any()))


def _value_for(cons, cur, regime, g):
    import torch

    from vf import util

    lo = torch.where(torch.isfinite(cons.lower_bound), cons.lower_bound, cons.upper_bound - 3).to(cur)
    hi = torch.where(torch.isfinite(cons.upper_bound), cons.upper_bound, cons.lower_bound + 3).to(cur)
    u = util.rand(g, *cur.shape)
    if regime == "interior":
        return lo + (hi - lo) * u.clamp(0.05, 0.95)
    if regime == "nearbound":
        return lo + (hi - lo) * torch.where(u < 0.5, torch.full_like(u, 1e-6), torch.full_like(u, 1 - 1e-6))
    if regime == "large":
        if torch.isfinite(cons.upper_bound).all():
            return lo + (hi - lo) * 0.999
        return cons.lower_bound.to(cur) + 10 ** (u * 5 + 1)  # 1e1 .. 1e6 above the lower bound
    raise ValueError


def _setter(case, ctx, g):
    import torch

    module = _build_module(case["module"])
    pairs = _constrained_pairs(module)
    if not pairs:
        ctx.reject("no constrained parameter with a public setter")
        return
    if case.get("custom"):
        import gpytorch.constraints as C

        for i, (mod, pub, cons, raw) in enumerate(pairs):
            if bool((cons.lower_bound >= 0).all()):
                new = C.Interval(0.3 + 0.07 * i, 3.0 + 0.5 * i) if i % 2 == 0 else C.GreaterThan(0.2 + 0.05 * i)
                mod.register_constraint(raw, new)
        pairs = _constrained_pairs(module)
    for mod, pub, cons, raw in pairs:
        cur = getattr(mod, pub).detach().clone()
        cls = f"{type(mod).__name__}.{pub}" + (":custom" if case.get("custom") else "")
        if case["regime"] == "oob":
            probes = []
            if torch.isfinite(cons.lower_bound).all():
                probes.append((cons.lower_bound.to(cur) - 0.5).expand_as(cur).clone())
            if torch.isfinite(cons.upper_bound).all():
                probes.append((cons.upper_bound.to(cur) + 0.5).expand_as(cur).clone())
            for bad in probes:
                try:
                    setattr(mod, pub, bad)
                    accepted = True
                except Exception:
                    accepted = False
                after = getattr(mod, pub).detach()
                ctx.expect("out_of_bounds_rejected", not accepted, f"{cls} = {bad.flatten()[:2].tolist()} (outside [{cons.lower_bound.flatten()[:2].tolist()}, {cons.upper_bound.flatten()[:2].tolist()}]) was accepted; reads back {after.flatten()[:2].tolist()}", target=cls)
                if not accepted:
                    ctx.expect("rejected_assignment_keeps_old_value", torch.equal(after, cur), f"{cls}: a rejected assignment changed the value", target=cls)
                else:
                    with torch.no_grad():
                        getattr(mod, raw).copy_(cons.inverse_transform(cur))
            continue
        v = _value_for(cons, cur, case["regime"], g)
        try:
            setattr(mod, pub, v)
        except Exception as e:
            ctx.fail("setter_roundtrip", f"{cls} = value in bounds raised {type(e).__name__}: {str(e)[:120]}", "raise", target=cls, regime=case["regime"])
            continue
        back = getattr(mod, pub).detach()
        ctx.close("setter_roundtrip", back, v.expand(back.shape), (1e-9, 1e-9) if case["regime"] != "nearbound" else (1e-9, 1e-7), cls=cls, target=cls, regime=case["regime"])
        # scalar (python float) assignment path
        try:
            fv = float(v.reshape(-1)[0])
            setattr(mod, pub, fv)
            back = getattr(mod, pub).detach()
            ctx.close("setter_roundtrip_float", back, torch.full_like(back, fv), (1e-9, 1e-7), cls=cls + ":float", target=cls)
        except Exception as e:
            ctx.fail("setter_roundtrip_float", f"{cls} = python float raised {type(e).__name__}: {str(e)[:120]}", "raise", target=cls)
        check_invariant(ctx, module, f"setter {cls}")
    ctx.cell({k: v_ for k, v_ in case.items() if k != "seed"})


def _aliasing(case, ctx, g):
    """a stored value is a COPY: changing the tensor that was assigned (or the parameter of the module it was taken from,
    e.g. by an optimiser step) afterwards must not change what the module reads back"""
    import torch

    from vf import util

    A, B = _build_module(case["module"]), _build_module(case["module"])
    pa, pb = _constrained_pairs(A), _constrained_pairs(B)
    if not pa:
        ctx.reject("no constrained parameter with a public setter")
        return
    for (ma, pub, cons, raw), (mb, _, _, _) in zip(pa, pb):
        tgt = f"{type(ma).__name__}.{pub}"
        # (1) initialize(raw=tensor) then mutate the tensor
        t = (getattr(ma, raw).detach().clone() + 0.3 * util.randn(g, *getattr(ma, raw).shape)).to(getattr(ma, raw).dtype)
        try:
            ma.initialize(**{raw: t})
        except Exception:
            continue
        before = getattr(ma, pub).detach().clone()
        t.add_(1.0)
        ctx.expect("stored_value_is_a_copy", bool(torch.equal(getattr(ma, pub).detach(), before)), f"{tgt}: initialize({raw}=t) kept a reference to t", target=tgt, how="initialize_then_mutate_argument")
        # (2) take another module's parameter, then step that module
        try:
            mb.initialize(**{raw: getattr(ma, raw)})
        except Exception:
            continue
        before = getattr(mb, pub).detach().clone()
        with torch.no_grad():
            getattr(ma, raw).add_(0.7)  # what an optimiser step does
        ctx.expect("stored_value_is_a_copy", bool(torch.equal(getattr(mb, pub).detach(), before)), f"{tgt}: initialised from another module's parameter, it now follows that module", target=tgt, how="initialize_from_other_module")
        # (3) public setter with a tensor, then mutate the tensor
        v = getattr(ma, pub).detach().clone()
        try:
            setattr(ma, pub, v)
        except Exception:
            continue
        before = getattr(ma, pub).detach().clone()
        v.mul_(1.5)
        ctx.expect("stored_value_is_a_copy", bool(torch.equal(getattr(ma, pub).detach(), before)), f"{tgt}: the setter kept a reference to the assigned tensor", target=tgt, how="setter_then_mutate_argument")
    # unconstrained parameters with a public setter (ConstantMean.constant, ...): same rule
    for mod in A.modules():
        for pname, par in list(mod._parameters.items()):
            pub = pname[4:] if pname.startswith("raw_") else pname
            prop = getattr(type(mod), pub, None)
            if par is None or not isinstance(prop, property) or prop.fset is None or f"{pname}_constraint" in getattr(mod, "_constraints", {}):
                continue
            v = par.detach().clone() + 0.25
            try:
                setattr(mod, pub, v)
            except Exception:
                continue
            before = getattr(mod, pub).detach().clone()
            v.add_(3.0)
            ctx.expect("stored_value_is_a_copy", bool(torch.equal(getattr(mod, pub).detach(), before)), f"{type(mod).__name__}.{pub}: the setter kept a reference to the assigned tensor", target=f"{type(mod).__name__}.{pub}", how="unconstrained_setter")
    ctx.cell({k: v_ for k, v_ in case.items() if k != "seed"})


def _sequence(case, ctx, g):
    import copy

    import torch

    from vf import util

    module = _build_module(case["module"])
    pairs = _constrained_pairs(module)
    if not pairs:
        ctx.reject("no constrained parameter with a public setter")
        return
    params = [p for p in module.parameters() if p.requires_grad]
    ops = []
    for i in range(case["length"]):
        op = ["set", "initialize", "step_sgd", "step_adam", "step_lbfgs", "load_state_dict", "set_large"][int(torch.randint(0, 7, (1,), generator=g))]
        ops.append(op)
        mod, pub, cons, raw = pairs[int(torch.randint(0, len(pairs), (1,), generator=g))]
        try:
            if op in ("set", "set_large"):
                setattr(mod, pub, _value_for(cons, getattr(mod, pub).detach(), "interior" if op == "set" else "large", g))
            elif op == "initialize":
                mod.initialize(**{pub: _value_for(cons, getattr(mod, pub).detach(), "interior", g)})
            elif op.startswith("step") and params:
                lr = float(10 ** (util.rand(g, 1) * 3 - 2))
                opt = {"step_sgd": lambda: torch.optim.SGD(params, lr=lr), "step_adam": lambda: torch.optim.Adam(params, lr=lr), "step_lbfgs": lambda: torch.optim.LBFGS(params, lr=min(lr, 1.0), max_iter=3)}[op]()

                def closure():
                    opt.zero_grad()
                    loss = sum(((getattr(m_, p_) - 0.37) ** 2).sum() + (getattr(m_, r_) ** 2).sum() * 1e-3 for m_, p_, c_, r_ in pairs)
                    loss.backward()
                    return loss

                opt.step(closure)
            elif op == "load_state_dict":
                sd = copy.deepcopy(module.state_dict())
                for k in sd:
                    if "raw_" in k and "constraint" not in k and "prior" not in k and sd[k].dtype.is_floating_point:
                        sd[k] = sd[k] + util.randn(g, *sd[k].shape) * 3
                module.load_state_dict(sd)
        except Exception as e:
            ctx.fail("invariant_after_mutation", f"{op} on {type(mod).__name__}.{pub} raised {type(e).__name__}: {str(e)[:120]}", "raise", op=op)
            break
        check_invariant(ctx, module, f"{op} ({i})")
    ctx.cell({"module": case["module"], "ops": ops})


def _ctor_priors(case, ctx, g):
    """every `<parameter>_prior=` constructor argument registers a prior that (a) is evaluated at the constrained value of
    THAT parameter and (b) whose setting closure writes THAT parameter (what sample_from_prior relies on)"""
    import inspect

    import torch

    import gpytorch
    from vf import util

    K, L, Mn, P = gpytorch.kernels, gpytorch.likelihoods, gpytorch.means, gpytorch.priors
    cname = case["cls"]
    cls_ = next(getattr(ns, cname) for ns in (K, L, Mn) if hasattr(ns, cname))
    kw = {}
    for k_, v_ in CTOR_PRIOR_CLASSES[cname].items():
        kw[k_] = getattr(K, v_)() if isinstance(v_, str) and hasattr(K, v_) else (torch.rand(4) + 0.1 if v_ == "rand4" else v_)
    names = []
    for base in cls_.__mro__:  # constructors forward **kwargs to their base classes
        if "__init__" in base.__dict__:
            for p_ in inspect.signature(base.__init__).parameters:
                if p_.endswith("_prior") and p_ not in names:
                    names.append(p_)
    if cname == "MultitaskGaussianLikelihood":
        names = [n_ for n_ in names if n_ == "noise_prior"]
    if not names:
        ctx.reject(f"{cname}: no *_prior constructor argument")
        return
    for i, p_ in enumerate(names):
        kw[p_] = P.NormalPrior(0.1 * i, 1.0 + 0.1 * i) if p_ in ("constant_prior",) else P.GammaPrior(2.0 + 0.3 * i, 1.5 + 0.1 * i)
    try:
        try:
            module = cls_(**kw)
        except TypeError:
            kw.pop("lengthscale_prior", None)  # kernels without a lengthscale
            names = [n_ for n_ in names if n_ != "lengthscale_prior"]
            module = cls_(**kw)
    except Exception as e:
        ctx.reject(f"{cname}: constructor refused the priors: {type(e).__name__}")
        return
    util.randomize(module, g, 0.6)
    found = 0
    for name, mod, prior, closure, setter in module.named_priors():
        attr = name.rsplit(".", 1)[-1][: -len("_prior")]
        attr = {"mean": "constant"}.get(attr, attr) if isinstance(mod, Mn.ConstantMean) else attr
        if attr.startswith("raw_") and isinstance(getattr(type(mod), attr[4:], None), property):
            attr = attr[4:]  # (some modules name the prior after the raw parameter: raw_task_noises_prior -> task_noises)
        if not name.endswith("_prior") or not isinstance(getattr(type(mod), attr, None), property):
            ctx.info[f"ctor_prior_unresolved:{cname}.{name}"] += 1
            continue
        found += 1
        with torch.no_grad():
            seen, want = closure(mod), getattr(mod, attr)
        ctx.expect("ctor_prior_closure_reads_its_parameter", seen.shape == want.shape and bool(torch.equal(seen, want)), f"{cname}: prior '{name}' is evaluated at a value that is not {type(mod).__name__}.{attr}", target=f"{cname}.{name}")
        if setter is not None:
            cons = mod._constraints.get(f"raw_{attr}_constraint")
            if cons is not None and bool(torch.isfinite(cons.upper_bound).all()) and bool(torch.isfinite(cons.lower_bound).all()):
                mid = 0.5 * (cons.upper_bound + cons.lower_bound).to(want)
                new = (want.detach() + (0.2 + 0.3 * util.rand(g, *want.shape)) * (mid - want.detach())).clone()
            else:
                new = (want.detach() * (1.05 + 0.1 * util.rand(g, *want.shape)) + 0.011).clone()
            before = {a_: getattr(mod, a_).detach().clone() for a_ in dir(type(mod)) if isinstance(getattr(type(mod), a_, None), property) and a_ != attr and a_ in [n_[4:] for n_ in mod._parameters if n_.startswith("raw_")]}
            try:
                setter(mod, new)
            except Exception as e:
                ctx.fail("ctor_prior_setting_closure_writes_its_parameter", f"{cname}: setting closure of '{name}' raised {type(e).__name__}: {str(e)[:100]}", "raise", target=f"{cname}.{name}")
                continue
            back = getattr(mod, attr).detach()
            ctx.close("ctor_prior_setting_closure_writes_its_parameter", back, new.expand_as(back), (1e-9, 1e-7), cls="ctor_prior_set", target=f"{cname}.{name}")
            for a_, v_ in before.items():
                ctx.expect("ctor_prior_setting_closure_leaves_siblings", bool(torch.equal(getattr(mod, a_).detach(), v_)), f"{cname}: setting closure of '{name}' changed {a_}", target=f"{cname}.{name}")
    # the same on a DEEP COPY of the module: the copy's closures read / write the copy, never the original
    import copy

    orig_state = {k_: v_.detach().clone() for k_, v_ in module.state_dict().items()}
    clone = copy.deepcopy(module)
    util.randomize(clone, util.gen(case["seed"] + 3), 0.6)
    clone_names = {id(m_): n_ for n_, m_ in clone.named_modules()}
    for name, mod, prior, closure, setter in clone.named_priors():
        attr = name.rsplit(".", 1)[-1][: -len("_prior")]
        attr = {"mean": "constant"}.get(attr, attr) if isinstance(mod, Mn.ConstantMean) else attr
        if attr.startswith("raw_") and isinstance(getattr(type(mod), attr[4:], None), property):
            attr = attr[4:]  # (some modules name the prior after the raw parameter: raw_task_noises_prior -> task_noises)
        if not name.endswith("_prior") or not isinstance(getattr(type(mod), attr, None), property):
            continue
        with torch.no_grad():
            seen, want = closure(mod), getattr(mod, attr)
        ctx.expect("ctor_prior_closure_reads_its_parameter", seen.shape == want.shape and bool(torch.equal(seen, want)), f"{cname} (deep copy): prior '{name}' is evaluated at a value that is not the copy's {attr}", target=f"{cname}.{name}", copy=True)
        if setter is not None:
            cons = mod._constraints.get(f"raw_{attr}_constraint")
            if cons is not None and bool(torch.isfinite(cons.upper_bound).all()) and bool(torch.isfinite(cons.lower_bound).all()):
                mid = 0.5 * (cons.upper_bound + cons.lower_bound).to(want)
                new = (want.detach() + 0.35 * (mid - want.detach())).clone()
            else:
                new = (want.detach() * 1.13 + 0.017).clone()
            try:
                setter(mod, new)
            except Exception:
                continue
            back = getattr(mod, attr).detach()
            ctx.close("ctor_prior_setting_closure_writes_its_parameter", back, new.expand_as(back), (1e-9, 1e-7), cls="ctor_prior_set:copy", target=f"{cname}.{name}", copy=True)
    now = module.state_dict()
    changed = [k_ for k_, v_ in orig_state.items() if not torch.equal(now[k_], v_)]
    ctx.expect("copy_closures_leave_original_alone", not changed, f"{cname}: setting closures of a deep copy changed the original's {changed[:3]}", target=cname)
    # ... and for a prior registered BY PARAMETER NAME from the harness
    pairs = _constrained_pairs(module)
    if pairs:
        mod0, pub0, _, _ = pairs[0]
        try:
            mod0.register_prior("vf_named_prior", P.GammaPrior(2.0, 2.0), pub0)
            c2 = copy.deepcopy(module)
            o_before = getattr(mod0, pub0).detach().clone()
            for name, mod, prior, closure, setter in c2.named_priors():
                if name.endswith("vf_named_prior"):
                    v_ = getattr(mod, pub0).detach() * 1.21 + 0.013
                    setter(mod, v_)
                    ctx.close("ctor_prior_setting_closure_writes_its_parameter", getattr(mod, pub0).detach(), v_, (1e-9, 1e-7), cls="named_prior_set:copy", target=f"{cname}.{pub0}", copy=True)
                    ctx.expect("ctor_prior_closure_reads_its_parameter", bool(torch.equal(closure(mod).detach(), getattr(mod, pub0).detach())), f"{cname} (deep copy): name-registered prior reads another module's {pub0}", target=f"{cname}.{pub0}", copy=True)
            ctx.expect("copy_closures_leave_original_alone", bool(torch.equal(getattr(mod0, pub0).detach(), o_before)), f"{cname}: the name-registered prior's setting closure of a deep copy wrote the original's {pub0}", target=cname)
        except (RuntimeError, AttributeError):
            pass
    ctx.cell({"cls": cname, "priors": names}, nontrivial=found >= 1)


def _registered(case, ctx, g):
    """registered priors are evaluated at the CONSTRAINED value; sample_from_prior stores the sampled value"""
    import torch

    import gpytorch

    P = gpytorch.priors
    module = _build_module(case["module"])
    mod, pub, cons, raw = _constrained_pairs(module)[0]
    prior = {"GammaPrior": lambda: P.GammaPrior(2.0, 1.5), "LogNormalPrior": lambda: P.LogNormalPrior(0.1, 0.6), "HalfCauchyPrior": lambda: P.HalfCauchyPrior(1.2), "UniformPrior": lambda: P.UniformPrior(0.3, 2.5)}[case["prior"]]()
    seen = []

    def param_fn(m):
        v = getattr(m, pub)
        seen.append(v.detach().clone())
        return v

    def setter(m, v):
        return setattr(m, pub, v.expand_as(getattr(m, pub)) if torch.is_tensor(v) else v)

    mod.register_prior("vf_prior", prior, param_fn, setter)
    setattr(mod, pub, torch.full_like(getattr(mod, pub), 0.83))
    tot = 0.0
    for name, m_, pr, closure, _ in module.named_priors():
        tot = tot + pr.log_prob(closure(m_)).sum()
    ctx.expect("prior_closure_sees_constrained", len(seen) >= 1 and bool(torch.allclose(seen[-1], torch.full_like(seen[-1], 0.83))), f"closure received {seen[-1].flatten()[:2].tolist() if seen else None}, constrained value is 0.83")
    import scipy.stats as st

    ref = {"GammaPrior": st.gamma(2.0, scale=1 / 1.5).logpdf(0.83), "LogNormalPrior": st.lognorm(0.6, scale=__import__("math").exp(0.1)).logpdf(0.83), "HalfCauchyPrior": st.halfcauchy(scale=1.2).logpdf(0.83),
           "UniformPrior": st.uniform(0.3, 2.2).logpdf(0.83)}[case["prior"]]
    ctx.close("prior_closure_sees_constrained", tot, torch.tensor(ref * getattr(mod, pub).numel()), (1e-9, 1e-9), cls="registered:" + case["prior"])
    torch.manual_seed(case["seed"])
    st0 = torch.random.get_rng_state()
    mod.sample_from_prior("vf_prior")
    torch.random.set_rng_state(st0)
    expected = prior.sample()
    back = getattr(mod, pub).detach()
    ctx.close("sample_from_prior_readback", back, expected.expand_as(back), (1e-9, 1e-7), cls="sample:" + case["prior"])
    check_invariant(ctx, module, "sample_from_prior")
    ctx.cell({k: v for k, v in case.items() if k != "seed"})


def _bounds_loaded(case, ctx, g):
    """the bounds of a constraint are part of the state (persistent buffers): after load_state_dict from a module built with
    OTHER bounds, the receiving module's constraint is the saved one in every respect - transform into [lower, upper],
    inverse, the parameter's value, assignments through the setter and their rejection outside the bounds"""
    import torch

    import gpytorch

    C, K = gpytorch.constraints, gpytorch.kernels
    lo1, hi1 = case["saved"]
    lo2, hi2 = case["receiver"]
    mk = {"interval": lambda a, b: C.Interval(a, b), "greater": lambda a, b: C.GreaterThan(a), "less": lambda a, b: C.LessThan(b)}[case["cls"]]
    src = K.RBFKernel(lengthscale_constraint=mk(lo1, hi1))
    dst = K.RBFKernel(lengthscale_constraint=mk(lo2, hi2))
    mid = {"interval": lo1 + 0.37 * (hi1 - lo1), "greater": lo1 + 1.3, "less": hi1 - 1.3}[case["cls"]]
    src.lengthscale = mid
    dst.lengthscale = {"interval": lo2 + 0.6 * (hi2 - lo2), "greater": lo2 + 0.2, "less": hi2 - 0.2}[case["cls"]]
    dst(torch.randn(3, 1)).to_dense()
    dst.load_state_dict(src.state_dict())
    cons = dst.raw_lengthscale_constraint
    ctx.close("bounds_carried_by_state_dict", torch.stack([cons.lower_bound.reshape(()), cons.upper_bound.reshape(())]).nan_to_num(posinf=9e9, neginf=-9e9),
              torch.tensor([lo1 if case["cls"] != "less" else -9e9, hi1 if case["cls"] != "greater" else 9e9], dtype=torch.get_default_dtype()), (1e-12, 0.0), cls="bounds:" + case["cls"])
    ctx.close("setter_roundtrip", dst.lengthscale.detach().reshape(()), torch.tensor(float(mid)), (1e-9, 1e-9), cls="loaded_bounds:value:" + case["cls"])
    raw = torch.linspace(-30, 30, 41)
    tv = cons.transform(raw)
    lo_, hi_ = cons.lower_bound, cons.upper_bound
    ctx.expect("transform_into_bounds", bool(((tv >= lo_ - 1e-12) & (tv <= hi_ + 1e-12)).all()), f"after loading bounds [{lo1}, {hi1}] into a constraint built with [{lo2}, {hi2}]: transform leaves [{float(tv.min()):.4g}, {float(tv.max()):.4g}]", cclass=case["cls"])
    inner = raw[(raw.abs() < 12)]
    ctx.close("inverse_is_inverse", cons.inverse_transform(cons.transform(inner)), inner, (1e-6, 1e-6), cls="loaded_bounds:inverse:" + case["cls"])
    newv = {"interval": lo1 + 0.81 * (hi1 - lo1), "greater": lo1 + 2.9, "less": hi1 - 2.9}[case["cls"]]
    try:
        dst.lengthscale = newv
        ctx.close("setter_roundtrip", dst.lengthscale.detach().reshape(()), torch.tensor(float(newv)), (1e-9, 1e-9), cls="loaded_bounds:setter:" + case["cls"])
    except Exception as e:
        ctx.fail("setter_roundtrip", f"in-bounds assignment {newv} rejected after loading bounds [{lo1}, {hi1}]: {type(e).__name__}: {str(e)[:100]}", "raise", cclass=case["cls"])
    check_invariant(ctx, dst, "load_state_dict with other bounds")
    # default constraints are per object: loading other bounds into ONE default-constructed likelihood (or editing its bound
    # buffer) leaves a sibling's - and a likelihood constructed afterwards - at the documented default
    L = gpytorch.likelihoods
    for mk_l in (lambda: L.GaussianLikelihood(), lambda: L.MultitaskGaussianLikelihood(num_tasks=2), lambda: K.ScaleKernel(K.RBFKernel())):
        a_, b_ = mk_l(), mk_l()
        donor = L.GaussianLikelihood(noise_constraint=C.GreaterThan(0.3)) if isinstance(a_, L.GaussianLikelihood) else None
        cons_a = [c_ for _, c_ in a_.named_constraints()]
        cons_b = [c_ for _, c_ in b_.named_constraints()]
        ctx.expect("default_constraints_are_per_object", all(x is not y for x, y in zip(cons_a, cons_b)), f"two default-constructed {type(a_).__name__} objects share a constraint object")
        before = [(c_.lower_bound.clone(), c_.upper_bound.clone()) for c_ in cons_b]
        if donor is not None:
            a_.load_state_dict(donor.state_dict())
        for c_ in cons_a:
            with torch.no_grad():
                c_.lower_bound.fill_(0.77) if torch.isfinite(c_.lower_bound).all() else None
        c_new = [c_ for _, c_ in mk_l().named_constraints()]
        same = all(torch.equal(c_.lower_bound, lo_) and torch.equal(c_.upper_bound, hi_) for c_, (lo_, hi_) in zip(cons_b, before))
        same_new = all(torch.equal(c_.lower_bound, lo_) and torch.equal(c_.upper_bound, hi_) for c_, (lo_, hi_) in zip(c_new, before))
        ctx.expect("default_constraints_are_per_object", same and same_new, f"changing the bounds of one {type(a_).__name__}'s default constraint changed a sibling's / a later object's", cclass=type(a_).__name__)
    # prior parameters are state too: a prior's density after load_state_dict is that of the LOADED parameters
    import scipy.stats as st

    P = gpytorch.priors
    for name_, mkp, dens in (("LogNormalPrior", lambda a, b: P.LogNormalPrior(a, b), lambda a, b: st.lognorm(b, scale=float(torch.tensor(a).exp()))),
                             ("GammaPrior", lambda a, b: P.GammaPrior(a + 1.5, b), lambda a, b: st.gamma(a + 1.5, scale=1 / b)),
                             ("NormalPrior", lambda a, b: P.NormalPrior(a, b), lambda a, b: st.norm(a, b)),
                             ("HalfCauchyPrior", lambda a, b: P.HalfCauchyPrior(b), lambda a, b: st.halfcauchy(scale=b))):
        ks = K.RBFKernel(lengthscale_prior=mkp(0.3, 0.8))
        kd = K.RBFKernel(lengthscale_prior=mkp(-0.4, 2.1))
        kd.load_state_dict(ks.state_dict())
        xv = torch.tensor([0.6, 1.7])
        ctx.close("prior_log_prob", kd.lengthscale_prior.log_prob(xv), torch.tensor(dens(0.3, 0.8).logpdf(xv.numpy())), (1e-9, 1e-9), cls="prior_params_loaded:" + name_)
    ctx.cell({k: v for k, v in case.items() if k != "seed"})


def _shared_prior(case, ctx, g):
    """ONE prior object registered for several parameters (two parameters of one kernel, a kernel and its ScaleKernel; by
    closure or by parameter name): every registration is enumerated, evaluated at ITS parameter, and its setting closure
    stores into ITS parameter"""
    import scipy.stats as st
    import torch

    import gpytorch

    K, P = gpytorch.kernels, gpytorch.priors
    per = K.PeriodicKernel()
    sk = K.ScaleKernel(per)
    # (registration by name puts the prior on the RAW parameter, which may be negative: a Normal prior there)
    one = P.GammaPrior(2.0, 1.5) if case["by"] == "closure" else P.NormalPrior(0.3, 1.2)
    dens = st.gamma(2.0, scale=1 / 1.5) if case["by"] == "closure" else st.norm(0.3, 1.2)
    if case["by"] == "closure":
        per.register_prior("vf_ls", one, lambda m: m.lengthscale, lambda m, v: m._set_lengthscale(v))
        per.register_prior("vf_pl", one, lambda m: m.period_length, lambda m, v: m._set_period_length(v))
        sk.register_prior("vf_os", one, lambda m: m.outputscale, lambda m, v: m._set_outputscale(v))
    else:
        per.register_prior("vf_ls", one, "raw_lengthscale")
        per.register_prior("vf_pl", one, "raw_period_length")
        sk.register_prior("vf_os", one, "raw_outputscale")
    vals = {"vf_ls": 0.5, "vf_pl": 0.9, "vf_os": 1.7}
    per.lengthscale, per.period_length, sk.outputscale = vals["vf_ls"], vals["vf_pl"], vals["vf_os"]
    reads = {"vf_ls": lambda: per.lengthscale if case["by"] == "closure" else per.raw_lengthscale, "vf_pl": lambda: per.period_length if case["by"] == "closure" else per.raw_period_length,
             "vf_os": lambda: sk.outputscale if case["by"] == "closure" else sk.raw_outputscale}
    got = {}
    for name, mod, prior, closure, setting in sk.named_priors():
        got[name.split(".")[-1]] = (mod, prior, closure, setting)
    ctx.expect("shared_prior_registrations_enumerated", sorted(got) == sorted(vals), f"named_priors() yields {sorted(got)} for registrations {sorted(vals)} of one prior object", by=case["by"])
    for nm, (mod, prior, closure, setting) in got.items():
        with torch.no_grad():
            lp = prior.log_prob(closure(mod)).sum()
            at = float(reads[nm]().reshape(-1)[0])
        ctx.close("prior_closure_sees_constrained", lp, torch.tensor(dens.logpdf(at)), (1e-9, 1e-9), cls="shared:" + case["by"] + ":" + nm)
        if setting is not None and case["by"] == "closure":
            new = torch.tensor(vals[nm] * 1.31 + 0.07)
            before = {k_: reads[k_]().detach().clone() for k_ in reads}
            setting(mod, new)
            back = reads[nm]().detach()
            ctx.close("sample_from_prior_readback", back, new.expand_as(back), (1e-9, 1e-7), cls="shared:setting:" + nm)
            for k_ in reads:
                if k_ != nm:
                    ctx.expect("shared_prior_setting_touches_only_its_parameter", bool(torch.equal(reads[k_]().detach(), before[k_])), f"setting closure of {nm} changed {k_}", by=case["by"])
    ctx.cell({k: v for k, v in case.items() if k != "seed"})


def _prior(case, ctx, g):
    import math

    import mpmath as mp
    import scipy.stats as st
    import torch

    import gpytorch
    from vf import util

    P = gpytorch.priors
    name, var = case["prior"], case["variant"]
    cls = "prior:" + name

    def cmp(prior, xs, ref, tol=(1e-9, 1e-9)):
        with torch.no_grad():
            got = prior.log_prob(xs)
        ctx.close("prior_log_prob", got, torch.as_tensor(ref, dtype=torch.double), tol, cls=cls)

    def norm_check(prior, lo, hi, pts=None):
        f = lambda t: mp.exp(float(prior.log_prob(torch.tensor(float(t)))))
        val = mp.quad(f, pts or [lo, hi])
        ctx.expect("prior_normalised", abs(float(val) - 1) < 1e-6, f"{name}: density integrates to {float(val):.8f}", prior=name)

    if name == "NormalPrior":
        mu, sd = (0.3, 1.7) if var == 0 else (-2.0, 0.05)
        pr = P.NormalPrior(mu, sd)
        xs = torch.cat([torch.linspace(mu - 8 * sd, mu + 8 * sd, 190), torch.tensor([mu + 30 * sd, mu - 30 * sd] * 5)])
        cmp(pr, xs, st.norm(mu, sd).logpdf(xs.numpy()))
        norm_check(pr, mu - 12 * sd, mu + 12 * sd, [mu - 12 * sd, mu, mu + 12 * sd])
    elif name == "LogNormalPrior":
        mu, sd = (0.1, 0.8) if var == 0 else (1.5, 0.3)
        pr = P.LogNormalPrior(mu, sd)
        xs = torch.exp(torch.linspace(mu - 7 * sd, mu + 7 * sd, 200))
        cmp(pr, xs, st.lognorm(sd, scale=math.exp(mu)).logpdf(xs.numpy()))
        norm_check(pr, 0, math.exp(mu + 12 * sd), [1e-12, math.exp(mu), math.exp(mu + 12 * sd)])
    elif name == "GammaPrior":
        a, b = (2.0, 1.5) if var == 0 else (0.7, 0.2)
        pr = P.GammaPrior(a, b)
        xs = 10 ** torch.linspace(-6, 2.5, 200)
        cmp(pr, xs, st.gamma(a, scale=1 / b).logpdf(xs.numpy()))
        norm_check(pr, 0, 400 / b, [1e-14, 1e-6, a / b + 1e-9, 400 / b])
    elif name == "HalfNormalPrior":
        s = 1.3 if var == 0 else 0.02
        pr = P.HalfNormalPrior(s)
        xs = torch.linspace(1e-9, 9 * s, 200)
        cmp(pr, xs, st.halfnorm(scale=s).logpdf(xs.numpy()))
        norm_check(pr, 0, 14 * s, [1e-12, s, 14 * s])
    elif name == "HalfCauchyPrior":
        s = 1.3 if var == 0 else 0.05
        pr = P.HalfCauchyPrior(s)
        xs = 10 ** torch.linspace(-6, 6, 200)
        cmp(pr, xs, st.halfcauchy(scale=s).logpdf(xs.numpy()))
        val = mp.quad(lambda t: mp.exp(float(pr.log_prob(torch.tensor(float(t))))), [1e-12, s, 1e3 * s, 1e8 * s])
        ctx.expect("prior_normalised", abs(float(val) - (1 - 2 / math.pi * math.atan(1e-8))) < 1e-5, f"HalfCauchy mass on [0,1e8 s] = {float(val):.8f}", prior=name)
    elif name == "UniformPrior":
        a, b = (0.3, 2.5) if var == 0 else (-4.0, -1.0)
        pr = P.UniformPrior(a, b)
        xs = torch.linspace(a + 1e-9, b - 1e-9, 200)
        cmp(pr, xs, st.uniform(a, b - a).logpdf(xs.numpy()))
        norm_check(pr, a + 1e-12, b - 1e-12)
    elif name == "MultivariateNormalPrior":
        d = 3
        A = util.randn(g, d, d)
        C = A @ A.T + 0.5 * torch.eye(d)
        mu = util.randn(g, d)
        pr = P.MultivariateNormalPrior(mu, covariance_matrix=C)
        xs = mu + util.randn(g, 200, d) * 2
        cmp(pr, xs, st.multivariate_normal(mu.numpy(), C.numpy()).logpdf(xs.numpy()))
        ctx.hit("prior_normalised", 0)
    elif name == "SmoothedBoxPrior":
        a, b, s = (0.5, 2.0, 0.05) if var == 0 else (-1.0, 1.0, 0.3)
        pr = P.SmoothedBoxPrior(a, b, sigma=s)
        # documented shape: flat on the box, Gaussian tails of scale sigma in the distance to the box; and a pdf: integrates to 1
        xs = torch.linspace(a - 6 * s, b + 6 * s, 200)
        with torch.no_grad():
            got = pr.log_prob(xs.unsqueeze(-1))
        dist = ((xs - (a + b) / 2).abs() - (b - a) / 2).clamp_min(0)
        shape_ref = -0.5 * (dist / s) ** 2
        ctx.close("prior_log_prob", got - got[100], shape_ref - shape_ref[100], (1e-9, 1e-9), cls=cls)
        val = mp.quad(lambda t: mp.exp(float(pr.log_prob(torch.tensor([float(t)])))), [a - 12 * s, a, b, b + 12 * s])
        ctx.expect("prior_normalised", abs(float(val) - 1) < 1e-6, f"SmoothedBox integrates to {float(val):.8f}", prior=name)
        # a value with d > 1 coordinates under scalar bounds (ARD lengthscales): the product density, i.e. the sum of the
        # normalised one-dimensional log densities
        for dd in (2, 3, 5):
            X = a - 2 * s + (b - a + 4 * s) * util.rand(g, 7, dd)
            with torch.no_grad():
                joint = pr.log_prob(X)
                single = torch.stack([pr.log_prob(X[:, j : j + 1]) for j in range(dd)], -1).sum(-1)
            ctx.close("prior_log_prob", joint, single, (1e-9, 1e-9), cls=cls + ":vector")
    elif name == "HorseshoePrior":
        s = 1.0 if var == 0 else 0.1
        pr = P.HorseshoePrior(s)
        xs = torch.cat([-(10 ** torch.linspace(-4, 3, 100)), 10 ** torch.linspace(-4, 3, 100)])
        Kc = 1 / math.sqrt(2 * math.pi**3)
        A = (s / xs) ** 2
        ref = torch.log((Kc / 2 * torch.log(1 + 4 * A) + Kc * torch.log(1 + 2 * A)) / 2)
        cmp(pr, xs, ref)
        ctx.hit("prior_normalised", 0)
    elif name == "LKJCovariancePrior":
        # documented composition: LKJ density of the correlation matrix D^-1 Sigma D^-1 (D = diag of standard deviations)
        # plus the sd prior's density of the standard deviations; the LKJ factor itself is decided by the LKJPrior cell
        n, eta = (3, 1.5) if var == 0 else (4, 0.7)
        a_, b_ = 2.0, 1.5
        sdp = P.GammaPrior(a_, b_)
        pr = P.LKJCovariancePrior(n, eta, sdp)
        lkj = P.LKJPrior(n, eta)
        got, ref = [], []
        worst_cond = 1.0
        for _ in range(30):
            A = util.randn(g, n, n)
            S = A @ A.T + 0.3 * torch.eye(n)
            S = S * (0.2 + 3 * util.rand(g, n)).unsqueeze(-1) * (0.2 + 3 * util.rand(g, n)).unsqueeze(-2)
            S = 0.5 * (S + S.T)
            S = S @ S.T / n  # symmetric positive definite with clearly unequal variances
            sd = [math.sqrt(float(S[i, i])) for i in range(n)]
            R = torch.tensor([[float(S[i, j]) / (sd[i] * sd[j]) for j in range(n)] for i in range(n)])
            R = 0.5 * (R + R.T)
            worst_cond = max(worst_cond, float(torch.linalg.cond(R)))
            with torch.no_grad():
                # with a scalar-event sd prior the library returns one entry per standard deviation: LKJ term + that sd's term
                try:
                    got.append(pr.log_prob(S).reshape(-1))
                except Exception as e:
                    ctx.fail("prior_log_prob", f"LKJCovariancePrior.log_prob of a valid covariance matrix raised {type(e).__name__}: {str(e)[:100]}", "raise", prior=name)
                    return ctx.cell({k: v for k, v in case.items() if k != "seed"})
                ref.append(float(lkj.log_prob(R).reshape(-1).sum()) + torch.as_tensor(st.gamma(a_, scale=1 / b_).logpdf(sd)))
        # (the log-determinant of a nearly singular correlation matrix loses cond * eps digits on both sides: thorough seed 1)
        ctx.close("prior_log_prob", torch.stack(got), torch.stack(ref), (max(1e-8, min(1e-12 * worst_cond, 1e-4)), 1e-8), cls=cls)
        ctx.hit("prior_normalised", 0)
    elif name in ("LKJPrior", "LKJCholeskyFactorPrior"):
        n, eta = (3, 1.5) if var == 0 else (4, 0.7)
        pr = getattr(P, name)(n, eta)
        mats, refs = [], []
        # normalising constant of the LKJ density over correlation matrices (Lewandowski et al. 2009, eq. 16)
        logC = 0.0
        for k in range(1, n):
            bk = eta + (n - 1 - k) / 2.0
            logC += (n - k) * (2 * math.lgamma(bk) - math.lgamma(2 * bk)) + (2 * eta - 2 + n - k) * (n - k) * math.log(2)
        for _ in range(40):
            A = util.randn(g, n, n)
            S = A @ A.T + 0.3 * torch.eye(n)
            dg = torch.diagonal(S).sqrt()
            R = S / dg.unsqueeze(-1) / dg.unsqueeze(-2)
            mats.append(R if name == "LKJPrior" else torch.linalg.cholesky(R))
            refs.append((eta - 1) * float(torch.logdet(R)) - logC)
        with torch.no_grad():
            got = torch.stack([pr.log_prob(m_) for m_ in mats]).reshape(-1)
        ref = torch.tensor(refs)
        # documented forms (up to the constant): LKJPrior: pdf(Sigma) ~ |Sigma|^(eta-1);  LKJCholeskyFactorPrior: the density of
        # the Cholesky factor L of Sigma, i.e. the same times the Jacobian prod_{i>=2} L_ii^(n-i)
        jac = torch.stack([sum((n - i) * torch.log((m_ if name != "LKJPrior" else torch.linalg.cholesky(m_))[i - 1, i - 1]) for i in range(2, n + 1)) for m_ in mats])
        if name == "LKJCholeskyFactorPrior":
            ctx.close("prior_log_prob", got - got[0], (ref + jac) - (ref + jac)[0], (1e-8, 1e-8), cls=cls)
        else:
            ok_doc = bool(torch.allclose(got - got[0], ref - ref[0], atol=1e-8))
            ok_ship = bool(torch.allclose(got - got[0], (ref + jac) - (ref + jac)[0], atol=1e-8))
            ctx.hit("prior_log_prob")
            if not ok_doc:
                ctx.fail("prior_log_prob", "LKJPrior.log_prob(R) is not (eta-1) log|R| + const", "doc-vs-code", shipped_formula=ok_ship, prior=name)
        if name == "LKJPrior":
            # ... and the constant where it can be integrated directly: n = 2, R = [[1, r], [r, 1]], r in (-1, 1)
            p2 = P.LKJPrior(2, eta)
            val = mp.quad(lambda r_: mp.exp(float(p2.log_prob(torch.tensor([[1.0, float(r_)], [float(r_), 1.0]])))), [-1, 0, 1])
            ctx.expect("prior_normalised", abs(float(val) - 1) < 1e-6, f"LKJPrior(n=2, eta={eta}) integrates to {float(val):.8f} over r", prior=name)
            return ctx.cell({k: v for k, v in case.items() if k != "seed"})
        ctx.hit("prior_normalised", 0)
    ctx.cell({k: v for k, v in case.items() if k != "seed"})


def _lkj_doc(case, fl):
    """LKJPrior.log_prob(R) returns the density of the Cholesky factor of R ((eta-1) log|R| + sum_i (n-i) log L_ii + const)
    where its docstring states pdf(Sigma) ~ |Sigma|^(eta-1): equals exactly the shipped Cholesky-factor form"""
    return fl.get("mechanism") == "doc-vs-code" and fl.get("prior") == "LKJPrior" and fl.get("shipped_formula") is True


MATCHERS = {"C17-lkj-prior-is-cholesky-factor-density": _lkj_doc}
