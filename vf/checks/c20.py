"""C20 - global settings are scoped.  History + executable sequential model (a stack per field).

Monitors are attached to the real __enter__/__exit__ of every settings class exported by
gpytorch.settings / gpytorch.beta_features; after every enter and every exit event the publicly visible
value of EVERY field of EVERY setting (on()/value()/value(dtype)/num_probe_vectors()) is compared with
the model, and with the documented defaults at program end.
"""
import ast
import itertools
import random
import re

PROPERTY = "C20"
RULE = (
    'case = one well-nested program of with-blocks (tree of (class, argument choice, body, raise position)); argument choices incl. hostile ones '
    "(0, negative) and values far apart on both sides of the other settings' defaults; enumerated: every class x every argument choice alone "
    '(normal exit and exception), all same-class nestings to depth 3, all ordered pairs of classes (depth 2, 2 argument choices each, exception '
    'positions), random programs to depth 6/length 12; distinct = distinct (nesting signature of classes+argument kinds, exception position); '
    'non-trivial iff at least one publicly visible field changed inside the program (so a restore is observable)'
    "; pass 5: library operations (exact / heteroskedastic / variational+fantasy / CIQ / cylindrical / lazy-kernel) built before, inside, or used after a user's block for every settings class"
    '; pass 6: per-dtype settings given exactly 0'
    "; pass 8: worker threads (started inside the block, and pooled threads started before it) read the block's values, and the defaults afterwards"
    "; pass 9: library operations that raise half-way and are caught by the caller; every setting constructed / entered with warnings turned into errors (alone and nested in a block of the same setting)"
)
REQUIRED = ["other_threads_see_the_same_values", "library_call_keeps_block_values", "enter_matches_model", "exit_matches_model", "end_equals_defaults", "inner_value_visible", "reentered_object_end_equals_defaults", "reentered_object_inner_value_visible"]
ASSUMPTIONS = [
    "blocks are written `with cls(args):` (object constructed at entry); for ONE pre-constructed object entered while already active, the value visible inside the innermost entry and the defaults after the outermost exit are verdicts, the value visible between an inner exit and the outer exit is not (the object saves a single previous value)",
    "visible state = on()/value()/value(dtype)/num_probe_vectors() of every exported class, sampled after every enter/exit event",
]
ANCHOR_FILES = ["gpytorch/settings.py", "gpytorch/beta_features.py"]

_S = {}


class Boom(Exception):
    pass


def _classes():
    import gpytorch.beta_features as BF
    from gpytorch import settings as S

    out = []
    for n in S.__all__:
        out.append((n, getattr(S, n)))
    for n in BF.__all__:
        out.append(("beta." + n, getattr(BF, n)))
    return out


def _kind(name, c):
    import linear_operator.settings as LS

    if name == "fast_computations":
        return "fc"
    if name == "linalg_dtypes":
        return "ld"
    if name == "fast_pred_var":
        return "fpv"
    if hasattr(c, "_global_float_value"):
        return "dtype"
    if hasattr(c, "_state") and hasattr(c, "on"):
        return "flag"
    if hasattr(c, "_global_value"):
        return "value"
    raise RuntimeError(f"unclassified settings class {name}")


def snapshot():
    """publicly visible value of every field of every setting"""
    import torch

    snap = {}
    for name, c in _S["classes"]:
        k = _S["kinds"][name]
        if k == "flag":
            snap[name + ".on"] = bool(c.on())
            assert c.off() == (not c.on())
        elif k == "fpv":
            snap[name + ".on"] = bool(c.on())
            snap[name + ".num_probe_vectors"] = c.num_probe_vectors()
        elif k == "value":
            snap[name + ".value"] = c.value()
        elif k == "dtype":
            snap[name + ".float"] = c.value(torch.float)
            snap[name + ".double"] = c.value(torch.double)
            snap[name + ".half"] = c.value(torch.half)
        elif k == "fc":
            snap[name + ".covar_root_decomposition"] = bool(c.covar_root_decomposition.on())
            snap[name + ".log_prob"] = bool(c.log_prob.on())
            snap[name + ".solves"] = bool(c.solves.on())
        elif k == "ld":
            pass  # visible through _linalg_dtype_symeig/_linalg_dtype_cholesky which are exported themselves
    return snap


# which visible fields a block of class `name` with kwargs writes (the sequential model's push)
def model_writes(name, kw):
    k = _S["kinds"][name]
    if k == "flag":
        return {name + ".on": bool(kw.get("state", True))}
    if k == "fpv":
        return {name + ".on": bool(kw.get("state", True)), name + ".num_probe_vectors": kw.get("num_probe_vectors", 1)}
    if k == "value":
        return {name + ".value": kw["value"]}
    if k == "dtype":
        return {name + "." + f[: -len("_value")]: v for f, v in kw.items() if v is not None}
    if k == "fc":
        w = {}
        for f in ("covar_root_decomposition", "log_prob", "solves"):
            w[name + "." + f] = bool(kw.get(f, True))
            w["fast_computations." + f] = bool(kw.get(f, True))
        return w
    if k == "ld":
        import torch

        d = kw.get("default", torch.double)
        return {
            "_linalg_dtype_symeig.value": kw.get("symeig") or d,
            "_linalg_dtype_cholesky.value": kw.get("cholesky") or d,
        }


def _raw_state():
    st = []
    seen = set()
    for name, c in _S["classes"]:
        for klass in [c] + [getattr(c, a) for a in ("covar_root_decomposition", "log_prob", "solves") if hasattr(c, a)]:
            if not isinstance(klass, type) or klass in seen:
                continue
            seen.add(klass)
            for attr in ("_state", "_global_value", "_global_float_value", "_global_double_value", "_global_half_value", "_num_probe_vectors"):
                if hasattr(klass, attr):
                    st.append((klass, attr, getattr(klass, attr), attr in klass.__dict__))
    return st


def _reset():
    """back to the pristine class state of a fresh interpreter: own attributes get their initial values, attributes a class
    only INHERITED at import time are removed again if a block created them (so that couplings through inheritance stay
    visible in every case, not only in the first one of a process)"""
    for klass, attr, v, own in _S["raw0"]:
        if own:
            setattr(klass, attr, v)
        elif attr in klass.__dict__:
            delattr(klass, attr)


def _arg_choices(name, c):
    import torch

    k = _S["kinds"][name]
    if k == "flag":
        return [{"state": True}, {"state": False}, {}]
    if k == "fpv":
        # the last two are hostile: whether they are accepted or refused at entry, nothing may leak out of the block
        return [{"state": True, "num_probe_vectors": 5}, {"state": False, "num_probe_vectors": 3}, {"state": True}, {}, {"state": True, "num_probe_vectors": 0}, {"state": True, "num_probe_vectors": -2}]
    if k == "value":
        d = c.value()
        if name == "observation_nan_policy":
            vals = ["mask", "fill", "ignore"]
        elif isinstance(d, torch.dtype):
            vals = [torch.float, torch.double]
        elif isinstance(d, bool):
            vals = [True, False]
        elif isinstance(d, int):
            vals = [d + 7, max(d - 1, 1), d, 100 * d + 3, 0, -1]
        else:
            # far apart on both sides of every other float setting's default (coupled settings would show)
            vals = [d * 1e-4, d * 4.0, d * 0.5, d * 1e4, d, 0.0, -1.0]
        return [{"value": v} for v in vals]
    if k == "dtype":
        return [
            {"float_value": 0.5},
            {"double_value": 0.25},
            {"half_value": 0.125},
            {"float_value": 0.3, "double_value": 0.2},
            {"double_value": 0.15, "half_value": 0.05},
            {"float_value": 0.03, "double_value": 0.02, "half_value": 0.01},
            # exactly zero is a value like any other (no jitter, no floor)
            {"double_value": 0.0},
            {"float_value": 0.0, "double_value": 0.1},
            {"half_value": 0.0, "float_value": 0.0},
        ]
    if k == "fc":
        out = []
        for a, b, cc in itertools.product([True, False], repeat=3):
            out.append({"covar_root_decomposition": a, "log_prob": b, "solves": cc})
        out += [{"log_prob": False}, {"solves": False}, {"covar_root_decomposition": False}]
        return out
    if k == "ld":
        return [{"default": torch.float}, {"symeig": torch.float}, {"cholesky": torch.float}, {"default": torch.float, "symeig": torch.double}]


def _enc(kw):
    import torch

    return {k: (str(v) if isinstance(v, torch.dtype) else v) for k, v in kw.items()}


def _dec(kw):
    import torch

    return {k: (getattr(torch, v.split(".")[1]) if isinstance(v, str) and v.startswith("torch.") else v) for k, v in kw.items()}


def _init():
    if _S:
        return
    import gpytorch  # noqa

    _S["classes"] = _classes()
    _S["bycls"] = dict(_S["classes"])
    _S["kinds"] = {n: _kind(n, c) for n, c in _S["classes"]}
    _S["raw0"] = _raw_state()
    _S["defaults"] = snapshot()
    _S["choices"] = {n: [_enc(k) for k in _arg_choices(n, c)] for n, c in _S["classes"]}


# ---- program generation (descriptors only; JSON) ------------------------------------------------
LIB_OPS = ["exact_predict", "hetero_predict", "svgp_predict_fantasy", "ciq_predict", "cylindrical_kernel", "lazy_kernel_ops", "keops_kernel", "exact_predict_raises", "svgp_predict_raises"]


def _lib_build(op):
    """returns a zero-argument callable performing a library operation that enters settings blocks internally"""
    import torch

    import gpytorch

    g = torch.Generator().manual_seed(5)
    K, L = gpytorch.kernels, gpytorch.likelihoods
    X = torch.randn(6, 2, generator=g, dtype=torch.double)
    y = torch.randn(6, generator=g, dtype=torch.double)
    xs = torch.randn(3, 2, generator=g, dtype=torch.double)

    class GP(gpytorch.models.ExactGP):
        def __init__(s, X_, y_, lik, kern):
            super().__init__(X_, y_, lik)
            s.mean_module, s.covar_module = gpytorch.means.ConstantMean(), kern

        def forward(s, x):
            return gpytorch.distributions.MultivariateNormal(s.mean_module(x), s.covar_module(x))

    if op == "exact_predict":
        m = GP(X, y, L.GaussianLikelihood(), K.ScaleKernel(K.RBFKernel())).double().eval()
        return lambda: m.likelihood(m(xs)).variance
    if op in ("exact_predict_raises", "svgp_predict_raises"):
        # library operations that RAISE half-way (non-finite training inputs / a kernel that throws) and whose error the caller
        # catches: blocks the library entered on the way are unwound like any other
        class Boomed(Exception):
            pass

        class BoomKernel(K.RBFKernel):
            def forward(s, x1, x2, diag=False, **params):
                if x1.shape[-2] != x2.shape[-2] or not torch.equal(x1, x2):
                    raise Boomed("kernel refuses cross-covariances")
                return super().forward(x1, x2, diag=diag, **params)

        if op == "exact_predict_raises":
            Xn = X.clone()
            Xn[2, 0] = float("nan")
            m1 = GP(Xn, y, L.GaussianLikelihood(), K.ScaleKernel(K.RBFKernel())).double().eval()
            m2 = GP(X, y, L.GaussianLikelihood(), K.ScaleKernel(BoomKernel())).double().eval()

            def run_r():
                raised = 0
                for mm in (m1, m2):
                    try:
                        mm(xs).variance
                    except Exception:
                        raised += 1
                return raised

            return run_r
        V = gpytorch.variational

        class VGb(gpytorch.models.ApproximateGP):
            def __init__(s):
                super().__init__(V.VariationalStrategy(s, X[:3].clone(), V.CholeskyVariationalDistribution(3), learn_inducing_locations=True))
                s.mean_module, s.covar_module = gpytorch.means.ConstantMean(), K.ScaleKernel(K.RBFKernel())

            def forward(s, x):
                if x.shape[-2] > 3:
                    raise Boomed("prior refuses")
                return gpytorch.distributions.MultivariateNormal(s.mean_module(x), s.covar_module(x))

        mv = VGb().double().eval()

        def run_v():
            try:
                mv(xs).variance
            except Exception:
                return 1
            return 0

        return run_v
    if op == "hetero_predict":
        noise_model = GP(X, y.abs().log(), L.GaussianLikelihood(), K.RBFKernel()).double()
        lik = L.gaussian_likelihood._GaussianLikelihoodBase(gpytorch.likelihoods.noise_models.HeteroskedasticNoise(noise_model))
        m = GP(X, y, lik, K.ScaleKernel(K.MaternKernel())).double().eval()
        return lambda: m.likelihood(m(xs), xs).variance
    if op in ("svgp_predict_fantasy", "ciq_predict"):
        V = gpytorch.variational
        Z = X[:3].clone()

        class VG(gpytorch.models.ApproximateGP):
            def __init__(s):
                if op == "ciq_predict":
                    vs = V.CiqVariationalStrategy(s, Z, V.NaturalVariationalDistribution(3), learn_inducing_locations=True)
                else:
                    vs = V.VariationalStrategy(s, Z, V.CholeskyVariationalDistribution(3), learn_inducing_locations=True)
                super().__init__(vs)
                s.mean_module, s.covar_module = gpytorch.means.ConstantMean(), K.ScaleKernel(K.RBFKernel())

            def forward(s, x):
                return gpytorch.distributions.MultivariateNormal(s.mean_module(x), s.covar_module(x))

        m = VG().double().eval()
        m.likelihood = L.GaussianLikelihood().double()

        def run():
            out = m(xs).variance
            if op == "svgp_predict_fantasy":
                m.get_fantasy_model(xs[:2], y[:2])
            return out

        return run
    if op == "cylindrical_kernel":
        k = K.CylindricalKernel(3, K.MaternKernel()).double()
        xb = X / X.norm(dim=-1, keepdim=True).clamp_min(1e-3) * 0.5
        return lambda: (k(xb).to_dense(), k(xb, diag=True))
    if op == "keops_kernel":
        # a KeOps kernel (without pykeops installed it falls back to the plain kernel, with a warning)
        import warnings

        from gpytorch.kernels import keops

        k = keops.RBFKernel().double()

        def run_k():
            with warnings.catch_warnings():
                warnings.simplefilter("ignore")
                return k(X).to_dense(), k(X, xs).to_dense()

        return run_k
    if op == "lazy_kernel_ops":
        k = K.ScaleKernel(K.RBFKernel()).double()
        return lambda: (k(X)[..., :3, 1:].to_dense(), k(X).diagonal(dim1=-1, dim2=-2), k(X, xs).transpose(-1, -2).to_dense(), k(X) @ y.unsqueeze(-1))
    raise KeyError(op)


def _library_call(case, ctx):
    name = case["cls"]
    c = _S["bycls"][name]
    kw = _dec(_S["choices"][name][case["arg"]])
    try:
        obj = c(kw["value"]) if _S["kinds"][name] == "value" else c(**kw)
    except Exception:
        ctx.reject("settings constructor refused the argument")
        return
    op = None
    raised = None
    if case["when"] == "built_before_used_inside":
        op = _lib_build(case["op"])
    try:
        with obj:
            inside = snapshot()
            try:
                if op is None:
                    op = _lib_build(case["op"])
                if case["when"] != "built_inside_used_after":
                    op()
            except Exception as e:  # whatever the operation does under this setting, the settings stay the block's
                raised = type(e).__name__
            after = snapshot()
            bad = [k for k in after if after[k] != inside[k]]
            ctx.expect("library_call_keeps_block_values", not bad, f"{case['op']} inside `with {name}({_enc(kw)})` changed: " + "; ".join(f"{k}: {inside[k]!r} -> {after[k]!r}" for k in bad[:4]) + (f" (operation raised {raised})" if raised else ""),
                       fields=bad, owners=sorted({_owner(k) for k in bad}), op=case["op"])
    except Exception:
        ctx.reject("settings block refused at entry")
        return
    end = snapshot()
    bad = [k for k in end if end[k] != _S["defaults"][k]]
    ctx.expect("end_equals_defaults", not bad, f"after `with {name}(...)` around {case['op']}: " + "; ".join(f"{k}={end[k]!r} default={_S['defaults'][k]!r}" for k in bad[:4]), fields=bad, owners=sorted({_owner(k) for k in bad}), op=case["op"])
    if case["when"] == "built_inside_used_after" and op is not None:
        try:
            op()
        except Exception as e:
            raised = type(e).__name__
        end = snapshot()
        bad = [k for k in end if end[k] != _S["defaults"][k]]
        ctx.expect("library_call_keeps_block_values", not bad, f"{case['op']} built inside `with {name}({_enc(kw)})` and used after the block changed: " + "; ".join(f"{k}={end[k]!r} default={_S['defaults'][k]!r}" for k in bad[:4]), fields=bad, owners=sorted({_owner(k) for k in bad}), op=case["op"])
    if raised:
        ctx.hit("info:library_operation_raised_under_setting")
    ctx.cell(("library-call", case["op"], name, case["when"]), nontrivial=True)
    _reset()


def N(cls, ai, body=(), boom=None, catch=False):
    """node: with cls(choice ai): body...; boom = index in body before which Boom is raised (len(body) = at end);
    catch=True wraps this block in try/except Boom."""
    return {"cls": cls, "arg": ai, "body": list(body), "boom": boom, "catch": catch}


def cases(tier, seed):
    _init()
    names = [n for n, _ in _S["classes"]]
    ch = _S["choices"]
    # 1. singles, normal + exception
    for n in names:
        for ai in range(len(ch[n])):
            yield {"prog": [N(n, ai)], "gen": "single"}
            yield {"prog": [N(n, ai, boom=0, catch=True)], "gen": "single-exc"}
    # invalid constructor argument inside a block
    yield {"prog": [N("observation_nan_policy", 0, [N("observation_nan_policy", "bogus", catch=True), N("prior_mode", 0)])], "gen": "bad-arg", "hostile": True}
    yield {"prog": [N("fast_pred_var", 0, [N("observation_nan_policy", "bogus")], catch=True)], "gen": "bad-arg", "hostile": True}
    # 2. same-class nestings depth 2 and 3
    for n in names:
        idx = range(len(ch[n]))
        for a, b in itertools.product(idx, repeat=2):
            yield {"prog": [N(n, a, [N(n, b)])], "gen": "same2"}
            yield {"prog": [N(n, a, [N(n, b, boom=0, catch=True), N(n, b)])], "gen": "same2-exc-inner"}
            yield {"prog": [N(n, a, [N(n, b, boom=0)], catch=True)], "gen": "same2-exc-through"}
        trip = list(itertools.product(idx, repeat=3))
        if tier == "quick" and len(trip) > 30:
            trip = random.Random(seed * 7919 + len(n)).sample(trip, 30)
        for a, b, c in trip:
            yield {"prog": [N(n, a, [N(n, b, [N(n, c)]), N(n, c)])], "gen": "same3"}
            yield {"prog": [N(n, a, [N(n, b, [N(n, c, boom=0)], catch=True)])], "gen": "same3-exc"}
    # 3. all ordered pairs of classes
    rnd = random.Random(seed)
    for n1 in names:
        for n2 in names:
            if n1 == n2:
                continue
            k = 2 if tier == "quick" else 4
            for _ in range(k):
                a, b = rnd.randrange(len(ch[n1])), rnd.randrange(len(ch[n2]))
                yield {"prog": [N(n1, a, [N(n2, b)])], "gen": "pair"}
                yield {"prog": [N(n1, a, [N(n2, b, boom=0)], catch=True), N(n2, b)], "gen": "pair-exc"}
    # 4. random programs
    nrand = 1500 if tier == "quick" else 60000

    def rprog(depth, length):
        out = []
        for _ in range(rnd.randint(1, length)):
            n = rnd.choice(names)
            body = rprog(depth - 1, max(1, length - 1)) if depth > 1 and rnd.random() < 0.7 else []
            boom = rnd.randint(0, len(body)) if rnd.random() < 0.25 else None
            catch = boom is not None and rnd.random() < 0.5
            out.append(N(n, rnd.randrange(len(ch[n])), body, boom, catch))
        return out

    for i in range(nrand):
        d = rnd.randint(2, 6)
        yield {"prog": rprog(d, rnd.randint(1, 4)), "gen": "random", "topcatch": True}
    # 4b. a library operation inside the user's block (several library routines enter settings blocks of their own): the block's
    #     values are still in force after the call, and the defaults are back after the block - also for objects constructed
    #     inside a block and used after it
    for op in LIB_OPS:
        for n in names:
            idxs = list(range(len(ch[n])))
            if tier == "quick":
                idxs = idxs[:2] if n not in ("detach_test_caches", "debug", "lazily_evaluate_kernels", "max_preconditioner_size", "cg_tolerance", "eval_cg_tolerance", "num_likelihood_samples") else idxs
                if rnd.random() < 0.5 and len(idxs) == 2:
                    idxs = idxs[:1]
            for ai in idxs:
                for when in ("built_before_used_inside", "inside", "built_inside_used_after"):
                    yield {"gen": "library-call", "op": op, "cls": n, "arg": ai, "prog": [N(n, ai)], "when": when}
    # 4c. the flags and values are GLOBAL (process-wide): code that runs in another thread during the block (data-loader workers,
    #     the autograd engine's threads running custom backward passes) sees the block's values, and the defaults afterwards
    for n in names:
        for ai in range(min(2, len(ch[n]))):
            yield {"gen": "threads", "cls": n, "arg": ai, "prog": [N(n, ai)]}
    # 4d. warnings turned into errors (python -W error, pytest filterwarnings=error): a setting that warns when it is constructed
    #     or entered raises there - nothing it wrote may stay behind, also not inside an enclosing block of the same setting
    for n in names:
        for ai in range(min(2, len(ch[n]))):
            yield {"gen": "warn-error", "cls": n, "arg": ai, "prog": [N(n, ai)]}
    # 5. informational: re-entered, pre-constructed context objects (outside the quantifier)
    for n in names:
        yield {"prog": [N(n, 0)], "gen": "reenter-info"}


# ---- monitors attached to the real functions -------------------------------------------------------
def setup(ctx):
    _init()
    import functools

    _S["ctx"] = ctx
    _S["model"] = None  # set per case
    _S["states"] = set()
    _S["active"] = False
    wrapped = set()

    def wrap(klass, meth):
        f = klass.__dict__.get(meth)
        if f is None or (klass, meth) in wrapped:
            return
        wrapped.add((klass, meth))

        # only the outermost frame of an (overriding -> super().__enter__) chain reports
        @functools.wraps(f)
        def outer(self, *a, **k):
            top = not getattr(self, "_vf_in", False)
            if top:
                self._vf_in = True
            try:
                return f(self, *a, **k)
            finally:
                if top:
                    self._vf_in = False
                    if _S["active"] and id(self) in _S["driver_objs"]:
                        _on_event(meth, self)

        setattr(klass, meth, outer)

    for _, c in _S["classes"]:
        for klass in c.__mro__:
            if klass is object:
                continue
            wrap(klass, "__enter__")
            wrap(klass, "__exit__")
    ctx.notes["monitored_classes"] = len(_S["classes"])
    ctx.notes["wrapped_methods"] = sorted(f"{k.__module__}.{k.__name__}.{m}" for k, m in wrapped)


def _on_event(meth, obj):
    """runs right after the real __enter__/__exit__ of a block object created by the driver"""
    ctx = _S["ctx"]
    model = _S["model"]
    name = _S["driver_objs"][id(obj)]
    if meth == "__enter__":
        frame = model["pending"].pop(id(obj))
        model["stack"].append(frame)
        mon = "enter_matches_model"
    else:
        frame = model["stack"].pop()
        mon = "exit_matches_model"
        if frame["id"] != id(obj):
            ctx.fail(mon, f"exit of {name} does not match the innermost open block {frame['name']}")
    _compare(mon, f"after {meth} of {name}")


def _visible_model():
    vis = dict(_S["defaults"])
    for fr in _S["model"]["stack"]:
        vis.update({k: v for k, v in fr["writes"].items() if k in vis})
    return vis


def _compare(mon, where):
    ctx = _S["ctx"]
    got = snapshot()
    want = _visible_model()
    _S["states"].add(tuple(sorted((k, repr(v)) for k, v in got.items())))
    bad = [k for k in got if got[k] != want[k]]
    if got != _S["defaults"]:
        _S["changed"] = True
    ctx.expect(
        mon,
        not bad,
        f"{where}: " + "; ".join(f"{k} visible={got[k]!r} model={want[k]!r}" for k in bad[:6]),
        fields=bad,
        owners=sorted({_owner(k) for k in bad}),
    )


def _owner(field):
    name = field.rsplit(".", 1)[0]
    c = _S["bycls"].get(name)
    return (getattr(c, "__module__", "?") or "?").split(".")[0]


def _run_nodes(nodes):
    for nd in nodes:
        if nd["catch"]:
            try:
                _run_node(nd)
            except Boom:
                _S["ctx"].hit("exception_caught_at_block")
            except ValueError as e:
                if "not supported" not in str(e):
                    raise
        else:
            _run_node(nd)


def _run_node(nd):
    ctx = _S["ctx"]
    name = nd["cls"]
    c = _S["bycls"][name]
    if nd["arg"] == "bogus":
        before = snapshot()
        try:
            with c("bogus"):
                ctx.fail("bad_argument_rejected", "observation_nan_policy('bogus') was accepted")
        except ValueError:
            ctx.expect("bad_argument_rejected", snapshot() == before, "state changed by a rejected constructor")
            raise
        return
    kw = _dec(_S["choices"][name][nd["arg"]])
    before = snapshot()
    try:
        if _S["kinds"][name] == "value":
            obj = c(kw["value"])
        else:
            obj = c(**kw)
    except Exception as e:
        ctx.expect("refused_block_leaves_state", snapshot() == before, f"{name}({_enc(kw)}) raised {type(e).__name__} in its constructor and changed the visible state")
        return
    _S["driver_objs"][id(obj)] = name
    _S["keep"].append(obj)
    _S["model"]["pending"][id(obj)] = {"id": id(obj), "name": name, "writes": model_writes(name, kw)}
    depth = len(_S["model"]["stack"])
    try:
        obj.__enter__()
    except Exception as e:
        # refused at entry: no block was entered, so nothing may have changed
        _S["model"]["pending"].pop(id(obj), None)
        now = snapshot()
        bad = [k for k in now if now[k] != before[k]]
        ctx.expect("refused_block_leaves_state", not bad, f"{name}({_enc(kw)}) raised {type(e).__name__} in __enter__ but changed " + ", ".join(f"{k}: {before[k]!r} -> {now[k]!r}" for k in bad[:4]), fields=bad)
        if len(_S["model"]["stack"]) != depth:
            _S["model"]["stack"] = _S["model"]["stack"][:depth]
        return
    with _Entered(obj):
        # innermost block wins: what this block wrote is what is visible now
        vis = snapshot()
        w = {k: v for k, v in model_writes(name, kw).items() if k in vis}
        badw = [k for k, v in w.items() if vis[k] != v]
        ctx.expect("inner_value_visible", not badw, f"inside {name}({_enc(kw)}): " + ", ".join(f"{k}={vis[k]!r} expected {w[k]!r}" for k in badw), fields=badw)
        body = nd["body"]
        for i, ch in enumerate(body):
            if nd["boom"] == i:
                raise Boom()
            _run_nodes([ch])
            _compare("body_matches_model", f"inside {name} after child {i}")
        if nd["boom"] is not None and nd["boom"] >= len(body):
            raise Boom()
    if len(_S["model"]["stack"]) != depth:
        ctx.fail("exit_matches_model", f"monitor saw no __exit__ for {name}")


class _Entered:
    """the block body of an already entered context manager: only __exit__ is left to run"""

    def __init__(self, obj):
        self.obj = obj

    def __enter__(self):
        return self.obj

    def __exit__(self, *a):
        return self.obj.__exit__(*a)


def _sig(nodes):
    return [[n["cls"], n["arg"], n["boom"] is not None, n["catch"], _sig(n["body"])] for n in nodes]


def run_case(case, ctx):
    _init()
    _reset()
    _S["model"] = {"stack": [], "pending": {}}
    _S["driver_objs"] = {}
    _S["keep"] = []
    _S["changed"] = False
    ctx.expect("start_equals_defaults", snapshot() == _S["defaults"], "harness reset failed")
    if case["gen"] == "library-call":
        return _library_call(case, ctx)
    if case["gen"] == "warn-error":
        import warnings

        name = case["cls"]
        c = _S["bycls"][name]
        kw = _dec(_S["choices"][name][case["arg"]])
        mk = lambda: c(kw["value"]) if _S["kinds"][name] == "value" else c(**kw)
        raised = False
        with warnings.catch_warnings():
            warnings.simplefilter("error")
            try:
                with mk():
                    pass
            except Warning:
                raised = True
            except ValueError as e:
                if "not supported" not in str(e):
                    raise
        end = snapshot()
        bad = [k for k in end if end[k] != _S["defaults"][k]]
        ctx.expect("end_equals_defaults", not bad, f"{name}({_enc(kw)}) under warnings-as-errors (raised={raised}): " + "; ".join(f"{k}={end[k]!r} default={_S['defaults'][k]!r}" for k in bad[:4]), fields=bad, owners=sorted({_owner(k) for k in bad}))
        # the same inside an enclosing block of the setting (first argument choice): the enclosing block's values survive
        kw0 = _dec(_S["choices"][name][0])
        try:
            outer = c(kw0["value"]) if _S["kinds"][name] == "value" else c(**kw0)
            with warnings.catch_warnings():
                warnings.simplefilter("ignore")
                with outer:
                    before = snapshot()
                    with warnings.catch_warnings():
                        warnings.simplefilter("error")
                        try:
                            with mk():
                                pass
                        except Warning:
                            raised = True
                    after = snapshot()
            bad = [k for k in before if after[k] != before[k]]
            ctx.expect("inner_value_visible", not bad, f"{name}: a nested block that failed under warnings-as-errors changed the enclosing block's values: " + "; ".join(f"{k}={after[k]!r} was {before[k]!r}" for k in bad[:4]), fields=bad, owners=sorted({_owner(k) for k in bad}))
        except ValueError as e:
            if "not supported" not in str(e):
                raise
        end = snapshot()
        bad = [k for k in end if end[k] != _S["defaults"][k]]
        ctx.expect("end_equals_defaults", not bad, f"{name} nested under warnings-as-errors: " + "; ".join(f"{k}={end[k]!r}" for k in bad[:4]), fields=bad, owners=sorted({_owner(k) for k in bad}))
        ctx.hit("info:warning_raised" if raised else "info:no_warning")
        ctx.cell(("warn-error", name, case["arg"]), nontrivial=True)
        _reset()
        return
    if case["gen"] == "threads":
        import threading

        name = case["cls"]
        c = _S["bycls"][name]
        kw = _dec(_S["choices"][name][case["arg"]])
        seen = {}

        def worker(tag):
            seen[tag] = snapshot()

        def in_thread(tag):
            t_ = threading.Thread(target=worker, args=(tag,))
            t_.start()
            t_.join(30)

        try:
            obj = c(kw["value"]) if _S["kinds"][name] == "value" else c(**kw)
            with obj:
                here = snapshot()
                in_thread("inside")
                # a thread that was already running when the block was entered (a pool worker): started before, reads inside
                go, done = threading.Event(), threading.Event()

                def pooled():
                    go.wait(30)
                    seen["pooled_inside"] = snapshot()
                    done.set()

            tp = threading.Thread(target=pooled)
            tp.start()
            with (c(kw["value"]) if _S["kinds"][name] == "value" else c(**kw)):
                here2 = snapshot()
                go.set()
                done.wait(30)
            tp.join(30)
            in_thread("after")
        except ValueError as e:
            if "not supported" not in str(e):
                raise
            ctx.reject("argument not supported")
            return
        for tag, ref in (("inside", here), ("pooled_inside", here2), ("after", _S["defaults"])):
            got = seen.get(tag)
            bad = [k for k in ref if got is None or got.get(k) != ref[k]]
            ctx.expect("other_threads_see_the_same_values", not bad, f"{name}({_enc(kw)}): a worker thread ({tag}) sees " + "; ".join(f"{k}={None if got is None else got.get(k)!r} (this thread: {ref[k]!r})" for k in bad[:4]), fields=bad, owners=sorted({_owner(k) for k in bad}), where=tag)
        end = snapshot()
        bad = [k for k in end if end[k] != _S["defaults"][k]]
        ctx.expect("end_equals_defaults", not bad, "after the threaded program: " + "; ".join(f"{k}={end[k]!r}" for k in bad[:4]), fields=bad, owners=sorted({_owner(k) for k in bad}))
        ctx.cell(("threads", name, case["arg"]), nontrivial=here != _S["defaults"])
        _reset()
        return
    if case["gen"] == "reenter-info":
        name = case["prog"][0]["cls"]
        c = _S["bycls"][name]
        kw = _dec(_S["choices"][name][0])
        obj = c(kw["value"]) if _S["kinds"][name] == "value" else c(**kw)
        for depth in (2, 3):
            # one pre-constructed object entered while it is already active: what is visible INSIDE is informational only
            # (the object saves one previous value), but once every block has exited the defaults must be back
            want = {k: v for k, v in model_writes(name, kw).items()}

            def inner_ok(where):
                vis = snapshot()
                bad = [k for k, v in want.items() if k in vis and vis[k] != v]
                ctx.expect("reentered_object_inner_value_visible", not bad, f"{where} of one {name}({_enc(kw)}) object: " + ", ".join(f"{k}={vis[k]!r} expected {want[k]!r}" for k in bad), fields=bad)

            with obj:
                inner_ok("depth 1")
                with obj:
                    inner_ok("depth 2 (re-entered)")
                    if depth == 3:
                        with obj:
                            inner_ok("depth 3 (re-entered twice)")
            end = snapshot()
            bad = [k for k in end if end[k] != _S["defaults"][k]]
            ctx.expect("reentered_object_end_equals_defaults", not bad, f"after {depth} nested entries of one {name} object: " + "; ".join(f"{k}={end[k]!r} default={_S['defaults'][k]!r}" for k in bad[:4]), fields=bad, owners=sorted({_owner(k) for k in bad}))
            # sequential reuse of the same object
            with obj:
                pass
            with obj:
                pass
            end = snapshot()
            bad = [k for k in end if end[k] != _S["defaults"][k]]
            ctx.expect("reentered_object_end_equals_defaults", not bad, f"after sequential reuse of one {name} object: " + "; ".join(f"{k}={end[k]!r}" for k in bad[:4]), fields=bad, owners=sorted({_owner(k) for k in bad}))
            _reset()
        ctx.cell(("reenter", name), nontrivial=True)
        return
    _S["active"] = True
    try:
        try:
            _run_nodes(case["prog"])
        except Boom:
            ctx.hit("exception_escaped_program")
        except ValueError as e:
            if "not supported" not in str(e):
                raise
    finally:
        _S["active"] = False
    end = snapshot()
    bad = [k for k in end if end[k] != _S["defaults"][k]]
    ctx.expect(
        "end_equals_defaults",
        not bad,
        "after the program: " + "; ".join(f"{k}={end[k]!r} default={_S['defaults'][k]!r}" for k in bad[:6]),
        fields=bad,
        owners=sorted({_owner(k) for k in bad}),
    )
    if _S["model"]["stack"]:
        ctx.fail("exit_matches_model", "blocks left open in the model: " + ",".join(f["name"] for f in _S["model"]["stack"]))
    ctx.cell(_sig(case["prog"]), nontrivial=_S["changed"])
    _reset()


def teardown(ctx):
    # documented defaults (docstring "(Default: X)") of the repository's own classes vs the value visible outside all blocks
    import torch

    _reset()
    n_ok = 0
    for name, c in _S["classes"]:
        if not (getattr(c, "__module__", "") or "").startswith("gpytorch"):
            continue
        doc = c.__doc__ or ""
        k = _S["kinds"][name]
        if k == "dtype":
            for dt, key in ((torch.float, "float"), (torch.double, "double"), (torch.half, "half")):
                m = re.search(r"[Dd]efault for `%s`:\s*([-+0-9.eE]+)" % key, doc)
                if m:
                    ctx.begin({"documented_default": name, "field": key})
                    ctx.expect("documented_default", float(m.group(1)) == c.value(dt), f"{name}[{key}] documented {m.group(1)} visible {c.value(dt)}")
                    ctx.end()
                    n_ok += 1
            continue
        m = re.findall(r"\(?[Dd]efault:\s*([^\n\)]+)\)?", doc)
        if not m:
            continue
        try:
            lit = ast.literal_eval(m[-1].strip().rstrip("."))
        except Exception:
            continue
        vis = c.on() if k in ("flag", "fpv") else c.value()
        ctx.begin({"documented_default": name})
        ctx.expect("documented_default", lit == vis, f"{name} documented default {lit!r} visible {vis!r}")
        ctx.end()
        n_ok += 1
    ctx.notes["documented_defaults_compared"] = n_ok
    ctx.notes["distinct_global_states_observed"] = len(_S["states"])
    # the values outside all blocks do not depend on how the interpreter was started: the same defaults under `python -O`
    # (where __debug__ is False and assert statements are stripped)
    import json as _json
    import os
    import subprocess
    import sys

    if ctx.shard == 0 if hasattr(ctx, "shard") else True:
        code = ("import sys, json, warnings; warnings.simplefilter('ignore'); sys.path.insert(0, %r); sys.path.insert(0, %r); "
                "from vf.checks import c20; c20._init(); print('SNAP' + json.dumps({k: repr(v) for k, v in c20.snapshot().items()}))") % ("/verif", os.environ.get("VERIF_REPO", "/repo"))
        try:
            r = subprocess.run([sys.executable, "-O", "-c", code], capture_output=True, text=True, timeout=300)
            line = [l for l in r.stdout.splitlines() if l.startswith("SNAP")]
            if line:
                other = _json.loads(line[0][4:])
                mine = {k: repr(v) for k, v in _S["defaults"].items()}
                bad = [k for k in mine if other.get(k) != mine[k]]
                ctx.begin({"defaults_under_python_O": True})
                ctx.expect("defaults_independent_of_interpreter_flags", not bad, "defaults differ under `python -O`: " + "; ".join(f"{k}: {mine[k]} vs {other.get(k)}" for k in bad[:4]), fields=bad)
                ctx.end()
            else:
                ctx.notes["python_O_probe"] = "no output: " + (r.stderr or "")[-200:]
        except Exception as e:
            ctx.notes["python_O_probe"] = f"failed: {type(e).__name__}"


# ---- known findings (mechanism keyed) -----------------------------------------------------------------
def _lo_half_none(case, fl):
    """linear_operator.settings.cholesky_jitter has no half default (None); its _dtype_value_context.__exit__ skips
    None originals, so ONLY that field of ONLY that (out-of-repository) class may stay set."""
    return fl.get("fields") == ["cholesky_jitter.half"] and fl.get("owners") == ["linear_operator"]


MATCHERS = {"C20-LO-cholesky-jitter-half": _lo_half_none}
