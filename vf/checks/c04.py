"""C04 - fantasy models equal conditioning from scratch and leave the source untouched.

Monitors: snapshot/ensure contract around the real ExactGP.get_fantasy_model (source state_dict, training data
identity+values, every tensor in the source strategy's memo caches, source prediction on a probe set: all unchanged);
post-condition on the returned model: prediction == dense conditional on the concatenated data (per fantasy batch
element) AND the carried caches themselves (mean_cache, covar_cache, root / root-inverse decompositions stored on the
fantasy strategy) equal the same quantities recomputed densely from the full data.
"""
import itertools
import random

PROPERTY = "C04"
RULE = (
    'case = (model batch in {(),(2)}, fantasy pattern in {(m), (f,m) shared inputs, (f,m) per-fantasy inputs, (f,b,m)}, likelihood in {gauss, '
    'fixed(noise kw), fixed+learn, Kronecker multitask}, model lists with mixed member likelihoods and per-member noise, KISS-GP (interpolated '
    'strategy) fantasies, depth 1..3 (fantasies of fantasies), fast_pred_var, detach_test_caches, NaN-free, seed); distinct = cell without seed; '
    'non-trivial iff the fantasy posterior differs from the source posterior by > 1e-3'
    '; pass 5: sources beyond max_cholesky_size (iterative solves, rank-8 Lanczos roots); sibling fantasies of one source examined after one another (cached, deep copy, recomputed, own fantasy, stored noise)'
    '; pass 6: refused get_fantasy_model calls leave the source untouched; fantasies of two-input exact GPs; rank>0 multitask noise; iterative cells tighten eval_cg_tolerance only'
    "; pass 7: m == stored-size cells, requires_grad / training flags in the source snapshot; the SOURCE trains on after its children exist (children that predicted before and children that had not) - each child stays the exact GP of its own hyper-parameters"
    "; pass 8: KISS-GP (WISKI) fantasy chains under fast_pred_var"
    "; pass 9: float32 fantasy inputs for float64 models; gradient of the fantasy mean w.r.t. the fantasy targets; WISKI sibling fantasies"
)
REQUIRED = ["fantasy_mean", "fantasy_covar", "fantasy_mean_cache", "fantasy_root_decomposition", "fantasy_root_inv_decomposition", "source_untouched", "monitor:get_fantasy_strategy"]
ASSUMPTIONS = ["noise of the concatenated data is assembled from public parameters (sigma^2; stored fixed noise followed by the call-time fantasy noise [+ learned sigma^2])"]
ANCHOR_FILES = ["gpytorch/models/exact_gp.py", "gpytorch/models/exact_prediction_strategies.py", "gpytorch/likelihoods/gaussian_likelihood.py", "gpytorch/models/model_list.py"]

PATTERNS = ["m", "fm_shared", "fm_own", "fbm"]


def cases(tier, seed):
    rnd = random.Random(4000 + seed)
    reps = 1 if tier == "quick" else 30
    for _ in range(reps):
        for mb, pat, lik, depth, fpv, det in itertools.product([[], [2]], PATTERNS, ["gauss", "fixed", "fixed+learn"], [1, 2, 3], [False, True], [True, False]):
            if pat == "fbm" and not mb:
                continue
            if tier == "quick" and rnd.random() < 0.25:
                continue
            yield {"kind": "single", "mbatch": mb, "pattern": pat, "lik": lik, "depth": depth, "fast_pred_var": fpv, "detach": det, "n": rnd.choice([1, 4, 7]), "m": rnd.choice([1, 3]),
                   "seed": rnd.randrange(10**6)}
        # multitask: targets are `m x t`; a leading fantasy batch on the targets alone is ambiguous with the task dimension
        # (the library rejects it with an explicit "Flattening the training labels failed" error) -> plain fantasies only
        for pat, depth, fpv in itertools.product(["m"], [1, 2, 3], [False, True]):
            yield {"kind": "mt", "pattern": pat, "depth": depth, "fast_pred_var": fpv, "detach": True, "n": 4, "m": 2, "t": 2, "seed": rnd.randrange(10**6)}
            yield {"kind": "mt", "pattern": pat, "depth": depth, "fast_pred_var": fpv, "detach": True, "n": 4, "m": 2, "t": rnd.choice([2, 3]), "rank": rnd.choice([1, 2]), "seed": rnd.randrange(10**6)}
        for depth in (1, 2):
            yield {"kind": "modellist", "depth": depth, "seed": rnd.randrange(10**6)}
        for members, fpv in itertools.product((["fixed", "gauss"], ["gauss", "fixed"], ["fixed", "fixed"], ["fixed", "gauss", "fixed"], ["fixed+learn", "gauss"]), [False, True]):
            yield {"kind": "modellist", "depth": rnd.choice([1, 2]), "members": members, "fast_pred_var": fpv, "seed": rnd.randrange(10**6)}
        for mean, depth, dims in itertools.product([0.0, 1.2], [1, 2, 3], [1, 2]):
            yield {"kind": "kiss", "mean": mean, "depth": depth, "dims": dims, "late_eval": depth > 1, "seed": rnd.randrange(10**6)}
            yield {"kind": "kiss", "mean": mean, "depth": depth, "dims": dims, "late_eval": depth > 2, "fast_pred_var": True, "seed": rnd.randrange(10**6)}
        for lik, depth, fpv in itertools.product(["gauss", "fixed"], [1, 2], [False, True]):
            yield {"kind": "single", "mbatch": [], "pattern": "m", "lik": lik, "depth": depth, "fast_pred_var": fpv, "detach": True, "n": 4, "m": 2, "xf_float32": True, "seed": rnd.randrange(10**6)}
        for mb, lik, depth, fpv in itertools.product([[], [2]], ["gauss", "fixed", "fixed+learn"], [2, 3], [False, True]):
            yield {"kind": "single", "mbatch": mb, "pattern": "m", "lik": lik, "depth": depth, "fast_pred_var": fpv, "detach": True, "n": 4, "m": 2, "late_eval": True, "seed": rnd.randrange(10**6)}
        # as many fantasy points as stored (fixed) noise values - in round one, and in round two (m2 == n + m1)
        for lik_, fpv, depth in itertools.product(["fixed", "fixed+learn"], [False, True], [1, 2]):
            yield {"kind": "single", "mbatch": [], "pattern": "m", "lik": lik_, "depth": depth, "fast_pred_var": fpv, "detach": True, "n": 3, "m": 3, "m_equals_stored": True, "seed": rnd.randrange(10**6)}
        # sources beyond the Cholesky size limit: iterative solves, low-rank (8 of 25) Lanczos roots in the caches
        for mb, lik, depth, fpv in itertools.product([[], [2]], ["gauss", "fixed"], [1, 2], [False]):
            yield {"kind": "single", "mbatch": mb, "pattern": "m", "lik": lik, "depth": depth, "fast_pred_var": fpv, "detach": True, "n": 25, "m": 2, "iterative": True, "seed": rnd.randrange(10**6)}
        for lik, fpv in itertools.product(["gauss", "fixed", "fixed+learn"], [False, True]):
            yield {"kind": "as_function", "lik": lik, "fast_pred_var": fpv, "seed": rnd.randrange(10**6)}
        for depth, fpv in itertools.product([1, 2], [False, True]):
            yield {"kind": "two_inputs", "depth": depth, "fast_pred_var": fpv, "seed": rnd.randrange(10**6)}
        for how in ("fixed_noise_missing", "sgpr", "kiss_grad_caches", "bad_target_shape"):
            yield {"kind": "failed_fantasy", "how": how, "seed": rnd.randrange(10**6), "hostile": True}
        for pol, fpv in itertools.product(["mask", "fill"], [False, True]):
            yield {"kind": "nan_source", "policy": pol, "fast_pred_var": fpv, "n": 6, "m": 2, "seed": rnd.randrange(10**6), "hostile": True}


_ST = {}


def setup(ctx):
    from gpytorch.models.exact_prediction_strategies import DefaultPredictionStrategy as DPS
    from vf import attach

    attach.count(DPS, "get_fantasy_strategy", ctx, "monitor:get_fantasy_strategy")


def _digest_strategy(strat):
    import torch

    out = {}
    for key, val in getattr(strat, "_memoize_cache", {}).items():
        if torch.is_tensor(val):
            out[str(key)] = val.detach().clone()
    return out


def _snapshot(model, probe):
    import copy

    import torch

    with torch.no_grad():
        o = model(probe)
        pred = (o.mean.clone(), o.covariance_matrix.clone())
    return {
        "state": copy.deepcopy(model.state_dict()),
        "inputs": [(id(t), t.detach().clone()) for t in model.train_inputs],
        "targets": (id(model.train_targets), model.train_targets.detach().clone()),
        "strat_id": id(model.prediction_strategy),
        "caches": _digest_strategy(model.prediction_strategy),
        "pred": pred,
        "requires_grad": {n_: p_.requires_grad for n_, p_ in model.named_parameters()},
        "training": {n_: m_.training for n_, m_ in model.named_modules()},
    }


def _ensure_unchanged(ctx, model, snap, probe, tag):
    import torch

    bad = []
    st = model.state_dict()
    for k, v in snap["state"].items():
        if k not in st or not torch.equal(st[k], v):
            bad.append("state_dict:" + k)
    for (i0, v0), t in zip(snap["inputs"], model.train_inputs):
        if id(t) != i0 or not torch.equal(t, v0):
            bad.append("train_inputs")
    if id(model.train_targets) != snap["targets"][0] or not torch.equal(model.train_targets, snap["targets"][1]):
        bad.append("train_targets")
    if id(model.prediction_strategy) != snap["strat_id"]:
        bad.append("prediction_strategy replaced")
    for n_, p_ in model.named_parameters():
        if snap.get("requires_grad", {}).get(n_, p_.requires_grad) != p_.requires_grad:
            bad.append("requires_grad:" + n_)
    for n_, m_ in model.named_modules():
        if snap.get("training", {}).get(n_, m_.training) != m_.training:
            bad.append("training_flag:" + n_)
    now = _digest_strategy(model.prediction_strategy)
    for k, v in snap["caches"].items():
        if k not in now or now[k].shape != v.shape or not torch.equal(now[k], v):
            bad.append("cache:" + k)
    with torch.no_grad():
        o = model(probe)
    if not (torch.allclose(o.mean, snap["pred"][0], atol=1e-12, rtol=0) and torch.allclose(o.covariance_matrix, snap["pred"][1], atol=1e-12, rtol=0)):
        bad.append("prediction")
    ctx.expect("source_untouched", not bad, f"{tag}: source changed: {bad[:5]}", changed=bad[:5])


def _make(case, g):
    import torch

    import gpytorch
    from vf import util

    n, mb = case["n"], case["mbatch"]
    X = util.randn(g, *mb, n, 2)
    y = util.randn(g, *mb, n)
    kind = case["lik"]
    fixed = None
    if kind == "gauss":
        lik = gpytorch.likelihoods.GaussianLikelihood(batch_shape=torch.Size(mb))
    else:
        fixed = util.rand(g, *mb, n) * 0.3 + 0.05
        lik = gpytorch.likelihoods.FixedNoiseGaussianLikelihood(noise=fixed, learn_additional_noise=kind == "fixed+learn", batch_shape=torch.Size(mb))
    model = util.GP(X, y, lik, util.build_mean("constant", 2, mb), util.build_kernel({"k": "scale", "base": {"k": "matern", "nu": 2.5, "ard": True}}, 2, mb))
    util.randomize(model, g, 0.5)
    return model, lik, X, y, fixed


def _fantasy_data(case, g, level_batch):
    """returns Xf, yf, noise for one fantasization step given the CURRENT model's batch shape"""
    from vf import util

    m, pat, mb = case["m"], case["pattern"], level_batch
    f = 3
    if pat == "m":
        return util.randn(g, *mb, m, 2), util.randn(g, *mb, m)
    if pat == "fm_shared":
        return util.randn(g, *mb, m, 2), util.randn(g, f, *mb, m)
    if pat == "fm_own":
        return util.randn(g, f, *mb, m, 2), util.randn(g, f, *mb, m)
    if pat == "fbm":
        return util.randn(g, f, *mb, m, 2), util.randn(g, f, *mb, m)
    raise ValueError


def run_case(case, ctx):
    from vf import util

    g = util.gen(case["seed"])
    _ITER["on"] = False
    if case["kind"] == "mt":
        return _mt(case, ctx, g)
    if case["kind"] == "modellist":
        return _modellist(case, ctx, g)
    if case["kind"] == "two_inputs":
        return _two_inputs(case, ctx, g)
    if case["kind"] == "failed_fantasy":
        return _failed_fantasy(case, ctx, g)
    if case["kind"] == "nan_source":
        return _nan_source(case, ctx, g)
    if case["kind"] == "as_function":
        return _as_function(case, ctx, g)
    if case["kind"] == "kiss":
        # kernel-specific strategy: the KISS-GP (interpolated) fantasy update against conditioning the same approximate
        # kernel from scratch - the cell is shared with C09 (structure-exploiting strategies)
        from vf.checks import c09

        return c09._wiski(case, ctx, g)
    return _single(case, ctx, g)


_ITER = {"on": False}


def _check_against_dense(ctx, fm, src_model, lik_kind, lik0, Xall, yall, noise_all, xs, cls, fpv):
    """fm: fantasy model. Xall/yall/noise_all: concatenated data with the fantasy model's batch shape."""
    import torch

    from vf import util

    if _ITER["on"]:
        # iterative regime (no Cholesky): predictions at the CG tier; the carried caches are checked through the predictions
        Kxx, Ksx, Kss, mx, ms = util.prior_pieces(src_model, Xall, xs.expand(*Xall.shape[:-2], *xs.shape[-2:]))
        N = Xall.shape[-2]
        Sn = lik0.noise.detach().unsqueeze(-1) * torch.eye(N) if lik_kind == "gauss" else torch.diag_embed(noise_all) + (lik0.second_noise.detach().unsqueeze(-1) * torch.eye(N) if lik_kind == "fixed+learn" else 0.0)
        ref_m, ref_c, alpha, A = util.dense_conditional(Kxx, Ksx, Kss, mx, ms, Sn, yall)
        with torch.no_grad():
            out = fm(xs)
        ctx.close("fantasy_mean", out.mean, ref_m.expand(out.mean.shape), "iter", cls=cls + ":mean")
        ctx.close("fantasy_covar", out.covariance_matrix, ref_c.expand(out.covariance_matrix.shape), "lanczos" if fpv else "iter", cls=cls + ":covar")
        return ref_m, ref_c

    Kxx, Ksx, Kss, mx, ms = util.prior_pieces(src_model, Xall, xs.expand(*Xall.shape[:-2], *xs.shape[-2:]))
    N = Xall.shape[-2]
    if lik_kind == "gauss":
        Sn = lik0.noise.detach().unsqueeze(-1) * torch.eye(N)
    else:
        Sn = torch.diag_embed(noise_all)
        if lik_kind == "fixed+learn":
            Sn = Sn + lik0.second_noise.detach().unsqueeze(-1) * torch.eye(N)
    ref_m, ref_c, alpha, A = util.dense_conditional(Kxx, Ksx, Kss, mx, ms, Sn, yall)
    with torch.no_grad():
        out = fm(xs)
        got_m, got_c = out.mean, out.covariance_matrix
    tol = "loose" if fpv else "direct"
    ctx.close("fantasy_mean", got_m, ref_m.expand(got_m.shape), "direct", cls=cls + ":mean")
    ctx.close("fantasy_covar", got_c, ref_c.expand(got_c.shape), tol, cls=cls + ":covar")
    strat = fm.prediction_strategy
    cache = getattr(strat, "_memoize_cache", {})
    seen = False
    for key, val in cache.items():
        if key[0] == "mean_cache" and torch.is_tensor(val):
            seen = True
            shp = torch.broadcast_shapes(val.shape, alpha.shape)
            ctx.close("fantasy_mean_cache", val.expand(shp), alpha.expand(shp), "loose", cls=cls + ":mean_cache", key=str(key))
        if key[0] == "covar_cache" and torch.is_tensor(val) and val.shape[-2] == N:
            RRt = val @ val.transpose(-1, -2)
            Ainv = torch.linalg.inv(A)
            shp = torch.broadcast_shapes(RRt.shape, Ainv.shape)
            ctx.close("fantasy_covar_cache", RRt.expand(shp), Ainv.expand(shp), "loose", cls=cls + ":covar_cache")
    ctx.expect("fantasy_mean_cache_present", seen, "no mean_cache entry stored on the fantasy strategy")
    ltt = strat.lik_train_train_covar
    lc = getattr(ltt, "_memoize_cache", {})
    with torch.no_grad():
        for key, val in lc.items():
            if key[0] == "root_decomposition":
                R = val.root.to_dense()
                RRt = R @ R.transpose(-1, -2)
                shp = torch.broadcast_shapes(RRt.shape, A.shape)
                ctx.close("fantasy_root_decomposition", RRt.expand(shp), A.expand(shp), "loose", cls=cls + ":root")
            if key[0] == "root_inv_decomposition":
                R = val.root.to_dense()
                RRt = R @ R.transpose(-1, -2)
                Ainv = torch.linalg.inv(A)
                shp = torch.broadcast_shapes(RRt.shape, Ainv.shape)
                ctx.close("fantasy_root_inv_decomposition", RRt.expand(shp), Ainv.expand(shp), "loose", cls=cls + ":root_inv")
        # the fantasy strategy's training covariance itself
        Ad = ltt.to_dense()
        shp = torch.broadcast_shapes(Ad.shape, A.shape)
        ctx.close("fantasy_train_train_covar", Ad.expand(shp), A.expand(shp), "direct", cls=cls + ":ltt")
    return ref_m, ref_c


def _single(case, ctx, g):
    import torch

    from gpytorch import settings as S
    from vf import util

    model, lik, X, y, fixed = _make(case, g)
    model.eval()
    xs = util.randn(g, 3, 2)
    probe = util.randn(g, 2, 2)
    cls = f"{case['lik']}:{case['pattern']}:d{case['depth']}:{'love' if case['fast_pred_var'] else 'exact'}" + (":iterative" if case.get("iterative") else "")
    import contextlib

    _ITER["on"] = bool(case.get("iterative"))
    with contextlib.ExitStack() as st:
        if case.get("iterative"):
            # more points than max_cholesky_size: every solve is CG, every root a Lanczos one
            # (only the PREDICTION-time tolerance is tightened: every solve a prediction needs runs under eval_cg_tolerance)
            for c_ in (S.max_cholesky_size(0), S.eval_cg_tolerance(1e-8), S.max_cg_iterations(3000), S.max_root_decomposition_size(8), S.max_preconditioner_size(0)):
                st.enter_context(c_)
        st.enter_context(S.fast_pred_var(case["fast_pred_var"]))
        st.enter_context(S.detach_test_caches(case["detach"]))
        with torch.no_grad():
            model(xs)  # the source needs a prediction strategy
            src0 = model(xs)
        cur = model
        Xall, yall = X, y
        noise_all = fixed
        nontriv = False
        pending = []
        for level in range(case["depth"]):
            cur_batch = list(cur.train_targets.shape[:-1])
            pat_case = dict(case)
            if level > 0 and case["pattern"] in ("fm_shared", "fm_own", "fbm"):
                pat_case["pattern"] = "m"  # deeper levels add plain fantasies on the (already fantasy-batched) model
            if case.get("m_equals_stored"):
                pat_case["m"] = int(cur.train_targets.shape[-1])  # as many fantasy points as the likelihood stores noise values
            Xf, yf = _fantasy_data(pat_case, g, cur_batch)
            if case.get("xf_float32"):
                Xf = Xf.float()  # float32 fantasy inputs for a float64 model (exactly representable; promoted by the concatenation)
            kw = {}
            if case["lik"] != "gauss":
                # the fantasy noise has the batch shape of the fantasy INPUTS (shared inputs => shared noise)
                nshape = yf.shape if Xf.dim() - 1 == yf.dim() else (*Xf.shape[:-2], yf.shape[-1])
                nz = util.rand(g, *nshape) * 0.2 + 0.03
                kw["noise"] = nz
            snap = _snapshot(cur, probe) if not (case.get("late_eval") and level > 0) else None
            try:
                fm = cur.get_fantasy_model(Xf, yf, **kw)
            except Exception as e:
                ctx.fail("fantasy_raises", f"get_fantasy_model raised {type(e).__name__}: {str(e)[:160]} (level {level})", "raise", exc=type(e).__name__, level=level, pattern=pat_case["pattern"])
                break
            if snap is not None:
                _ensure_unchanged(ctx, cur, snap, probe, f"level {level}")
            fb = yf.shape[:-1]
            Xall_e = Xall.expand(*fb, *Xall.shape[-2:]) if Xall.dim() - 2 < len(fb) else Xall
            Xf_e = Xf.expand(*fb, *Xf.shape[-2:])
            Xall = torch.cat([Xall_e.expand(*fb, *Xall.shape[-2:]), Xf_e], -2)
            yall = torch.cat([yall.expand(*fb, yall.shape[-1]), yf], -1)
            if noise_all is not None:
                noise_all = torch.cat([noise_all.expand(*fb, noise_all.shape[-1]), kw["noise"].expand(*fb, kw["noise"].shape[-1])], -1)
            # data carried by the fantasy model
            ctx.close("fantasy_train_targets", fm.train_targets, yall.expand(fm.train_targets.shape), "bit")
            ctx.close("fantasy_train_inputs", fm.train_inputs[0], Xall.expand(fm.train_inputs[0].shape), "bit")
            if case.get("late_eval"):
                pending.append((fm, Xall, yall, noise_all, level))
            else:
                ref_m, ref_c = _check_against_dense(ctx, fm, model, case["lik"], lik, Xall, yall, noise_all, xs, cls + f":L{level}", case["fast_pred_var"])
                nontriv = nontriv or float((ref_m - src0.mean).abs().max()) > 1e-3
            cur = fm
        # late evaluation: every fantasy model predicts for the first time only after it has spawned its own fantasy
        for fm, Xa, ya, na, level in pending:
            ref_m, ref_c = _check_against_dense(ctx, fm, model, case["lik"], lik, Xa, ya, na, xs, cls + f":L{level}:late", case["fast_pred_var"])
            nontriv = nontriv or float((ref_m - src0.mean).abs().max()) > 1e-3
    ctx.cell({k: v for k, v in case.items() if k != "seed"}, nontrivial=nontriv)


def _as_function(case, ctx, g):
    """the fantasy model equals conditioning from scratch AS A FUNCTION of the fantasy inputs (gradients of its predictions
    with respect to X_f, caches not detached), and a source fantasised twice at the same input TENSOR object (refilled in
    place, other targets / noise) gives the second data set's model"""
    import copy

    import torch

    import gpytorch
    from gpytorch import settings as S
    from vf import util

    c = dict(case, mbatch=[], n=5)
    model, lik, X, y, fixed = _make(c, g)
    model.eval()
    xs = util.randn(g, 3, 2)
    fpv = case["fast_pred_var"]

    def scratch(Xf_, yf_, nz_):
        """the same hyper-parameters trained on the concatenated data (prediction on the exact, non-fast path)"""
        m2 = copy.deepcopy(model)
        m2.prediction_strategy = None
        Xa, ya = torch.cat([X, Xf_], -2), torch.cat([y, yf_], -1)
        if fixed is not None:
            m2.likelihood.noise_covar.noise = torch.cat([fixed, nz_], -1)
        m2.set_train_data(Xa, ya, strict=False)
        m2.eval()
        with S.fast_pred_var(False):
            return m2(xs)

    with S.fast_pred_var(fpv), S.detach_test_caches(False):
        model(xs)
        Xf = util.randn(g, 2, 2).requires_grad_(True)
        yf = util.randn(g, 2).requires_grad_(True)  # (fantasy targets may be reparameterised samples: the mean depends on them)
        nz = util.rand(g, 2) * 0.2 + 0.03 if fixed is not None else None
        kw = {"noise": nz} if nz is not None else {}
        fm = model.get_fantasy_model(Xf, yf, **kw)
        out = fm(xs)
        wy_ = util.randn(g, *out.mean.shape)
        gm, gv = torch.autograd.grad(out.mean.sum(), Xf, retain_graph=True)[0], torch.autograd.grad(out.variance.sum(), Xf, allow_unused=True, retain_graph=True)[0]
        gy = torch.autograd.grad((out.mean * wy_).sum(), yf, allow_unused=True, retain_graph=True)[0]
        Xr = Xf.detach().clone().requires_grad_(True)
        yr = yf.detach().clone().requires_grad_(True)
        ref = scratch(Xr, yr, nz)
        rm, rv = torch.autograd.grad(ref.mean.sum(), Xr, retain_graph=True)[0], torch.autograd.grad(ref.variance.sum(), Xr, retain_graph=True)[0]
        ry = torch.autograd.grad((ref.mean * wy_).sum(), yr)[0]
        ctx.close("fantasy_gradient_wrt_inputs", torch.zeros_like(ry) if gy is None else gy, ry, (1e-5, 1e-5) if fpv else (1e-7, 1e-7), cls=f"grad:mean_wrt_fantasy_targets:{case['lik']}:{'love' if fpv else 'exact'}")
        tol = (1e-5, 1e-5) if fpv else (1e-7, 1e-7)
        ctx.close("fantasy_gradient_wrt_inputs", gm, rm, tol, cls=f"grad:mean:{case['lik']}:{'love' if fpv else 'exact'}")
        ctx.close("fantasy_gradient_wrt_inputs", torch.zeros_like(rv) if gv is None else gv, rv, tol, cls=f"grad:var:{case['lik']}:{'love' if fpv else 'exact'}")
    # the same fantasy-input tensor object, refilled in place, other targets and noise: a second fantasy model of the source
    with S.fast_pred_var(fpv), torch.no_grad():
        Xb = util.randn(g, 2, 2)
        y1 = util.randn(g, 2)
        n1 = util.rand(g, 2) * 0.2 + 0.03 if fixed is not None else None
        model.get_fantasy_model(Xb, y1, **({"noise": n1} if n1 is not None else {}))
        Xb.copy_(util.randn(g, 2, 2))
        y2 = util.randn(g, 2)
        n2 = util.rand(g, 2) * 0.2 + 0.03 if fixed is not None else None
        f2 = model.get_fantasy_model(Xb, y2, **({"noise": n2} if n2 is not None else {}))
        o2 = f2(xs)
        r2 = scratch(Xb, y2, n2)
        ctx.close("fantasy_refilled_inputs", o2.mean, r2.mean, (1e-7, 1e-7), cls="refilled:mean")
        ctx.close("fantasy_refilled_inputs", o2.covariance_matrix, r2.covariance_matrix, (1e-4, 1e-4) if fpv else (1e-7, 1e-7), cls="refilled:covar:" + ("love" if fpv else "exact"))
    # siblings: two fantasy models of ONE source (other inputs, targets, noise); the elder one is examined after the younger
    # exists - served from its caches, recomputed after train()/eval(), as a deep copy, and as the source of its own fantasy
    with S.fast_pred_var(fpv), torch.no_grad():
        mk = lambda: (util.randn(g, 2, 2), util.randn(g, 2), util.rand(g, 2) * 0.3 + 0.03 if fixed is not None else None)
        (Xa, ya, na), (Xc, yc, nc), (Xd, yd, nd) = mk(), mk(), mk()
        elder = model.get_fantasy_model(Xa, ya, **({"noise": na} if na is not None else {}))
        younger = model.get_fantasy_model(Xc, yc, **({"noise": nc} if nc is not None else {}))
        ra, rc = scratch(Xa, ya, na), scratch(Xc, yc, nc)
        ctol = (1e-4, 1e-4) if fpv else (1e-7, 1e-7)
        views = [("cached", elder), ("deepcopy", copy.deepcopy(elder))]
        for tag, fm_ in views:
            o_ = fm_(xs)
            ctx.close("fantasy_siblings", o_.mean, ra.mean, (1e-7, 1e-7), cls="siblings:elder:" + tag + ":mean")
            ctx.close("fantasy_siblings", o_.covariance_matrix, ra.covariance_matrix, ctol, cls="siblings:elder:" + tag + ":covar")
        oy = younger(xs)
        ctx.close("fantasy_siblings", oy.mean, rc.mean, (1e-7, 1e-7), cls="siblings:younger:mean")
        # the elder's own fantasy (its likelihood has to carry the elder's noise, then the new one)
        grand = elder.get_fantasy_model(Xd, yd, **({"noise": nd} if nd is not None else {}))
        m3 = copy.deepcopy(model)
        m3.prediction_strategy = None
        if fixed is not None:
            m3.likelihood.noise_covar.noise = torch.cat([fixed, na, nd], -1)
        m3.set_train_data(torch.cat([X, Xa, Xd], -2), torch.cat([y, ya, yd], -1), strict=False)
        m3.eval()
        with S.fast_pred_var(False):
            rg = m3(xs)
        og = grand(xs)
        ctx.close("fantasy_siblings", og.mean, rg.mean, (1e-7, 1e-7), cls="siblings:elder_fantasy:mean")
        ctx.close("fantasy_siblings", og.covariance_matrix, rg.covariance_matrix, ctol, cls="siblings:elder_fantasy:covar")
        # the fantasy models are models of their own: moving THEIR parameters (what training them does) leaves the source alone
        snap_src = _snapshot(model, xs)
        for fm_ in (younger, grand):
            for p_ in list(fm_.parameters()) + list(fm_.likelihood.parameters()):
                p_.add_(0.07)
        _ensure_unchanged(ctx, model, snap_src, xs, "parameters of the fantasy models moved")
        for fm_ in (younger, grand):
            for p_ in list({id(q): q for q in list(fm_.parameters()) + list(fm_.likelihood.parameters())}.values()):
                pass
        # recomputed from the elder's own data and likelihood
        elder.train()
        elder.eval()
        oe = elder(xs)
        ctx.close("fantasy_siblings", oe.mean, ra.mean, (1e-7, 1e-7), cls="siblings:elder:recomputed:mean")
        ctx.close("fantasy_siblings", oe.covariance_matrix, ra.covariance_matrix, ctol, cls="siblings:elder:recomputed:covar")
        if fixed is not None:
            ctx.close("fantasy_siblings", elder.likelihood.noise_covar.noise, torch.cat([fixed, na], -1), "bit", cls="siblings:elder:noise")
            ctx.close("fantasy_siblings", younger.likelihood.noise_covar.noise, torch.cat([fixed, nc], -1), "bit", cls="siblings:younger:noise")
        # ... and the other way round: the SOURCE trains on after its children exist (train(), other hyper-parameters, eval()):
        # a child - whether it has predicted before or not - stays the exact GP of ITS hyper-parameters on its data
        (Xe, ye, ne), (Xf, yf_, nf) = mk(), mk()
        seen = model.get_fantasy_model(Xe, ye, **({"noise": ne} if ne is not None else {}))
        unseen = model.get_fantasy_model(Xf, yf_, **({"noise": nf} if nf is not None else {}))
        re_, rf_ = scratch(Xe, ye, ne), scratch(Xf, yf_, nf)
        seen(xs)
        model.train()
        for p_ in list({id(q): q for q in list(model.parameters()) + list(model.likelihood.parameters())}.values()):
            p_.add_(0.6 * util.randn(g, *p_.shape))
        model.eval()
        model(xs)
        for tag, fm_, r_ in (("predicted_before", seen, re_), ("first_prediction_after", unseen, rf_)):
            o_ = fm_(xs)
            ctx.close("fantasy_siblings", o_.mean, r_.mean, (1e-7, 1e-7), cls="source_moved:" + tag + ":mean")
            ctx.close("fantasy_siblings", o_.covariance_matrix, r_.covariance_matrix, ctol, cls="source_moved:" + tag + ":covar")
    ctx.cell({k: v for k, v in case.items() if k != "seed"})


def _mt(case, ctx, g):
    import torch

    import gpytorch
    from gpytorch import settings as S
    from vf import util

    n, m, t = case["n"], case["m"], case["t"]
    X, y = util.randn(g, n, 2), util.randn(g, n, t)
    lik = gpytorch.likelihoods.MultitaskGaussianLikelihood(num_tasks=t, rank=case.get("rank", 0))  # rank > 0: inter-task noise
    model = util.MTGP(X, y, lik, t, 1, {"k": "rbf"}, 2)
    util.randomize(model, g, 0.5)
    model.eval()
    xs, probe = util.randn(g, 3, 2), util.randn(g, 2, 2)
    with S.fast_pred_var(case["fast_pred_var"]), torch.no_grad():
        model(xs)
        cur, Xall, yall = model, X, y
        for level in range(case["depth"]):
            fb = [3] if (case["pattern"] == "fm_shared" and level == 0) else list(cur.train_targets.shape[:-2])
            Xf = util.randn(g, m, 2) if level == 0 else util.randn(g, *cur.train_targets.shape[:-2], m, 2)
            yf = util.randn(g, *fb, m, t)
            snap = _snapshot(cur, probe)
            try:
                fm = cur.get_fantasy_model(Xf, yf)
            except Exception as e:
                ctx.fail("fantasy_raises", f"multitask get_fantasy_model raised {type(e).__name__}: {str(e)[:160]}", "raise", exc=type(e).__name__, level=level, pattern=case["pattern"], mt=True)
                break
            _ensure_unchanged(ctx, cur, snap, probe, f"mt level {level}")
            Xall = torch.cat([Xall.expand(*fb, *Xall.shape[-2:]), Xf.expand(*fb, *Xf.shape[-2:])], -2)
            yall = torch.cat([yall.expand(*fb, *yall.shape[-2:]), yf], -2)
            Kxx, Ksx, Kss, mx, ms = util.prior_pieces(model, Xall, xs.expand(*fb, *xs.shape[-2:]))
            N = Xall.shape[-2]
            D = (torch.diag_embed(lik.task_noises.detach()) if lik.rank == 0 else lik.task_noise_covar.detach()) + lik.noise.detach() * torch.eye(t)
            Sn = torch.kron(torch.eye(N), D)
            ref_m, ref_c, _, _ = util.dense_conditional(Kxx, Ksx, Kss, mx.reshape(*mx.shape[:-2], -1), ms.reshape(*ms.shape[:-2], -1), Sn, yall.reshape(*yall.shape[:-2], -1))
            out = fm(xs)
            ctx.close("fantasy_mean", out.mean.reshape(*out.mean.shape[:-2], -1), ref_m.expand(*out.mean.shape[:-2], ref_m.shape[-1]), "direct", cls="mt:mean")
            ctx.close("fantasy_covar", out.covariance_matrix, ref_c.expand(out.covariance_matrix.shape), "loose" if case["fast_pred_var"] else "direct", cls="mt:covar")
            cur = fm
    ctx.cell({k: v for k, v in case.items() if k != "seed"})


def _modellist(case, ctx, g):
    import torch

    import gpytorch
    from gpytorch import settings as S
    from vf import util

    kinds = case.get("members", ["gauss", "gauss"])
    models, data, noises = [], [], []
    for kind, n in zip(kinds, (4, 6, 5)):
        X, y = util.randn(g, n, 2), util.randn(g, n)
        if kind == "gauss":
            lik, fixed = gpytorch.likelihoods.GaussianLikelihood(), None
        else:
            fixed = util.rand(g, n) * 0.4 + 0.05
            lik = gpytorch.likelihoods.FixedNoiseGaussianLikelihood(noise=fixed, learn_additional_noise=kind == "fixed+learn")
        mdl = util.GP(X, y, lik, util.build_mean("constant", 2), util.build_kernel({"k": "scale", "base": {"k": "rbf"}}, 2))
        util.randomize(mdl, g, 0.5)
        models.append(mdl)
        data.append((X, y))
        noises.append(fixed)
    ml = gpytorch.models.IndependentModelList(*models)
    ml.eval()
    xs, probe = util.randn(g, 3, 2), util.randn(g, 2, 2)
    fpv = bool(case.get("fast_pred_var"))
    with torch.no_grad(), S.fast_pred_var(fpv):
        ml(*[xs for _ in models])
        cur = ml
        for level in range(case["depth"]):
            # the same number of fantasy points for every member (a leaked per-member argument would still fit)
            Xfs = [util.randn(g, 2, 2) for _ in models]
            yfs = [util.randn(g, 2) for _ in models]
            # per-member fantasy noise: a tensor for fixed-noise members, None for homoskedastic ones
            fn = [None if k_ == "gauss" else util.rand(g, 2) * 0.4 + 0.05 for k_ in kinds]
            kw = {"noise": fn} if any(f_ is not None for f_ in fn) else {}
            snaps = [_snapshot(m_, probe) for m_ in cur.models]
            try:
                fm = cur.get_fantasy_model(Xfs, yfs, **kw)
            except Exception as e:
                ctx.fail("fantasy_raises", f"IndependentModelList.get_fantasy_model raised {type(e).__name__}: {str(e)[:160]}", "raise", exc=type(e).__name__, modellist=True)
                break
            for m_, sn in zip(cur.models, snaps):
                _ensure_unchanged(ctx, m_, sn, probe, "modellist member")
            data = [(torch.cat([X, Xf], -2), torch.cat([y, yf], -1)) for (X, y), Xf, yf in zip(data, Xfs, yfs)]
            noises = [None if nz is None else torch.cat([nz, f_], -1) for nz, f_ in zip(noises, fn)]
            outs = fm(*[xs for _ in models])
            for mdl, kind, (Xa, ya), nz, o in zip(models, kinds, data, noises, outs):
                Kxx, Ksx, Kss, mx, ms = util.prior_pieces(mdl, Xa, xs)
                if kind == "gauss":
                    Sn = mdl.likelihood.noise.detach() * torch.eye(Xa.shape[-2])
                else:
                    Sn = torch.diag(nz + (mdl.likelihood.second_noise.detach().reshape(()) if kind == "fixed+learn" else 0.0))
                rm, rc, _, _ = util.dense_conditional(Kxx, Ksx, Kss, mx, ms, Sn, ya)
                tol = "loose" if fpv else "direct"
                ctx.close("fantasy_mean", o.mean, rm, tol, cls="modellist:mean:" + kind + (":fpv" if fpv else ""))
                ctx.close("fantasy_covar", o.covariance_matrix, rc, tol, cls="modellist:covar:" + kind + (":fpv" if fpv else ""))
            cur = fm
    ctx.cell({k: v for k, v in case.items() if k != "seed"})


def _two_inputs(case, ctx, g):
    """fantasies of an exact GP whose forward takes two input tensors (points, task indices): the fantasy model equals
    conditioning from scratch on the concatenated (points, indices, targets); the source is untouched"""
    import torch

    import gpytorch
    from gpytorch import settings as S
    from vf import util

    n, m, ns, T, d = 6, 2, 3, 2, 2
    X, I, y = util.randn(g, n, d), torch.randint(0, T, (n, 1), generator=g), util.randn(g, n)
    xs, Is = util.randn(g, ns, d), torch.randint(0, T, (ns, 1), generator=g)
    K = gpytorch.kernels

    class Had(gpytorch.models.ExactGP):
        def __init__(s, X_, I_, y_, lik):
            super().__init__((X_, I_), y_, lik)
            s.mean_module = gpytorch.means.ConstantMean()
            s.covar_module = K.ScaleKernel(K.MaternKernel(nu=2.5))
            s.task_covar_module = K.IndexKernel(num_tasks=T, rank=1)

        def forward(s, x, i):
            return gpytorch.distributions.MultivariateNormal(s.mean_module(x), s.covar_module(x).mul(s.task_covar_module(i)))

    lik = gpytorch.likelihoods.GaussianLikelihood()
    model = Had(X, I, y, lik)
    util.randomize(model, g, 0.5)
    model.eval()
    with S.fast_pred_var(case["fast_pred_var"]), torch.no_grad():
        model(xs, Is)
        before = model(xs, Is)
        bm, bc = before.mean.clone(), before.covariance_matrix.clone()
        cur, Xa, Ia, ya = model, X, I, y
        for level in range(case["depth"]):
            Xf, If, yf = util.randn(g, m, d), torch.randint(0, T, (m, 1), generator=g), util.randn(g, m)
            try:
                fm = cur.get_fantasy_model([Xf, If], yf)
            except Exception as e:
                ctx.fail("fantasy_raises", f"two-input get_fantasy_model raised {type(e).__name__}: {str(e)[:160]}", "raise", exc=type(e).__name__, level=level, two_inputs=True)
                break
            Xa, Ia, ya = torch.cat([Xa, Xf]), torch.cat([Ia, If]), torch.cat([ya, yf])
            with S.lazily_evaluate_kernels(False):
                B = model.task_covar_module.covar_matrix.to_dense()
                Xj, Ij = torch.cat([Xa, xs]), torch.cat([Ia, Is]).squeeze(-1)
                J = model.covar_module(Xj).to_dense() * B[Ij][:, Ij]
                mu = model.mean_module(Xj)
            N = Xa.shape[0]
            rm, rc, _, _ = util.dense_conditional(J[:N, :N], J[N:, :N], J[N:, N:], mu[:N], mu[N:], lik.noise.detach() * torch.eye(N), ya)
            of = fm(xs, Is)
            cls = f"two_inputs:d{level}:{'love' if case['fast_pred_var'] else 'exact'}"
            ctx.close("fantasy_mean", of.mean, rm, "direct", cls=cls + ":mean")
            ctx.close("fantasy_covar", of.covariance_matrix, rc, "loose" if case["fast_pred_var"] else "direct", cls=cls + ":covar")
            ctx.close("fantasy_train_targets", fm.train_targets, ya, "bit")
            ctx.close("fantasy_train_inputs", fm.train_inputs[0], Xa, "bit")
            ctx.expect("fantasy_train_inputs", torch.equal(fm.train_inputs[1], Ia), "second input tensor (task indices) of the fantasy model is not the concatenation")
            cur = fm
        after = model(xs, Is)
        ctx.expect("source_untouched", bool(torch.equal(after.mean, bm) and torch.equal(after.covariance_matrix, bc)) and torch.equal(model.train_inputs[1], I) and torch.equal(model.train_targets, y),
                   "two-input source model changed by get_fantasy_model", changed=["prediction"])
    ctx.cell({k: v for k, v in case.items() if k != "seed"}, nontrivial=True)


def _failed_fantasy(case, ctx, g):
    """get_fantasy_model calls that are refused (explicit error): the source model is exactly what it was"""
    import torch

    import gpytorch
    from vf import util

    K, L = gpytorch.kernels, gpytorch.likelihoods
    n = 7
    X, y = util.rand(g, n, 2) * 2 - 1, util.randn(g, n)
    how = case["how"]
    if how == "fixed_noise_missing":
        lik = L.FixedNoiseGaussianLikelihood(util.rand(g, n) * 0.2 + 0.05)
        kern = K.ScaleKernel(K.MaternKernel(nu=2.5))
    elif how == "sgpr":
        lik = L.GaussianLikelihood()
        kern = K.InducingPointKernel(K.ScaleKernel(K.RBFKernel()), inducing_points=util.randn(g, 3, 2) * 0.5, likelihood=lik)
    else:
        lik = L.GaussianLikelihood()
        kern = K.ScaleKernel(K.GridInterpolationKernel(K.RBFKernel(), grid_size=8, num_dims=2, grid_bounds=[(-1.5, 1.5), (-1.5, 1.5)])) if how == "kiss_grad_caches" else K.ScaleKernel(K.RBFKernel())
    model = util.GP(X, y, lik, gpytorch.means.ConstantMean(), kern)
    util.randomize(model, g, 0.4)
    model.eval()
    xs, probe = util.rand(g, 3, 2) * 2 - 1, util.rand(g, 2, 2) * 2 - 1
    if how == "kiss_grad_caches":
        model(xs)  # autograd on: the kernel's caches are non-leaf tensors, which deepcopy refuses
    with torch.no_grad():
        model(xs)
    snap = _snapshot(model, probe)
    Xf, yf = util.rand(g, 2, 2) * 2 - 1, util.randn(g, 2)
    if how == "bad_target_shape":
        yf = util.randn(g, 3, 5)
    raised = None
    try:
        with torch.no_grad():
            model.get_fantasy_model(Xf, yf)
    except Exception as e:
        raised = type(e).__name__
    if raised is None:
        ctx.reject(f"get_fantasy_model accepted the call ({how})")
        return
    ctx.hit("fantasy_refused:" + raised)
    for attr in ("train_inputs", "train_targets", "likelihood", "prediction_strategy"):
        ctx.expect("source_untouched", getattr(model, attr) is not None, f"after a refused get_fantasy_model ({how}: {raised}) the source model's {attr} is None", changed=[attr], refused=how)
    if model.train_inputs is not None and model.train_targets is not None and model.likelihood is not None:
        try:
            _ensure_unchanged(ctx, model, snap, probe, f"refused fantasy ({how}: {raised})")
        except Exception as e:
            ctx.fail("source_untouched", f"the source model cannot predict after a refused get_fantasy_model ({how}): {type(e).__name__}: {str(e)[:100]}", "raise", refused=how)
    ctx.cell({k: v for k, v in case.items() if k != "seed"})


def _nan_source(case, ctx, g):
    """source model with missing observations under a NaN policy: the fantasy model conditions on observed + fantasy data"""
    import torch

    import gpytorch
    from gpytorch import settings as S
    from vf import util

    n, m = case["n"], case["m"]
    X, y = util.randn(g, n, 2), util.randn(g, n)
    miss = torch.zeros(n, dtype=torch.bool)
    miss[1] = True
    miss[4] = True
    yn = y.clone()
    yn[miss] = float("nan")
    lik = gpytorch.likelihoods.GaussianLikelihood()
    model = util.GP(X, yn, lik, util.build_mean("constant", 2), util.build_kernel({"k": "scale", "base": {"k": "rbf"}}, 2))
    util.randomize(model, g, 0.5)
    model.eval()
    xs = util.randn(g, 3, 2)
    Xf, yf = util.randn(g, m, 2), util.randn(g, m)
    with S.observation_nan_policy(case["policy"]), S.fast_pred_var(case["fast_pred_var"]), torch.no_grad():
        model(xs)
        try:
            fm = model.get_fantasy_model(Xf, yf)
            out = fm(xs)
            gm, gc = out.mean, out.covariance_matrix
        except Exception as e:
            ctx.fail("fantasy_raises", f"get_fantasy_model with missing source observations raised {type(e).__name__}: {str(e)[:140]}", "raise", exc=type(e).__name__, nan=True)
            ctx.cell({k: v for k, v in case.items() if k != "seed"})
            return
    obs = ~miss
    Xall, yall = torch.cat([X[obs], Xf]), torch.cat([y[obs], yf])
    Kxx, Ksx, Kss, mx, ms = util.prior_pieces(model, Xall, xs)
    rm, rc, _, _ = util.dense_conditional(Kxx, Ksx, Kss, mx, ms, lik.noise.detach() * torch.eye(Xall.shape[0]), yall)
    ctx.expect("fantasy_nan_free", bool(torch.isfinite(gm).all() and torch.isfinite(gc).all()), "NaN in the fantasy posterior")
    ctx.close("fantasy_mean", gm, rm, "direct", cls="nan_source:mean", nan=True)
    ctx.close("fantasy_covar", gc, rc, "direct", cls="nan_source:covar", nan=True)
    ctx.cell({k: v for k, v in case.items() if k != "seed"})
