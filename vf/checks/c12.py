"""C12 - Gaussian-family likelihoods add exactly the specified noise and integrate exactly.

Monitors: post-conditions on the real _GaussianLikelihoodBase.marginal / expected_log_prob / log_marginal / forward
(attached from the harness). The oracle builds the documented noise operator R from the PUBLIC parameter values
(sigma^2 I; diag(fixed) [+ sigma^2 I]; call-time noise in place of the stored fixed noise; Kronecker task noise in
the layout of the input) and checks  marginal(d).cov - d.cov == R, mean/class/layout preserved, the elementwise
closed forms of expected_log_prob and log_marginal, forward's scale, and LikelihoodList member-wise application.
"""
import itertools
import random

PROPERTY = "C12"
RULE = (
    'case = (likelihood kind in {gauss, fixed, fixed+learn, multitask(rank 0..t, global/task switches), list}, event size, likelihood batch x '
    'distribution batch (all broadcastable pairs), call-time noise yes/no/tiny (0..1e-7), None entries in list noise, interleaved yes/no, seed); '
    'distinct = cell without seed; non-trivial iff the function distribution has non-zero off-diagonal covariance and R != 0'
    '; pass 5: every likelihood in training and in evaluation mode; multitask cells with points == tasks, batch == tasks and batched likelihoods on smaller-batch distributions'
    '; pass 6: noise re-bound / re-initialised between two calls (property, noise-model attribute, initialize)'
    '; pass 7: stacked noise tensors and None entries for list members; the Dirichlet classification member (noise and targets derived from labels, alpha_epsilon in {0.01, 0.1, 1}, stored labels and call-time labels that may lack the largest class, float and double)'
    "; pass 9: call-time noise on the homoskedastic likelihood (used directly, down to 0); one likelihood object in two slots of a LikelihoodList"
    "; pass 10: targets and latent means with a large common offset (1e5..1e7); integer / single-precision targets against a double-precision distribution"
)
REQUIRED = ["marginal_adds_R", "marginal_keeps_mean", "expected_log_prob", "log_marginal", "forward_scale", "list_memberwise", "monitor:marginal_calls", "dirichlet_noise"]
ASSUMPTIONS = ["R is built from public parameter values only (noise, second_noise, task_noises, task_noise_covar)"]
ANCHOR_FILES = ["gpytorch/likelihoods/"]

BPAIRS = [([], []), ([2], []), ([], [2]), ([2], [2]), ([3, 2], [2]), ([2], [3, 2]), ([1, 2], [3, 1]), ([3, 1], [1, 2])]


def cases(tier, seed):
    rnd = random.Random(12000 + seed)
    reps = 1 if tier == "quick" else 60
    for _ in range(reps):
        for kind, n, (lb, db) in itertools.product(["gauss", "fixed", "fixed+learn"], [1, 2, 5], BPAIRS):
            for call_noise in [False, True, "tiny"]:  # (homoskedastic noise model: 'If a "noise" kwarg is provided, this noise is used directly')
                yield {"kind": kind, "n": n, "lbatch": lb, "dbatch": db, "call_noise": call_noise, "seed": rnd.randrange(10**6)}
        # a function distribution whose size differs from the stored fixed noise and no call-time noise: documented as a
        # no-op for the fixed part (warning); a learned additional noise is still added
        for kind, how in itertools.product(["fixed", "fixed+learn", "gauss"], ["property", "attribute", "initialize"]):
            if kind == "gauss" and how == "attribute":
                continue
            for _r in range(2):
                yield {"kind": "reassign", "lkind": kind, "how": how, "n": rnd.choice([3, 5]), "seed": rnd.randrange(10**6)}
        for kind, n, m_ in itertools.product(["fixed", "fixed+learn"], [3, 5], [2, 7]):
            yield {"kind": "size_mismatch", "lkind": kind, "n": n, "m": m_, "seed": rnd.randrange(10**6)}
        for t, n, inter in itertools.product([2, 3], [1, 4], [True, False]):
            for rank in range(0, t + 1):
                for glob, task in ((True, True), (True, False), (False, True)):
                    for db in ([], [2]):
                        yield {"kind": "mt", "t": t, "n": n, "rank": rank, "global": glob, "task": task, "interleaved": inter, "dbatch": db, "lbatch": [], "seed": rnd.randrange(10**6)}
        # coinciding sizes (points == tasks, batch == tasks == points) and batched multitask likelihoods
        for (t, n, db, lb), inter in itertools.product([(2, 2, [], []), (3, 3, [], []), (2, 2, [2], []), (3, 3, [3], []), (2, 4, [2], [2]), (3, 3, [3], [3]), (2, 1, [], [2]), (3, 2, [2], [2])], [True, False]):
            for rank in range(0, t + 1):
                for glob, task in ((True, True), (True, False), (False, True)):
                    if tier == "quick" and rnd.random() < 0.5:
                        continue
                    yield {"kind": "mt", "t": t, "n": n, "rank": rank, "global": glob, "task": task, "interleaved": inter, "dbatch": db, "lbatch": lb, "seed": rnd.randrange(10**6)}
        for n, with_noise in itertools.product([2, 4], [False, True]):
            yield {"kind": "list", "n": n, "call_noise": with_noise, "members": rnd.choice([["fixed", "fixed"], ["fixed+learn", "fixed"], ["fixed", "fixed+learn", "fixed"]]), "seed": rnd.randrange(10**6)}
        yield {"kind": "list", "n": 3, "call_noise": False, "members": ["gauss", "fixed", "gauss"], "seed": rnd.randrange(10**6)}
        for members in (["fixed", "fixed"], ["fixed", "fixed+learn", "fixed"]):
            for n_ in (2, 3, 4):  # (incl. as many points as members)
                yield {"kind": "list", "n": n_, "call_noise": "stacked", "members": members, "seed": rnd.randrange(10**6)}
        for members, cn in itertools.product((["fixed", "fixed"], ["fixed", "fixed+learn", "fixed"], ["gauss", "fixed", "gauss"]), (True, False)):
            yield {"kind": "list", "n": 3, "call_noise": cn, "same_object": True, "members": members, "seed": rnd.randrange(10**6)}
        for members in (["fixed", "fixed", "fixed"], ["fixed", "fixed+learn", "fixed"]):
            for none_at in ([1], [0], [2], [0, 2]):
                yield {"kind": "list", "n": 3, "call_noise": True, "none_at": none_at, "members": members, "seed": rnd.randrange(10**6)}
        # the Dirichlet classification member of the family: fixed noise derived from class labels, (classes x points) layout
        for eps, learn, dt, n, C in itertools.product([0.01, 0.1, 1.0], [False, True], ["double", "float"], [1, 5], [2, 3]):
            if tier == "quick" and rnd.random() < 0.5:
                continue
            yield {"kind": "dirichlet", "alpha_epsilon": eps, "learn": learn, "dtype": dt, "n": n, "classes": C, "seed": rnd.randrange(10**6)}
        for kind, n, m, rounds, fb in itertools.product(["fixed", "fixed+learn"], [1, 4], [1, 3], [1, 2, 3], [[], [2]]):
            yield {"kind": "fantasy_lik", "lkind": kind, "n": n, "m": m, "rounds": rounds, "fbatch": fb, "seed": rnd.randrange(10**6)}


_ST = {}


def setup(ctx):
    from gpytorch.likelihoods.gaussian_likelihood import _GaussianLikelihoodBase as G
    from vf import attach

    _ST["ctx"] = ctx
    attach.wrap(G, "marginal", after=_post_marginal)
    attach.count(G, "expected_log_prob", ctx, "monitor:expected_log_prob_calls")
    attach.count(G, "log_marginal", ctx, "monitor:log_marginal_calls")


def _post_marginal(a, k, out, tok):
    """post-condition of every real marginal() call: mean untouched, class (and multitask layout) preserved"""
    import torch

    ctx = _ST["ctx"]
    ctx.hit("monitor:marginal_calls")
    if ctx._case is None:
        return
    d = a[1]
    ctx.expect("marginal_keeps_class", type(out) is type(d), f"{type(d).__name__} -> {type(out).__name__}")
    if hasattr(d, "_interleaved"):
        ctx.expect("marginal_keeps_layout", getattr(out, "_interleaved", None) == d._interleaved, "interleaved flag changed")
    ctx.close("marginal_keeps_mean", out.mean, d.mean, "bit")


def _spd(g, *shape):
    import torch

    from vf import util

    a = util.randn(g, *shape, shape[-1])
    return a @ a.transpose(-1, -2) / shape[-1] + 0.3 * torch.eye(shape[-1])


def _mode(lik, case, ctx):
    """the statement does not depend on the module's mode: half of the cases run the likelihood in evaluation mode"""
    if case["seed"] % 2:
        lik.eval()
        ctx.hit("info:likelihood_in_eval_mode")
    else:
        ctx.hit("info:likelihood_in_training_mode")


def _make_lik(kind, g, lb, n):
    import torch

    import gpytorch
    from vf import util

    L = gpytorch.likelihoods
    bs = torch.Size(lb)
    if kind == "gauss":
        lik = L.GaussianLikelihood(batch_shape=bs)
        util.randomize(lik, g)
        return lik, None
    fixed = util.rand(g, *lb, n) + 0.05
    lik = L.FixedNoiseGaussianLikelihood(noise=fixed, learn_additional_noise=(kind == "fixed+learn"), batch_shape=bs)
    util.randomize(lik, g)
    return lik, fixed


def _R_single(lik, kind, fixed, call, shape):
    """documented noise diagonal for a function distribution whose mean has `shape`"""
    import torch

    if kind == "gauss" and call is not None:
        return call.expand(*torch.broadcast_shapes(call.shape[:-1], shape[:-1]), shape[-1])
    if kind == "gauss":
        r = lik.noise.detach().expand(*torch.broadcast_shapes(lik.noise.shape[:-1], shape[:-1]), 1).expand(*torch.broadcast_shapes(lik.noise.shape[:-1], shape[:-1]), shape[-1])
        return r
    base = call if call is not None else fixed
    bs = torch.broadcast_shapes(base.shape[:-1], shape[:-1])
    r = base.expand(*bs, shape[-1])
    if kind == "fixed+learn":
        s2 = lik.second_noise.detach()  # ... x 1
        bs = torch.broadcast_shapes(bs, s2.shape[:-1])
        r = r.expand(*bs, shape[-1]) + s2.expand(*bs, 1)
    return r


def _dirichlet(case, ctx, g):
    """DirichletClassificationLikelihood (docstring + Milios et al.): class labels y_i become C regression problems with
    alpha_ic = alpha_eps + [y_i = c], fixed noise sigma2_ic = log(1/alpha_ic + 1) and targets log(alpha_ic) - sigma2_ic / 2, laid
    out (classes x points); calling it on N(m, K) adds exactly that noise (+ the learned one), for the stored labels and for
    labels passed at call time (`targets=`) - with the likelihood's own alpha_eps in both cases"""
    import torch

    from gpytorch.distributions import MultivariateNormal as MVN
    from gpytorch.likelihoods import DirichletClassificationLikelihood as DCL
    from vf import util

    n, C, eps = case["n"], case["classes"], case["alpha_epsilon"]
    dt = torch.double if case["dtype"] == "double" else torch.float
    tol = (1e-12, 1e-12) if dt == torch.double else (1e-5, 1e-5)
    y = torch.randint(0, C, (n,), generator=g)
    y[0] = C - 1  # (the number of classes is read off the largest label)
    lik = DCL(y, alpha_epsilon=eps, learn_additional_noise=case["learn"], dtype=dt)
    if case["learn"]:
        util.randomize(lik, g, 0.5)
    lik.eval()

    def ref(labels):
        k = labels.shape[-1]
        al = torch.full((k, C), eps, dtype=torch.double)
        al[torch.arange(k), labels] += 1.0
        s2 = torch.log(1.0 / al + 1.0)
        return s2.T, (al.log() - 0.5 * s2).T

    s2, tt = ref(y)
    with torch.no_grad():
        extra = lik.second_noise.double().reshape(-1, 1) if case["learn"] else torch.zeros(1, 1, dtype=torch.double)
        ctx.close("dirichlet_noise", lik.noise_covar.noise.double(), s2, tol, cls="stored_noise")
        ctx.close("dirichlet_noise", lik.transformed_targets.double(), tt, tol, cls="transformed_targets")
        ctx.expect("dirichlet_noise", lik.noise_covar.noise.dtype == dt and lik.transformed_targets.dtype == dt, f"dtype of the derived noise / targets is not the requested {dt}")
        for labels, kw, tag in ((y, {}, "stored"), (torch.randint(0, C, (n + 2,), generator=g), None, "call_time"), (torch.randint(0, C, (n,), generator=g), None, "call_time_same_size")):
            k = labels.shape[-1]
            A = util.randn(g, C, k, k).to(dt)
            K = A @ A.transpose(-1, -2) + torch.eye(k, dtype=dt)
            mu = util.randn(g, C, k).to(dt)
            out = lik(MVN(mu, K), **({"targets": labels} if kw is None else kw))
            r2, _ = ref(labels)
            R = torch.diag_embed(r2) + extra.unsqueeze(-1) * torch.eye(k, dtype=torch.double)
            ctx.close("marginal_adds_R", out.covariance_matrix.double() - K.double(), R.expand(C, k, k), tol if dt == torch.double else (1e-4, 1e-4), cls="dirichlet:" + tag, alpha_epsilon=eps)
            ctx.close("marginal_keeps_mean", out.mean, mu, "bit")
    ctx.cell({k_: v_ for k_, v_ in case.items() if k_ != "seed"}, nontrivial=True)


def run_case(case, ctx):
    from vf import util

    g = util.gen(case["seed"])
    if case["kind"] == "dirichlet":
        return _dirichlet(case, ctx, g)
    if case["kind"] == "size_mismatch":
        return _size_mismatch(case, ctx, g)
    if case["kind"] == "reassign":
        return _reassign(case, ctx, g)
    if case["kind"] == "mt":
        return _mt(case, ctx, g)
    if case["kind"] == "list":
        return _list(case, ctx, g)
    if case["kind"] == "fantasy_lik":
        return _fantasy_lik(case, ctx, g)
    return _single(case, ctx, g)


def _elp_ref(y, m, v, r):
    import math

    import torch

    return -0.5 * (((y - m) ** 2 + v) / r + torch.log(r) + math.log(2 * math.pi))


def _lm_ref(y, m, v, r):
    import math

    import torch

    s = v + r
    return -0.5 * ((y - m) ** 2 / s + torch.log(s) + math.log(2 * math.pi))


def _single(case, ctx, g):
    import torch

    from gpytorch.distributions import MultivariateNormal as MVN
    from vf import util

    kind, n, lb, db = case["kind"], case["n"], case["lbatch"], case["dbatch"]
    lik, fixed = _make_lik(kind, g, lb, n)
    _mode(lik, case, ctx)
    mean, C = util.randn(g, *db, n), _spd(g, *db, n)
    d = MVN(mean, C)
    full = torch.broadcast_shapes(torch.Size(lb), torch.Size(db))
    call = (util.rand(g, *full, n) + 0.02) if case["call_noise"] else None
    if case["call_noise"] == "tiny":
        # "the noise passed at call time in place of the stored fixed noise", exactly: also zero / below any stored-noise floor
        call = call * torch.tensor([0.0, 1e-9, 1e-7, 1.0, 1e-12])[torch.arange(n) % 5]
    kw = {"noise": call} if call is not None else {}
    r = _R_single(lik, kind, fixed, call, mean.shape)
    cls = kind + (":call" if call is not None else "") + (":tiny" if case["call_noise"] == "tiny" else "")
    out = lik(d, **kw)
    add = out.covariance_matrix - C
    Rm = torch.diag_embed(r)
    ctx.close("marginal_adds_R", add, Rm.expand(add.shape), (1e-10, 1e-10) if case["call_noise"] == "tiny" else "direct", cls=cls)
    if case["call_noise"] == "tiny" and kind in ("fixed", "gauss"):
        # zero call-time noise: expected_log_prob / log_marginal / forward divide by it; only the marginal is decided here
        ctx.cell({k: v_ for k, v_ in case.items() if k != "seed"}, nontrivial=n > 1)
        return
    y = mean + util.randn(g, *db, n)
    v = torch.diagonal(C, dim1=-2, dim2=-1)
    elp = lik.expected_log_prob(y, d, **kw)
    ref = _elp_ref(y, mean, v, r)
    ctx.close("expected_log_prob", elp, ref.expand(elp.shape), "direct", cls=cls)
    lm = lik.log_marginal(y, d, **kw)
    ctx.close("log_marginal", lm, _lm_ref(y, mean, v, r).expand(lm.shape), "direct", cls=cls)
    if case["seed"] % 2 == 0:
        # targets and latent means sharing a large common offset (un-centred data): the terms depend on y - m only
        off = 10.0 ** (5 + 2 * float(util.rand(g, 1)))
        d_off = MVN(mean + off, C)
        y_off = y + off
        dlt = y_off - (mean + off)  # (what is representable of y - m after the shift)
        ctx.close("expected_log_prob", lik.expected_log_prob(y_off, d_off, **kw), _elp_ref(dlt, torch.zeros_like(dlt), v, r).expand(elp.shape), (1e-8, 1e-8), cls=cls + ":large_common_offset")
        ctx.close("log_marginal", lik.log_marginal(y_off, d_off, **kw), _lm_ref(dlt, torch.zeros_like(dlt), v, r).expand(lm.shape), (1e-8, 1e-8), cls=cls + ":large_common_offset")
    else:
        # targets of another dtype than the distribution (integer counts, single precision): promoted, never the mean rounded
        for ydt in (torch.int64, torch.float32):
            y_c = torch.round(y * 3).to(ydt) if ydt == torch.int64 else y.to(ydt)
            try:
                lm_c = lik.log_marginal(y_c, d, **kw)
                ctx.close("log_marginal", lm_c, _lm_ref(y_c.double(), mean, v, r).expand(lm_c.shape), (1e-10, 1e-10), cls=cls + ":targets_" + str(ydt)[6:])
                elp_c = lik.expected_log_prob(y_c, d, **kw)
                ctx.close("expected_log_prob", elp_c, _elp_ref(y_c.double(), mean, v, r).expand(elp_c.shape), (1e-10, 1e-10), cls=cls + ":targets_" + str(ydt)[6:])
            except Exception as e:
                ctx.info[f"targets_dtype_refused:{str(ydt)[6:]}:{type(e).__name__}"] += 1
    f = util.randn(g, 3, *full, n)
    cond = lik.forward(f, **kw)
    ctx.close("forward_scale", cond.scale, r.sqrt().expand(cond.scale.shape), "direct", cls=cls)
    ctx.close("forward_loc", cond.loc, f.expand(cond.loc.shape), "bit", cls=cls)
    # noise is added once: applying to an already-noisy distribution adds R again, not more
    ctx.cell({k: v_ for k, v_ in case.items() if k != "seed"}, nontrivial=n > 1)


def _reassign(case, ctx, g):
    """the noise in force is the one the likelihood holds NOW: values re-bound / re-initialised between two calls (fixed noise
    through the `noise` property, the noise model's attribute or initialize(); learned noise through its setter) are the ones
    the second call adds - in training and in evaluation mode, for marginal, expected_log_prob and log_marginal alike"""
    import torch

    from gpytorch.distributions import MultivariateNormal as MVN
    from vf import util

    n, kind, how = case["n"], case["lkind"], case["how"]
    lik, fixed = _make_lik(kind, g, [], n)
    _mode(lik, case, ctx)
    d = MVN(util.randn(g, n), _spd(g, n))
    y = d.mean + util.randn(g, n)
    # first use (whatever is cached now belongs to the old values)
    lik(d)
    lik.expected_log_prob(y, d)
    new_fixed = fixed
    with torch.no_grad():
        if kind != "gauss":
            new_fixed = util.rand(g, n) * 0.7 + 0.4
            if how == "property":
                lik.noise = new_fixed
            elif how == "attribute":
                lik.noise_covar.noise = new_fixed
            else:
                lik.noise_covar.initialize(noise=new_fixed)
        if kind == "fixed+learn":
            lik.second_noise = float(lik.second_noise) * 1.9 + 0.3
        if kind == "gauss":
            if how == "initialize":
                lik.initialize(noise=float(lik.noise) * 2.3 + 0.2)
            else:
                lik.noise = float(lik.noise) * 2.3 + 0.2
    r = _R_single(lik, kind, new_fixed, None, d.mean.shape)
    out = lik(d)
    cls = f"reassign:{kind}:{how}"
    ctx.close("marginal_adds_R", out.covariance_matrix - d.covariance_matrix, torch.diag_embed(r), "direct", cls=cls)
    v = d.variance
    ctx.close("expected_log_prob", lik.expected_log_prob(y, d), _elp_ref(y, d.mean, v, r), "direct", cls=cls)
    ctx.close("log_marginal", lik.log_marginal(y, d), _lm_ref(y, d.mean, v, r), "direct", cls=cls)
    ctx.cell({k: v_ for k, v_ in case.items() if k != "seed"})


def _size_mismatch(case, ctx, g):
    import warnings

    import torch

    from gpytorch.distributions import MultivariateNormal as MVN
    from vf import util

    lik, fixed = _make_lik(case["lkind"], g, [], case["n"])
    _mode(lik, case, ctx)
    m_ = case["m"]
    mean, C = util.randn(g, m_), _spd(g, m_)
    with warnings.catch_warnings():
        warnings.simplefilter("ignore")
        out = lik(MVN(mean, C))
    add = out.covariance_matrix - C
    ref = torch.zeros(m_, m_)
    if case["lkind"] == "fixed+learn":
        ref = ref + lik.second_noise.detach().reshape(()) * torch.eye(m_)
    ctx.close("marginal_adds_R", add, ref, "direct", cls=case["lkind"] + ":size_mismatch")
    ctx.close("marginal_keeps_mean", out.mean, mean, "bit")
    ctx.cell({k: v for k, v in case.items() if k != "seed"}, nontrivial=case["lkind"] == "fixed+learn")


def _mt(case, ctx, g):
    import torch

    import gpytorch
    from gpytorch.distributions import MultitaskMultivariateNormal as MT
    from vf import util

    t, n, rank, db = case["t"], case["n"], case["rank"], case["dbatch"]
    lb = case.get("lbatch", [])
    lik = gpytorch.likelihoods.MultitaskGaussianLikelihood(num_tasks=t, rank=rank, has_global_noise=case["global"], has_task_noise=case["task"], **({"batch_shape": torch.Size(lb)} if lb else {}))
    _mode(lik, case, ctx)
    util.randomize(lik, g)
    mean, C = util.randn(g, *db, n, t), _spd(g, *db, n * t)
    d = MT(mean, C, interleaved=case["interleaved"])
    D = torch.zeros(*lb, t, t)
    if case["task"]:
        D = D + (torch.diag_embed(lik.task_noises.detach()) if rank == 0 else lik.task_noise_covar.detach())
    if case["global"]:
        D = D + lik.noise.detach().unsqueeze(-1) * torch.eye(t)
    In = torch.eye(n)
    # Kronecker product per batch element, in the layout of the input distribution
    R = torch.einsum("ij,...ab->...iajb", In, D).reshape(*lb, n * t, n * t) if case["interleaved"] else torch.einsum("...ab,ij->...aibj", D, In).reshape(*lb, n * t, n * t)
    cls = f"mt:rank{min(rank,1)}:{'g' if case['global'] else ''}{'t' if case['task'] else ''}:{'inter' if case['interleaved'] else 'noninter'}" + (":likbatch" if lb else "") + (":n==t" if n == t else "")
    try:
        out = lik(d)
    except Exception as e:
        ctx.fail("marginal_adds_R", f"multitask likelihood (batch {lb}) on a distribution of batch {db} raised {type(e).__name__}: {str(e)[:140]}", "raise", exc=type(e).__name__, lbatch=bool(lb))
        ctx.cell({k: v_ for k, v_ in case.items() if k != "seed"})
        return
    add = out.covariance_matrix - C
    ctx.close("marginal_adds_R", add, R.expand(add.shape), "direct", cls=cls)
    # elementwise closed forms use the diagonal of R in the (n, t) frame, summed over tasks
    rd = torch.diagonal(D, dim1=-2, dim2=-1).unsqueeze(-2).expand(*torch.broadcast_shapes(torch.Size(db), torch.Size(lb)), n, t)
    v = d.variance
    y = mean + util.randn(g, *db, n, t)
    elp = lik.expected_log_prob(y, d)
    ctx.close("expected_log_prob", elp, _elp_ref(y, mean, v, rd).sum(-1), "direct", cls=cls)
    lm = lik.log_marginal(y, d)
    ctx.close("log_marginal", lm, _lm_ref(y, mean, v, rd).sum(-1), "direct", cls=cls)
    # conditional p(y | f) for given function values: independent normals with the noise DIAGONAL in the (n, t) frame
    try:
        fsamp = util.randn(g, 3, *torch.broadcast_shapes(torch.Size(db), torch.Size(lb)), n, t)
        cond = lik.forward(fsamp)
        ctx.close("forward_scale", cond.base_dist.scale if hasattr(cond, "base_dist") else cond.scale, rd.sqrt().expand(fsamp.shape), "direct", cls=cls + ":conditional_scale")
        ctx.close("forward_scale", cond.mean, fsamp, "bit", cls=cls + ":conditional_mean")
    except Exception as e:
        ctx.fail("forward_scale", f"multitask likelihood.forward raised {type(e).__name__}: {str(e)[:120]}", "raise", exc=type(e).__name__)
    ctx.cell({k: v_ for k, v_ in case.items() if k != "seed"})


def _list(case, ctx, g):
    import torch

    import gpytorch
    from gpytorch.distributions import MultivariateNormal as MVN
    from vf import util

    n = case["n"]
    liks, fixeds, ds, calls = [], [], [], []
    for j_, kind in enumerate(case["members"]):
        if case.get("same_object") and j_ == len(case["members"]) - 1:
            lik, fixed = liks[0], fixeds[0]  # ONE likelihood object fills the first and the last slot
        else:
            lik, fixed = _make_lik(kind, g, [], n)
        liks.append(lik)
        fixeds.append(fixed)
        ds.append(MVN(util.randn(g, n), _spd(g, n)))
        calls.append(util.rand(g, n) + 0.02)
    ll = gpytorch.likelihoods.LikelihoodList(*liks)
    _mode(ll, case, ctx)
    none_at = case.get("none_at", [])
    # a None entry: that member gets no call-time noise and uses its stored noise
    passed = [None if i in none_at else c for i, c in enumerate(calls)]
    calls = [None if i in none_at else c for i, c in enumerate(calls)]
    kw = {"noise": passed} if case["call_noise"] else {}
    if case["call_noise"] == "stacked":
        # the per-member noises handed over as ONE stacked tensor (members x points): iterated row by row like a list
        kw = {"noise": torch.stack(passed)}
    try:
        outs = ll(*ds, **kw)
    except Exception as e:
        ctx.fail("list_memberwise", f"LikelihoodList.__call__ raised {type(e).__name__}: {str(e)[:120]}", "raise", exc=type(e).__name__)
        ctx.cell({k: v for k, v in case.items() if k != "seed"})
        return
    ctx.expect("list_length", len(outs) == len(liks), f"{len(outs)} outputs for {len(liks)} members")
    for i, (lik, kind, fixed, d, call, out) in enumerate(zip(liks, case["members"], fixeds, ds, calls, outs)):
        r = _R_single(lik, kind, fixed, call if case["call_noise"] else None, d.mean.shape)
        ctx.close("list_memberwise", out.covariance_matrix - d.covariance_matrix, torch.diag_embed(r), "direct", cls="list:" + kind + (":call" if case["call_noise"] else ""), member=i)
        ctx.close("list_memberwise_mean", out.mean, d.mean, "bit", member=i)
    ys = [d.mean + util.randn(g, n) for d in ds]
    if not case["call_noise"]:
        # expected_log_prob of the list: one (observations, distribution) tuple per member, each member's own closed form
        try:
            got_e = ll.expected_log_prob(*[(y_, d_) for y_, d_ in zip(ys, ds)])
            ctx.expect("list_length", len(got_e) == len(liks), f"{len(got_e)} expected_log_prob outputs for {len(liks)} members")
            for i, (lik, kind, fixed, d_, y_, ge) in enumerate(zip(liks, case["members"], fixeds, ds, ys, got_e)):
                r_ = _R_single(lik, kind, fixed, None, d_.mean.shape)
                ctx.close("list_memberwise", ge, _elp_ref(y_, d_.mean, d_.variance, r_), "direct", cls="list:expected_log_prob:" + kind, member=i)
        except Exception as e:
            ctx.fail("list_memberwise", f"LikelihoodList.expected_log_prob raised {type(e).__name__}: {str(e)[:120]}", "raise", exc=type(e).__name__)
    fs = [util.randn(g, 2, n) for _ in ds]
    try:
        conds = ll.forward(*fs, **kw)
        for i, (lik, kind, fixed, call, cond) in enumerate(zip(liks, case["members"], fixeds, calls, conds)):
            r = _R_single(lik, kind, fixed, call if case["call_noise"] else None, torch.Size([n]))
            ctx.close("list_forward_scale", cond.scale, r.sqrt().expand(cond.scale.shape), "direct", member=i)
    except Exception as e:
        ctx.fail("list_forward_scale", f"LikelihoodList.forward raised {type(e).__name__}: {str(e)[:120]}", "raise", exc=type(e).__name__)
    ctx.cell({k: v for k, v in case.items() if k != "seed"})


def _fantasy_lik(case, ctx, g):
    """get_fantasy_likelihood(noise=new) carries the stored fixed noise followed by the new noise; the learned sigma^2 is
    still added exactly once (history: repeated fantasization rounds)."""
    import torch

    from gpytorch.distributions import MultivariateNormal as MVN
    from vf import util

    n, m, fb = case["n"], case["m"], case["fbatch"]
    lik, fixed = _make_lik(case["lkind"], g, [], n)
    cur, total = lik, fixed
    for r in range(case["rounds"]):
        new = util.rand(g, *fb, m) + 0.03
        cur = cur.get_fantasy_likelihood(noise=new)
        total = torch.cat([total.expand(*new.shape[:-1], total.shape[-1]), new], -1)
    N = total.shape[-1]
    mean, C = util.randn(g, *fb, N), _spd(g, *fb, N)
    d = MVN(mean, C)
    out = cur(d)
    r_ref = total
    if case["lkind"] == "fixed+learn":
        r_ref = r_ref + lik.second_noise.detach()
    add = out.covariance_matrix - C
    ctx.close("fantasy_likelihood_noise", add, torch.diag_embed(r_ref).expand(add.shape), "direct", cls="fantasy_lik:" + case["lkind"])
    # the source likelihood is untouched
    src = lik(MVN(util.randn(g, n), _spd(g, n)))
    ctx.close("fantasy_likelihood_source_untouched", lik.noise, fixed + (lik.second_noise.detach() if case["lkind"] == "fixed+learn" else 0.0), "direct")
    ctx.cell({k: v for k, v in case.items() if k != "seed"})
