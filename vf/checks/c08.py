"""C08 - batch mode equals independent replicas (no cross-talk between batch elements).

Oracle: for every element b of the broadcast batch a NON-batched replica is built through the public constructors, the
b-th slice of every parameter/buffer is copied in through state_dict (respecting each tensor's own broadcast), it is
fed the b-th slice of the data, and its output must equal output[b] of the batched object. Parameters are drawn
different per batch element (identical values would hide cross-talk).
"""
import itertools
import random

PROPERTY = "C08"
RULE = (
    'case = (module kind in {kernel (14 specs), mean, likelihood marginal, exact GP posterior+MLL, SVGP q(f)+KL+ELBO, model list/SumMLL}, '
    'parameter batch shape x data batch shape from {(), (2), (3,2), (1,2), (3,1)} - every broadcastable pair -, target-only batch dimensions for '
    'the MLL, every strategy x variational distribution, seed); every element of the broadcast batch is compared; distinct = cell without seed; '
    'non-trivial iff the broadcast batch has >= 2 elements'
    '; pass 5: leave-one-out objective replicas (where it evaluates); IndependentMultitaskVariationalStrategy against per-task replicas with and without task_indices'
    '; pass 6: NNVariationalStrategy (VNNGP) against per-element replicas for batch ranks 1 and 2'
    '; pass 7: model lists whose members share modules; SVGP inputs that are the inducing points; one training step on a batch of SVGPs (gradients of the summed ELBO w.r.t. every batched parameter, state after an NGD / SGD step on natural, tril-natural, Cholesky and mean-field q(u)) against the replicas\' own steps'
    "; pass 8: batches evaluated (both modes) while their elements still hold identical defaults, before they diverge by training or by load_state_dict"
    "; pass 9: model lists with more than ten members (positions of training data); batched inducing-point kernels with signal variances orders of magnitude apart against replicas"
)
REQUIRED = ["kernel_replica", "mean_replica", "likelihood_replica", "posterior_replica", "mll_replica", "svgp_replica", "kl_replica", "elbo_replica", "model_list_identical", "sum_mll_is_mean", "svgp_step_replica"]
ASSUMPTIONS = ["the leave-one-out objective is compared element-wise wherever it evaluates; it refuses (explicit reshape error) parameters with more batch dimensions than the targets - counted under info:, not a violation (the statement names marginal log likelihood, ELBO and KL)", "replicas are built by slicing the batched object's state_dict: a tensor with batch dims (possibly size-1) is indexed with the element's index (0 on size-1 dims)"]
ANCHOR_FILES = ["gpytorch/kernels/", "gpytorch/means/", "gpytorch/likelihoods/", "gpytorch/models/", "gpytorch/mlls/", "gpytorch/variational/"]

SHAPES = [[], [2], [3, 2], [1, 2], [3, 1]]
KSPECS = [
    {"k": "rbf"}, {"k": "rbf", "ard": True}, {"k": "matern", "nu": 1.5, "ard": True}, {"k": "matern", "nu": 0.5}, {"k": "rq"}, {"k": "periodic"}, {"k": "linear"},
    {"k": "poly", "power": 2}, {"k": "cosine"}, {"k": "pp", "q": 1}, {"k": "sm", "mixtures": 2},
    {"k": "scale", "base": {"k": "matern", "nu": 2.5, "ard": True}},
    {"k": "sum", "parts": [{"k": "scale", "base": {"k": "rbf"}}, {"k": "linear"}]},
    {"k": "prod", "parts": [{"k": "rbf", "active_dims": [0]}, {"k": "scale", "base": {"k": "periodic", "active_dims": [1]}}]},
    {"k": "constant"}, {"k": "multitask"}, {"k": "rbfgrad"}, {"k": "m52grad"},
]
D = 2


def _pairs():
    import torch

    out = []
    for pb, db in itertools.product(SHAPES, SHAPES):
        try:
            torch.broadcast_shapes(torch.Size(pb), torch.Size(db))
        except RuntimeError:
            continue
        out.append((pb, db))
    return out


def cases(tier, seed):
    rnd = random.Random(8000 + seed)
    reps = 1 if tier == "quick" else 30
    pairs = _pairs()
    for _ in range(reps):
        for ki, spec in enumerate(KSPECS):
            for pb, db in pairs:
                if tier == "quick" and rnd.random() < 0.0 and (pb, db) != ([2], []):
                    continue
                yield {"kind": "kernel", "kernel": spec, "pbatch": pb, "dbatch": db, "seed": rnd.randrange(10**6)}
        for spec in ({"k": "periodic"}, {"k": "cosine"}, {"k": "pp", "q": 1}, {"k": "matern", "nu": 1.5}, {"k": "rbf"}, {"k": "rq"}):
            for pb, db in (([], [2]), ([2], [2]), ([3], [3])):
                yield {"kind": "kernel", "kernel": spec, "pbatch": pb, "dbatch": db, "far": True, "seed": rnd.randrange(10**6)}
        for pb, db in pairs:
            for mean in ("constant", "linear"):
                yield {"kind": "mean", "mean": mean, "pbatch": pb, "dbatch": db, "seed": rnd.randrange(10**6)}
            for lik in ("gauss", "fixed", "fixed+learn"):
                yield {"kind": "lik", "lik": lik, "pbatch": pb, "dbatch": db, "seed": rnd.randrange(10**6)}
            yield {"kind": "exact", "pbatch": pb, "dbatch": db, "seed": rnd.randrange(10**6)}
        for pb, db, zb in itertools.product([[], [2], [3, 2]], [[], [2], [3, 2]], ["none", "batch"]):
            for strat, dist in itertools.product(["VariationalStrategy", "UnwhitenedVariationalStrategy"], ["CholeskyVariationalDistribution", "MeanFieldVariationalDistribution"]):
                if tier == "quick" and rnd.random() < 0.0 and not (pb and dist.startswith("MeanField")):
                    continue
                yield {"kind": "svgp", "pbatch": pb, "dbatch": db, "zbatch": zb, "strategy": strat, "dist": dist, "seed": rnd.randrange(10**6)}
        # a training step on a batch of SVGPs: gradients of the summed objective w.r.t. every (batched) parameter, and the state
        # after one optimiser step (NGD on natural parameters, SGD otherwise) = the replicas' own gradients / steps
        for pb, zb_, strat, dist in itertools.product([[2], [3, 2]], ["none", "batch"], ["VariationalStrategy", "UnwhitenedVariationalStrategy"],
                                                      ["NaturalVariationalDistribution", "TrilNaturalVariationalDistribution", "CholeskyVariationalDistribution", "MeanFieldVariationalDistribution"]):
            if zb_ == "none" and dist.startswith(("Chol", "Mean")) and tier == "quick":
                continue
            yield {"kind": "svgp_step", "pbatch": pb, "dbatch": rnd.choice([[], pb]), "zbatch": zb_, "strategy": strat, "dist": dist, "seed": rnd.randrange(10**6)}
        for share, kern in itertools.product((["kernel"], ["lik"], ["mean"], ["kernel", "lik", "mean"]), ("matern", "kiss")):
            yield {"kind": "shared_modules", "share": share, "kernel": kern, "members": rnd.choice([[4, 6], [5, 3, 4]]), "seed": rnd.randrange(10**6)}
        for bb in ([2], [2, 3], [3, 2], [1, 2]):
            yield {"kind": "vnngp", "batch": bb, "seed": rnd.randrange(10**6)}
        for strat, (pb_, db_, zb_) in itertools.product(["VariationalStrategy", "UnwhitenedVariationalStrategy"], [([], [2], "none"), ([2], [2], "none"), ([2], [2], "batch"), ([], [3, 2], "none")]):
            yield {"kind": "svgp", "pbatch": pb_, "dbatch": db_, "zbatch": zb_, "strategy": strat, "dist": "CholeskyVariationalDistribution", "x_at_z": True, "seed": rnd.randrange(10**6)}
        for strat, how, (pb_, zb_) in itertools.product(["VariationalStrategy", "UnwhitenedVariationalStrategy"], ["train", "load"], [([2], "none"), ([3, 2], "none"), ([2], "batch")]):
            yield {"kind": "svgp", "pbatch": pb_, "dbatch": [], "zbatch": zb_, "strategy": strat, "dist": "CholeskyVariationalDistribution", "tied_first": how, "seed": rnd.randrange(10**6)}
        for T_, strat in itertools.product([2, 3], ["VariationalStrategy", "UnwhitenedVariationalStrategy"]):
            yield {"kind": "indep_mt", "T": T_, "strategy": strat, "seed": rnd.randrange(10**6)}
        for pb, db in (([2], [2]), ([], [3]), ([3], [3]), ([2], [3, 2])):
            yield {"kind": "exact", "pbatch": pb, "dbatch": db, "nan_fill": True, "seed": rnd.randrange(10**6)}
        # targets carrying batch dimensions the inputs and the model do not have (data broadcast against each other)
        for pb, db, yb in (([], [], [2]), ([], [], [3, 2]), ([2], [], [3, 2]), ([], [2], [3, 2]), ([2], [2], [3, 2])):
            yield {"kind": "exact", "pbatch": pb, "dbatch": db, "ybatch": yb, "seed": rnd.randrange(10**6)}
        for members in ([4, 4], [3, 7], [5, 2, 9], [3, 4, 5, 6, 3, 4, 5, 6, 3, 4, 5, 7], [2] * 23):
            # (also more than ten members: two-digit positions)
            yield {"kind": "modellist", "members": members, "seed": rnd.randrange(10**6)}
        # inducing-point (SGPR) kernels in batch mode with very different signal variances per element
        for pb_, zb_ in (([3], "batch"), ([3], "none"), ([2, 3], "batch")):
            yield {"kind": "sgpr_kernel", "pbatch": pb_, "zbatch": zb_, "seed": rnd.randrange(10**6)}


def _sl(t, tb, b, full):
    """element b (index into the broadcast batch `full`) of tensor t whose leading batch shape is tb"""
    off = len(full) - len(tb)
    idx = tuple(b[off + i] if s != 1 else 0 for i, s in enumerate(tb))
    return t[idx] if idx else t


def _load_slice(batched, replica, b, full):
    sd = batched.state_dict()
    rsd = replica.state_dict()
    new = {}
    for k in rsd:
        src = sd[k]
        nb = src.dim() - rsd[k].dim()
        new[k] = (_sl(src, src.shape[:nb], b, full) if nb > 0 else src).clone()
    replica.load_state_dict(new)


def run_case(case, ctx):
    from vf import util

    g = util.gen(case["seed"])
    return {"kernel": _kernel, "mean": _mean, "lik": _lik, "exact": _exact, "svgp": _svgp, "svgp_step": _svgp_step, "indep_mt": _indep_mt, "vnngp": _vnngp, "shared_modules": _shared_modules, "modellist": _modellist, "sgpr_kernel": _sgpr_kernel}[case["kind"]](case, ctx, g)


def _ex(t, full, *rest):
    return t.expand(*full, *rest) if (full or rest) else t


def _elements(full):
    return list(itertools.product(*[range(s) for s in full])) if full else [()]


def _cell(case, full):
    n = 1
    for s in full:
        n *= s
    return {k: v for k, v in case.items() if k != "seed"}, n >= 2


def _kernel(case, ctx, g):
    import torch

    from vf import util

    pb, db = case["pbatch"], case["dbatch"]
    full = list(torch.broadcast_shapes(torch.Size(pb), torch.Size(db)))
    kern = util.build_kernel(case["kernel"], D, pb)
    util.randomize(kern, g, 0.6)
    x1, x2 = util.randn(g, *db, 4, D), util.randn(g, *db, 3, D)
    if case.get("far"):
        # many rows, every batch element in its own far-away region: an element's values must not depend on where the
        # OTHER elements live (shared shifts / normalisations)
        x1, x2 = util.randn(g, *db, 30, D), util.randn(g, *db, 27, D)
        off = 3e4 * (1 + torch.arange(x1.shape[0], dtype=torch.double)).reshape(-1, *([1] * (x1.dim() - 1))) if db else 3e4
        x1, x2 = x1 + off, x2 + off
    try:
        with torch.no_grad():
            K = kern(x1, x2).to_dense()
            Kd = kern(x1, diag=True)
    except Exception as e:
        ctx.fail("kernel_replica", f"batched kernel call raised {type(e).__name__}: {str(e)[:140]}", "raise", exc=type(e).__name__, kname=case["kernel"]["k"], prank=len(pb), drank=len(db), pbatch=pb, dbatch=db)
        ctx.cell(*_cell(case, full))
        return
    ctx.expect("kernel_batch_shape", list(K.shape[:-2]) == full, f"batch shape {list(K.shape[:-2])} expected {full}", pbatch=pb, dbatch=db)
    Ke = _ex(K, full, *K.shape[-2:])
    for b in _elements(full):
        rep = util.build_kernel(case["kernel"], D, [])
        _load_slice(kern, rep, b, full)
        with torch.no_grad():
            ref = rep(_sl(x1, db, b, full), _sl(x2, db, b, full)).to_dense()
        ctx.close("kernel_replica", Ke[b], ref, "direct" if not case.get("far") else (1e-7, 1e-7), cls="kernel:" + case["kernel"]["k"] + (":far" if case.get("far") else ""), element=list(b), pbatch=pb, dbatch=db)
    ctx.cell(*_cell(case, full))


def _mean(case, ctx, g):
    import torch

    from vf import util

    pb, db = case["pbatch"], case["dbatch"]
    full = list(torch.broadcast_shapes(torch.Size(pb), torch.Size(db)))
    mod = util.build_mean(case["mean"], D, pb)
    util.randomize(mod, g, 1.0)
    x = util.randn(g, *db, 4, D)
    try:
        with torch.no_grad():
            out = mod(x)
    except Exception as e:
        ctx.fail("mean_replica", f"batched mean call raised {type(e).__name__}: {str(e)[:140]}", "raise", exc=type(e).__name__, prank=len(pb), drank=len(db), pbatch=pb, dbatch=db)
        ctx.cell(*_cell(case, full))
        return
    oe = _ex(out, full, 4)
    for b in _elements(full):
        rep = util.build_mean(case["mean"], D, [])
        _load_slice(mod, rep, b, full)
        with torch.no_grad():
            ctx.close("mean_replica", oe[b], rep(_sl(x, db, b, full)), "direct", cls="mean:" + case["mean"], element=list(b))
    ctx.cell(*_cell(case, full))


def _mk_lik(kind, pb, noise):
    import torch

    import gpytorch

    if kind == "gauss":
        return gpytorch.likelihoods.GaussianLikelihood(batch_shape=torch.Size(pb))
    return gpytorch.likelihoods.FixedNoiseGaussianLikelihood(noise=noise, learn_additional_noise=kind == "fixed+learn", batch_shape=torch.Size(pb))


def _lik(case, ctx, g):
    import torch

    from gpytorch.distributions import MultivariateNormal as MVN
    from vf import util

    pb, db = case["pbatch"], case["dbatch"]
    full = list(torch.broadcast_shapes(torch.Size(pb), torch.Size(db)))
    n = 4
    noise = util.rand(g, *pb, n) + 0.05
    lik = _mk_lik(case["lik"], pb, noise)
    util.randomize(lik, g, 0.6)
    mean = util.randn(g, *db, n)
    a = util.randn(g, *db, n, n)
    C = a @ a.transpose(-1, -2) / n + 0.3 * torch.eye(n)
    y = util.randn(g, *db, n)
    try:
        with torch.no_grad():
            out = lik(MVN(mean, C))
            cov = out.covariance_matrix
            elp = lik.expected_log_prob(y, MVN(mean, C))
    except Exception as e:
        ctx.fail("likelihood_replica", f"batched likelihood call raised {type(e).__name__}: {str(e)[:140]}", "raise", exc=type(e).__name__, prank=len(pb), drank=len(db), pbatch=pb, dbatch=db)
        ctx.cell(*_cell(case, full))
        return
    ce, ee = _ex(cov, full, n, n), _ex(elp, full, n)
    for b in _elements(full):
        rep = _mk_lik(case["lik"], [], _sl(noise, pb, b, full).clone())
        _load_slice(lik, rep, b, full)
        with torch.no_grad():
            d = MVN(_sl(mean, db, b, full), _sl(C, db, b, full))
            ctx.close("likelihood_replica", ce[b], rep(d).covariance_matrix, "direct", cls="lik:" + case["lik"], element=list(b))
            ctx.close("likelihood_replica", ee[b], rep.expected_log_prob(_sl(y, db, b, full), d), "direct", cls="lik:" + case["lik"] + ":elp", element=list(b))
    ctx.cell(*_cell(case, full))


def _mk_exact(pb, X, y):
    import torch

    import gpytorch
    from vf import util

    B = torch.Size(pb)
    P = gpytorch.priors
    # element-wise priors on every hyper-parameter (ARD lengthscales included): the objective of element b contains the
    # prior terms of element b's parameters only
    lik = gpytorch.likelihoods.GaussianLikelihood(batch_shape=B, noise_prior=P.GammaPrior(1.1, 2.0))
    k = gpytorch.kernels.ScaleKernel(gpytorch.kernels.MaternKernel(nu=2.5, ard_num_dims=D, batch_shape=B, lengthscale_prior=P.GammaPrior(2.0, 1.5)), batch_shape=B, outputscale_prior=P.LogNormalPrior(0.1, 0.7))
    return util.GP(X, y, lik, gpytorch.means.ConstantMean(batch_shape=B, constant_prior=P.NormalPrior(0.0, 1.5)), k)


def _exact(case, ctx, g):
    import torch

    import gpytorch
    from vf import util

    pb, db = case["pbatch"], case["dbatch"]
    yb = case.get("ybatch", db)
    full = list(torch.broadcast_shapes(torch.Size(pb), torch.Size(db), torch.Size(yb)))
    n, ns = 6, 3
    X, y, xs = util.randn(g, *db, n, D), util.randn(g, *yb, n), util.randn(g, *db, ns, D)
    import contextlib

    from gpytorch import settings as S

    nanfill = bool(case.get("nan_fill"))
    if nanfill:
        # missing targets at positions that differ between batch elements, policy 'fill' (the per-element policy): element b
        # equals the replica that misses element b's positions only
        flat = y.reshape(-1, n)
        for r_ in range(flat.shape[0]):
            flat[r_, (r_ * 2 + 1) % n] = float("nan")
            if r_ % 2:
                flat[r_, (r_ * 3) % n] = float("nan")
    pol = S.observation_nan_policy("fill") if nanfill else contextlib.nullcontext()
    m = _mk_exact(pb, X, y)
    util.randomize(m, g, 0.5)
    yonly = "ybatch" in case  # targets with batch dimensions of their own: the marginal likelihood broadcasts, prediction refuses (explicit error)
    try:
        with torch.no_grad(), pol:
            if not yonly:
                m.eval()
                out = m(xs)
                mean, cov = out.mean, out.covariance_matrix
            m.train()
            try:
                # (the exact MLL documents that it does not support the 'fill' policy: posterior only in those cells)
                v = None if nanfill else gpytorch.mlls.ExactMarginalLogLikelihood(m.likelihood, m)(m(X), y)
            except Exception as e_mll:
                import traceback

                ctx.fail("mll_replica", f"batched exact MLL raised {type(e_mll).__name__}: {str(e_mll)[:140]}", "raise", exc=type(e_mll).__name__, param_batch_rank=len(pb), result_batch_rank=len(full),
                         in_prior_terms="_add_other_terms" in traceback.format_exc())
                v = None
            # the leave-one-out objective of the same model (same prior terms, scaled by ITS element's number of data)
            vl = None
            if not nanfill:
                try:
                    vl = gpytorch.mlls.LeaveOneOutPseudoLikelihood(m.likelihood, m)(m(X), y)
                except Exception as e_loo:
                    import traceback

                    # the LOO objective is not among the batched outputs the statement names and refuses (explicit reshape
                    # error) parameters with more batch dimensions than the targets: compared where it evaluates
                    ctx.hit("info:loo_refuses_parameter_batch_beyond_targets")
    except Exception as e:
        ctx.fail("posterior_replica", f"batched exact GP raised {type(e).__name__}: {str(e)[:140]}", "raise", exc=type(e).__name__, prank=len(pb), drank=len(db), pbatch=pb, dbatch=db,
                 param_batch_rank=len(pb), result_batch_rank=len(full), in_prior_terms="_add_other_terms" in __import__("traceback").format_exc())
        ctx.cell(*_cell(case, full))
        return
    if yonly:
        if v is None:
            ctx.cell(*_cell(case, full))
            return
        ctx.expect("exact_batch_shape", list(v.shape) == full, f"mll {list(v.shape)} expected {full}")
        ve = _ex(v, full)
    else:
        ctx.expect("exact_batch_shape", list(mean.shape[:-1]) == full and (v is None or list(v.shape) == full), f"posterior batch {list(mean.shape[:-1])} mll {None if v is None else list(v.shape)} expected {full}")
        me, ce, ve = _ex(mean, full, ns), _ex(cov, full, ns, ns), (_ex(v, full) if v is not None else None)
    for b in _elements(full):
        Xb, yb_, xsb = _sl(X, db, b, full), _sl(y, yb, b, full), _sl(xs, db, b, full)
        r = _mk_exact([], Xb, yb_)
        _load_slice(m, r, b, full)
        with torch.no_grad(), (S.observation_nan_policy("fill") if nanfill else contextlib.nullcontext()):
            r.eval()
            ro = r(xsb)
            r.train()
            rv = None if nanfill else gpytorch.mlls.ExactMarginalLogLikelihood(r.likelihood, r)(r(Xb), yb_)
            rvl = None if (nanfill or vl is None) else gpytorch.mlls.LeaveOneOutPseudoLikelihood(r.likelihood, r)(r(Xb), yb_)
        if not yonly:
            ctx.close("posterior_replica", torch.cat([me[b], ce[b].reshape(-1)]), torch.cat([ro.mean, ro.covariance_matrix.reshape(-1)]), "direct", cls="exact:posterior", element=list(b))
        if ve is not None:
            ctx.close("mll_replica", ve[b], rv, "direct", cls="exact:mll" + (":ybatch" if yonly else ""), element=list(b), param_batch_rank=len(pb), result_batch_rank=len(full))
        if vl is not None and list(vl.shape) == full:
            ctx.close("mll_replica", _ex(vl, full)[b], rvl, "direct", cls="exact:loo" + (":ybatch" if yonly else ""), element=list(b), param_batch_rank=len(pb), result_batch_rank=len(full), objective="loo")
    ctx.cell(*_cell(case, full))


def _mk_svgp(pb, Z, strat, dist):
    import torch

    import gpytorch

    V = gpytorch.variational
    B = torch.Size(pb)

    class M(gpytorch.models.ApproximateGP):
        def __init__(s):
            zb = Z.shape[:-2]
            vb = torch.broadcast_shapes(B, zb)
            vd = getattr(V, dist)(Z.size(-2), batch_shape=vb)
            vs = getattr(V, strat)(s, Z, vd, learn_inducing_locations=True)
            super().__init__(vs)
            s.mean_module = gpytorch.means.ConstantMean(batch_shape=B)
            s.covar_module = gpytorch.kernels.ScaleKernel(gpytorch.kernels.RBFKernel(batch_shape=B), batch_shape=B)

        def forward(s, x):
            return gpytorch.distributions.MultivariateNormal(s.mean_module(x), s.covar_module(x))

    return M()


def _svgp(case, ctx, g):
    import torch

    import gpytorch
    from vf import util

    pb, db = case["pbatch"], case["dbatch"]
    zb = pb if case["zbatch"] == "batch" else []
    full = list(torch.broadcast_shapes(torch.Size(pb), torch.Size(db)))
    M_, n = 4, 7
    Z = util.randn(g, *zb, M_, D)
    X, y = util.randn(g, *db, n, D), util.randn(g, *db, n)
    if case.get("x_at_z"):
        # the inputs ARE the inducing points (broadcast against the data batch): same element-wise answer as for any other input
        n = M_
        X, y = Z.expand(*torch.broadcast_shapes(torch.Size(zb), torch.Size(db)), M_, D).clone(), util.randn(g, *torch.broadcast_shapes(torch.Size(zb), torch.Size(db)), M_)
        db = list(X.shape[:-2])
    m = _mk_svgp(pb, Z, case["strategy"], case["dist"])
    lik = gpytorch.likelihoods.GaussianLikelihood(batch_shape=torch.Size(pb))
    if case.get("tied_first"):
        # freshly constructed, every batch element still holds the same default hyper-parameters (and, un-batched Z, the same
        # inducing points): evaluated once in that state, in both modes, before the elements diverge
        with torch.no_grad():
            m.eval()
            m(X)
            m.train()
            m(X)
            if case["tied_first"] == "load":
                m.eval()
                m(X)  # (the divergence then arrives through load_state_dict while in evaluation mode)
    if case.get("tied_first") == "load":
        m2_ = _mk_svgp(pb, Z, case["strategy"], case["dist"])
        util.randomize(m2_, g, 0.4)
        m.load_state_dict(m2_.state_dict())
    else:
        util.randomize(m, g, 0.4)
    util.randomize(lik, g, 0.4)
    if case.get("x_at_z"):
        Zm = m.variational_strategy.inducing_points.detach()  # (the inducing locations are parameters: moved by randomize)
        X = Zm.expand(*torch.broadcast_shapes(Zm.shape[:-2], torch.Size(db)), M_, D).clone()
    for mod in m.modules():
        if hasattr(mod, "variational_params_initialized"):
            mod.variational_params_initialized.fill_(1)
    try:
        with torch.no_grad():
            m.eval()
            out = m(X)
            mean, cov = out.mean, out.covariance_matrix
            m.train()
            lik.train()
            elbo = gpytorch.mlls.VariationalELBO(lik, m, num_data=n)(m(X), y)
            kl = m.variational_strategy.kl_divergence()
    except Exception as e:
        ctx.fail("svgp_replica", f"batched SVGP raised {type(e).__name__}: {str(e)[:140]}", "raise", exc=type(e).__name__, prank=len(pb), drank=len(db), pbatch=pb, dbatch=db, zbatch=case["zbatch"], strategy=case["strategy"])
        ctx.cell(*_cell(case, full))
        return
    vfull = list(torch.broadcast_shapes(torch.Size(pb), torch.Size(zb)))
    me, ce, ee = _ex(mean, full, n), _ex(cov, full, n, n), _ex(elbo, full)
    kfull = list(kl.shape)
    for b in _elements(full):
        Zb = _sl(Z, zb, b, full)
        r = _mk_svgp([], Zb.clone(), case["strategy"], case["dist"])
        rl = gpytorch.likelihoods.GaussianLikelihood()
        _load_slice(m, r, b, full)
        _load_slice(lik, rl, b, full)
        for mod in r.modules():
            if hasattr(mod, "variational_params_initialized"):
                mod.variational_params_initialized.fill_(1)
        Xb, yb = _sl(X, db, b, full), _sl(y, db, b, full)
        with torch.no_grad():
            r.eval()
            ro = r(Xb)
            r.train()
            rl.train()
            re_ = gpytorch.mlls.VariationalELBO(rl, r, num_data=n)(r(Xb), yb)
            rk = r.variational_strategy.kl_divergence()
        ctx.close("svgp_replica", torch.cat([me[b], ce[b].reshape(-1)]), torch.cat([ro.mean, ro.covariance_matrix.reshape(-1)]), (1e-7, 1e-7), cls="svgp:" + case["strategy"], element=list(b))
        ctx.close("elbo_replica", ee[b], re_, (1e-7, 1e-7), cls="svgp:elbo", element=list(b))
        if kfull:
            kb = _sl(kl, kfull, b[len(full) - len(kfull):] if len(kfull) <= len(full) else b, kfull) if len(kfull) <= len(full) else kl
            ctx.close("kl_replica", kb, rk, (1e-7, 1e-7), cls="svgp:kl", element=list(b))
        else:
            ctx.close("kl_replica", kl, rk, (1e-7, 1e-7), cls="svgp:kl", element=list(b))
    ctx.cell(*_cell(case, full))


def _svgp_step(case, ctx, g):
    import torch

    import gpytorch
    from vf import util
    from vf.checks import c14

    pb, db = case["pbatch"], case["dbatch"]
    zb = pb if case["zbatch"] == "batch" else []
    full = list(pb)
    M_, n = 4, 7
    Z = util.randn(g, *zb, M_, D)
    X, y = util.randn(g, *db, n, D), util.randn(g, *db, n)
    m = _mk_svgp(pb, Z, case["strategy"], case["dist"])
    lik = gpytorch.likelihoods.GaussianLikelihood(batch_shape=torch.Size(pb))
    util.randomize(m.mean_module, g, 0.4)
    util.randomize(m.covar_module, g, 0.4)
    util.randomize(lik, g, 0.4)
    vd = m.variational_strategy._variational_distribution
    with torch.no_grad():
        c14._randomize_vd(vd, case["dist"], g)
    for mod in m.modules():
        if hasattr(mod, "variational_params_initialized"):
            mod.variational_params_initialized.fill_(1)
    natural = "Natural" in case["dist"]

    def step(model, l_, X_, y_):
        model.train()
        l_.train()
        vparams = list(model.variational_parameters())
        opt = gpytorch.optim.NGD(vparams, num_data=n, lr=0.1) if natural else torch.optim.SGD(vparams, lr=0.05)
        params = dict(model.named_parameters())
        params.update({"lik." + k: v for k, v in l_.named_parameters()})
        for p_ in params.values():
            p_.grad = None
        loss = -gpytorch.mlls.VariationalELBO(l_, model, num_data=n)(model(X_), y_).sum()
        loss.backward()
        grads = {k: (v.grad.clone() if v.grad is not None else None) for k, v in params.items()}
        opt.step()
        with torch.no_grad():
            model.eval()
            o = model(X_)
            after = (o.mean.clone(), o.covariance_matrix.clone())
        return grads, after, {k: v.detach().clone() for k, v in params.items()}

    # replicas first (they are loaded from the batched model's state BEFORE it steps)
    reps = {}
    for b in _elements(full):
        r = _mk_svgp([], _sl(Z, zb, b, full).clone(), case["strategy"], case["dist"])
        rl = gpytorch.likelihoods.GaussianLikelihood()
        _load_slice(m, r, b, full)
        _load_slice(lik, rl, b, full)
        for mod in r.modules():
            if hasattr(mod, "variational_params_initialized"):
                mod.variational_params_initialized.fill_(1)
        reps[b] = (r, rl)
    try:
        gB, aB, pB = step(m, lik, X, y)
    except Exception as e:
        ctx.fail("svgp_step_replica", f"training step on a batch of SVGPs raised {type(e).__name__}: {str(e)[:140]}", "raise", exc=type(e).__name__, pbatch=pb, dist=case["dist"], strategy=case["strategy"])
        ctx.cell(*_cell(case, full))
        return
    for b, (r, rl) in reps.items():
        gR, aR, pR = step(r, rl, _sl(X, db, b, full), _sl(y, db, b, full))
        for k, gr in gR.items():
            gb = gB.get(k)
            if gr is None or gb is None:
                continue
            nb = gb.dim() - gr.dim()
            if nb != len(full) and not (nb == 0 and not full):
                continue  # a parameter shared by all elements (un-batched inducing points): its gradient is the sum over elements
            ctx.close("svgp_step_replica", _sl(gb, gb.shape[:nb], b, full), gr, (1e-7, 1e-6), cls=f"grad:{k.split('.')[-1]}:{case['dist'][:6]}", element=list(b), param=k)
        ctx.close("svgp_step_replica", torch.cat([_ex(aB[0], full, n)[b], _ex(aB[1], full, n, n)[b].reshape(-1)]), torch.cat([aR[0], aR[1].reshape(-1)]), (1e-7, 1e-6), cls=f"after_step:{case['dist'][:6]}:{case['strategy'][:6]}", element=list(b))
    ctx.cell(*_cell(case, full))


def _vnngp(case, ctx, g):
    """nearest-neighbour variational GP (NNVariationalStrategy) with a batch shape: the evaluation-mode q(f) of element b is
    that of the non-batched model carrying the b-th slice of inducing points, variational and hyper-parameters"""
    import torch

    import gpytorch

    from vf import util

    V = gpytorch.variational
    bs = torch.Size(case["batch"])
    M_, n = 9, 5
    Z = util.rand(g, *bs, M_, D)

    def mk(Z_, b_):
        class M(gpytorch.models.ApproximateGP):
            def __init__(s):
                vd = V.MeanFieldVariationalDistribution(M_, batch_shape=b_)
                vs = V.NNVariationalStrategy(s, Z_, vd, k=3, training_batch_size=M_, jitter_val=1e-3)
                super().__init__(vs)
                s.mean_module = gpytorch.means.ConstantMean(batch_shape=b_)
                s.covar_module = gpytorch.kernels.ScaleKernel(gpytorch.kernels.RBFKernel(batch_shape=b_), batch_shape=b_)

            def forward(s, x):
                return gpytorch.distributions.MultivariateNormal(s.mean_module(x), s.covar_module(x))

        return M()

    try:
        m = mk(Z, bs)
    except Exception as e:
        ctx.reject(f"NNVariationalStrategy unavailable: {type(e).__name__}")
        return
    util.randomize(m.mean_module, g, 0.6)
    util.randomize(m.covar_module, g, 0.4)
    vd = m.variational_strategy._variational_distribution
    with torch.no_grad():
        vd.variational_mean.copy_(util.randn(g, *vd.variational_mean.shape))
        vd._variational_stddev.copy_(util.rand(g, *vd._variational_stddev.shape) * 0.5 + 0.2)
    X = util.rand(g, n, D)
    full = list(bs)
    try:
        with torch.no_grad():
            m.eval()
            out = m(X)
            mean, var = out.mean, out.variance
    except Exception as e:
        ctx.fail("svgp_replica", f"batched VNNGP raised {type(e).__name__}: {str(e)[:140]}", "raise", exc=type(e).__name__, vnngp=True, batch=full)
        return
    ctx.expect("exact_batch_shape", list(mean.shape) == full + [n], f"VNNGP output shape {list(mean.shape)} for batch {full} and {n} points")
    if list(mean.shape) != full + [n]:
        return
    for b in _elements(full):
        r = mk(Z[b].clone(), torch.Size([]))
        _load_slice(m, r, b, full)
        with torch.no_grad():
            r.eval()
            ro = r(X)
        ctx.close("svgp_replica", torch.cat([mean[b], var[b]]), torch.cat([ro.mean, ro.variance]), (1e-8, 1e-8), cls=f"vnngp:batch_rank{len(full)}", element=list(b))
    ctx.cell({"kind": "vnngp", "batch": full})


def _indep_mt(case, ctx, g):
    """IndependentMultitaskVariationalStrategy: the batch of latent GPs IS the set of tasks. The multitask output's task-t
    block, and with task_indices the entries of the points assigned to task t, equal the non-batched replica carrying the
    t-th slice of the parameters; entries that pair different tasks are zero."""
    import torch

    import gpytorch
    from vf import util

    V = gpytorch.variational
    T, M_, n = case["T"], 4, 6
    Z = util.randn(g, T, M_, D)
    B = torch.Size([T])

    class W(gpytorch.models.ApproximateGP):
        def __init__(s):
            vd = V.CholeskyVariationalDistribution(M_, batch_shape=B)
            base = getattr(V, case["strategy"])(s, Z, vd, learn_inducing_locations=True)
            super().__init__(V.IndependentMultitaskVariationalStrategy(base, num_tasks=T))
            s.mean_module = gpytorch.means.ConstantMean(batch_shape=B)
            s.covar_module = gpytorch.kernels.ScaleKernel(gpytorch.kernels.RBFKernel(batch_shape=B), batch_shape=B)

        def forward(s, x):
            return gpytorch.distributions.MultivariateNormal(s.mean_module(x), s.covar_module(x))

    class _Renamed:
        """the wrapped model's state under the names of a plain SVGP model (the base strategy is the replica's strategy)"""

        def __init__(s, mod):
            s.mod = mod

        def state_dict(s):
            return {k.replace("variational_strategy.base_variational_strategy.", "variational_strategy."): v for k, v in s.mod.state_dict().items()}

    m = W()
    base_model = _Renamed(m)
    util.randomize(m, g, 0.5)
    for mod in m.modules():
        if hasattr(mod, "variational_params_initialized"):
            mod.variational_params_initialized.fill_(1)
    X = util.randn(g, n, D)
    ti = torch.randint(0, T, (n,), generator=g)
    ti[:2] = torch.tensor([0, T - 1])
    reps = []
    with torch.no_grad():
        m.eval()
        full = m(X)
        sub = m(X, task_indices=ti)
        for t in range(T):
            r = _mk_svgp([], Z[t].clone(), case["strategy"], "CholeskyVariationalDistribution")
            _load_slice(base_model, r, (t,), [T])
            for mod in r.modules():
                if hasattr(mod, "variational_params_initialized"):
                    mod.variational_params_initialized.fill_(1)
            r.eval()
            reps.append(r(X))
    rm = torch.stack([o.mean for o in reps], -1)  # n x T
    rc = torch.stack([o.covariance_matrix for o in reps])  # T x n x n
    ctx.close("svgp_replica", full.mean, rm, (1e-7, 1e-7), cls="indep_mt:mean")
    Cf = full.covariance_matrix.reshape(n, T, n, T) if full._interleaved else full.covariance_matrix.reshape(T, n, T, n).permute(1, 0, 3, 2)
    ref = torch.zeros(n, T, n, T)
    for t in range(T):
        ref[:, t, :, t] = rc[t]
    ctx.close("svgp_replica", Cf, ref, (1e-7, 1e-7), cls="indep_mt:cov")
    same = (ti.unsqueeze(-1) == ti.unsqueeze(-2)).double()
    ctx.close("svgp_replica", sub.mean, rm[torch.arange(n), ti], (1e-7, 1e-7), cls="indep_mt:task_indices:mean")
    ctx.close("svgp_replica", sub.covariance_matrix, rc[ti, torch.arange(n)] * same, (1e-7, 1e-7), cls="indep_mt:task_indices:cov")
    ctx.cell({"kind": "indep_mt", "T": T, "strategy": case["strategy"]})


def _shared_modules(case, ctx, g):
    """members of an IndependentModelList that SHARE modules (one kernel object, one likelihood object, one mean object; or
    all three) on different data: every member's output, the list's marginal log likelihood and the members' predictions equal
    those of stand-alone twins holding their own copies of the same parameters - whatever was evaluated before on a sibling"""
    import copy

    import torch

    import gpytorch
    from vf import util

    K = gpytorch.kernels
    share = case["share"]
    kern = K.ScaleKernel(K.MaternKernel(nu=2.5, ard_num_dims=D)) if case["kernel"] == "matern" else K.ScaleKernel(K.GridInterpolationKernel(K.RBFKernel(), grid_size=8, num_dims=D, grid_bounds=[(-4.0, 4.0)] * D))
    mean = gpytorch.means.ConstantMean()
    lik = gpytorch.likelihoods.GaussianLikelihood()
    util.randomize(kern, g, 0.4)
    util.randomize(mean, g, 0.5)
    util.randomize(lik, g, 0.4)
    members, twins, data = [], [], []
    for n in case["members"]:
        X, y = util.randn(g, n, D).clamp(-3.5, 3.5), util.randn(g, n)
        k_ = kern if "kernel" in share else copy.deepcopy(kern)
        m_ = mean if "mean" in share else copy.deepcopy(mean)
        l_ = lik if "lik" in share else copy.deepcopy(lik)
        members.append(util.GP(X, y, l_, m_, k_))
        twins.append(util.GP(X, y, copy.deepcopy(lik), copy.deepcopy(mean), copy.deepcopy(kern)))
        data.append((X, y))
    ml = gpytorch.models.IndependentModelList(*members)
    xs = util.randn(g, 3, D).clamp(-3.5, 3.5)
    with torch.no_grad():
        for rnd_ in range(2):  # twice: the second pass meets whatever the first left behind
            ml.train()
            outs = ml(*ml.train_inputs)
            s = gpytorch.mlls.SumMarginalLogLikelihood(ml.likelihood, ml)(outs, ml.train_targets)
            vals = []
            for i, (o, tw, (X, y)) in enumerate(zip(outs, twins, data)):
                tw.train()
                own = tw(X)
                ctx.close("model_list_identical", torch.cat([o.mean, o.covariance_matrix.reshape(-1)]), torch.cat([own.mean, own.covariance_matrix.reshape(-1)]), (1e-10, 1e-10), cls="shared:" + "+".join(share) + ":prior", member=i)
                vals.append(gpytorch.mlls.ExactMarginalLogLikelihood(tw.likelihood, tw)(own, y))
            ctx.close("sum_mll_is_mean", s, torch.stack(vals).mean(), (1e-9, 1e-9), cls="sum_mll:shared:" + "+".join(share), members=case["members"])
            ml.eval()
            order = list(range(len(members)))
            if rnd_:
                order = order[::-1]
            for i in order:  # members are asked one after another (a sibling has just used the shared modules on other data)
                o = members[i](xs)
                twins[i].eval()
                own = twins[i](xs)
                tol = (1e-8, 1e-8) if case["kernel"] == "matern" else (1e-6, 1e-6)
                ctx.close("model_list_identical", torch.cat([o.mean, o.covariance_matrix.reshape(-1)]), torch.cat([own.mean, own.covariance_matrix.reshape(-1)]), tol, cls="shared:" + "+".join(share) + ":posterior", member=i)
    ctx.cell({k: v for k, v in case.items() if k != "seed"})


def _sgpr_kernel(case, ctx, g):
    """a batch of inducing-point kernels (SGPR) whose elements have signal variances orders of magnitude apart: each element's
    training-mode and evaluation-mode matrices are those of the replica holding the b-th slice of parameters and inducing points"""
    import torch

    import gpytorch
    from vf import util

    K = gpytorch.kernels
    pb = case["pbatch"]
    full = list(pb)
    zb = pb if case["zbatch"] == "batch" else []
    n, M_ = 7, 4
    X = util.randn(g, n, D)
    Z = util.randn(g, *zb, M_, D)

    def mk(b_, Z_):
        bs = torch.Size(b_)
        lik = gpytorch.likelihoods.GaussianLikelihood(batch_shape=bs)
        return K.InducingPointKernel(K.ScaleKernel(K.RBFKernel(batch_shape=bs), batch_shape=bs), inducing_points=Z_.clone(), likelihood=lik)

    k = mk(pb, Z)
    util.randomize(k, g, 0.3)
    with torch.no_grad():
        sc = torch.tensor([0.5, 50.0, 5000.0])[: pb[-1]].expand(*pb)
        k.base_kernel.outputscale = sc * (1 + 0.2 * util.rand(g, *pb))
    outs = {}
    with torch.no_grad():
        for mode in ("train", "eval"):
            k.train(mode == "train")
            outs[mode] = k(X).to_dense()
            outs[mode + "_diag"] = k(X, diag=True)
    for b in _elements(full):
        r = mk([], _sl(k.inducing_points.detach(), list(k.inducing_points.shape[:-2]), b, full))
        _load_slice(k, r, b, full)
        with torch.no_grad():
            for mode in ("train", "eval"):
                r.train(mode == "train")
                ref = r(X).to_dense()
                got = _ex(outs[mode], full, n, n)[b]
                ctx.close("kernel_replica", got, ref, (1e-8 * float(ref.abs().max()), 1e-8), cls=f"sgpr_kernel:{mode}", element=list(b))
                ctx.close("kernel_replica", _ex(outs[mode + "_diag"], full, n)[b], r(X, diag=True), (1e-8 * float(ref.abs().max()), 1e-8), cls=f"sgpr_kernel:{mode}:diag", element=list(b))
    ctx.cell(*_cell(case, full))


def _modellist(case, ctx, g):
    import torch

    import gpytorch
    from vf import util

    models = []
    for n in case["members"]:
        X, y = util.randn(g, n, D), util.randn(g, n)
        mdl = _mk_exact([], X, y)
        util.randomize(mdl, g, 0.5)
        models.append(mdl)
    ml = gpytorch.models.IndependentModelList(*models)
    with torch.no_grad():
        ml.train()
        outs = ml(*ml.train_inputs)
        vals = []
        for o, mdl in zip(outs, models):
            own = mdl(*mdl.train_inputs)
            ctx.expect("model_list_identical", torch.equal(o.mean, own.mean) and torch.equal(o.covariance_matrix, own.covariance_matrix), "IndependentModelList output differs from the member's own output")
            vals.append(gpytorch.mlls.ExactMarginalLogLikelihood(mdl.likelihood, mdl)(own, mdl.train_targets))
        for i_, (ti_, tt_, mdl) in enumerate(zip(ml.train_inputs, ml.train_targets, models)):
            ctx.expect("model_list_identical", torch.equal(ti_[0], mdl.train_inputs[0]) and torch.equal(tt_, mdl.train_targets), f"train_inputs / train_targets of the list at position {i_} are not member {i_}'s", member=i_)
        s = gpytorch.mlls.SumMarginalLogLikelihood(ml.likelihood, ml)(outs, ml.train_targets)
        ctx.close("sum_mll_is_mean", s, torch.stack(vals).mean(), "direct", cls="sum_mll", members=case["members"])
        ml.eval()
        xs = util.randn(g, 3, D)
        eouts = ml(*[xs for _ in models])
        for o, mdl in zip(eouts, models):
            own = mdl(xs)
            ctx.expect("model_list_identical", torch.equal(o.mean, own.mean) and torch.equal(o.covariance_matrix, own.covariance_matrix), "IndependentModelList eval output differs from the member's own output")
        # the list's likelihood applies each member likelihood to its own output with its own arguments: fixed-noise
        # members with per-member call-time noise, None = that member's stored noise (no argument leaks to a neighbour)
        k = len(models)
        fls = [gpytorch.likelihoods.FixedNoiseGaussianLikelihood(noise=util.rand(g, 3) * 0.3 + 0.05, learn_additional_noise=(i % 2 == 1)) for i in range(k)]
        ll = gpytorch.likelihoods.LikelihoodList(*fls)
        for none_at in ([], [k - 1], [0], list(range(1, k))):
            nz = [None if i in none_at else util.rand(g, 3) * 0.3 + 0.05 for i in range(k)]
            got = ll(*eouts, noise=nz) if any(n_ is not None for n_ in nz) else ll(*eouts)
            for i, (o, fl, n_, gi) in enumerate(zip(eouts, fls, nz, got)):
                own = fl(o, noise=n_) if n_ is not None else fl(o)
                ctx.expect("likelihood_list_memberwise", bool(torch.equal(gi.mean, own.mean)) and bool(torch.allclose(gi.covariance_matrix, own.covariance_matrix, rtol=0, atol=1e-12)),
                           f"LikelihoodList member {i} (noise list with None at {none_at}) differs from the member likelihood applied on its own", member=i, none_at=none_at)
    ctx.cell({k: v for k, v in case.items() if k != "seed"})


def _mll_prior_rank(case, fl):
    """ExactMarginalLogLikelihood._add_other_terms keeps the first `result batch rank` dimensions of a prior's log_prob as batch
    dimensions: for a parameter with FEWER batch dimensions than the result (un-batched ARD lengthscale (1, D) under data
    of batch rank 2) the ARD dimension is read as a batch dimension - cross-wired when D equals that batch size, a
    RuntimeError otherwise"""
    lower = fl.get("result_batch_rank", 0) >= 2 and fl.get("param_batch_rank", 9) < fl.get("result_batch_rank", 0)
    return lower and fl["monitor"] == "mll_replica" and (fl.get("mechanism") != "raise" or fl.get("in_prior_terms") is True)


def _grad_kernel_broadcast(case, fl):
    """derivative kernels (RBFKernelGrad / Matern52KernelGrad) build their blocks with view/repeat on the DATA batch shape:
    a parameter batch shape that is not identical to the data batch shape raises (never a silent value)"""
    return (fl["monitor"] == "kernel_replica" and fl.get("mechanism") == "raise" and fl.get("kname") in ("rbfgrad", "m52grad")
            and list(fl.get("pbatch", [])) != list(fl.get("dbatch", [])))


MATCHERS = {"C08-derivative-kernels-parameter-batch-broadcast": _grad_kernel_broadcast, "C08-mll-prior-terms-lower-rank-parameter-batch": _mll_prior_rank}
