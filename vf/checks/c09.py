"""C09 - structure-exploiting kernels and prediction strategies equal their dense meaning.

(a) kernel == explicit dense formula (Kronecker multitask, index, LCM, grid Toeplitz/Kronecker, KISS-GP W K_UU W^T with the
oracle's own cubic weights, Nystrom (+ diagonal correction), random Fourier features with the kernel's own weights);
(b) kernel-specific prediction strategy == the default dense conditional on the SAME approximate matrix (taken from
kernel(X u X*).to_dense()), over Cholesky/CG, fast_pred_var, sgpr_diagonal_correction, use_toeplitz; SGPR objective == dense
Titsias bound, SGPR predictive == textbook equations; KISS-GP (WISKI) fantasy == conditional on the concatenated data;
(c) cubic interpolation: weights sum to one, exact at grid nodes, reproduce quadratics, bounded convergence of the
interpolated kernel to the base kernel (monotone decrease over grid sizes, observed order >= 2.5).
Witness monitors count the structured strategies' exact_prediction calls.
"""
import itertools
import random

PROPERTY = "C09"
RULE = (
    'case kinds: (kernel) structured kernel x sizes/ranks/grid shapes (incl. unequal per-axis grid sizes, anisotropic lengthscales) x settings; '
    '(strategy) model in {KISS-GP 1-d/2-d, SGPR, RFF} x {Cholesky, CG} x fast_pred_var x sgpr_diagonal_correction x use_toeplitz; (sgpr_bound) '
    'Gaussian / fixed / fixed+learned noise; multitask kernels over stationary, linear, polynomial and KISS data kernels incl. diag paths; '
    '(wiski_fantasy) prior mean zero/non-zero x depth; (interp) dimension x grid sizes; (convergence) kernel x dimension; distinct = cell without '
    'seed; non-trivial iff the structured result differs from a diagonal/identity matrix (always for n>=2)'
    '; pass 5: index-kernel diagonals with one / two index vectors (diag=True, lazy diagonal, Hadamard product); structured strategies under fixed and fixed+learned observation noise'
    '; pass 6: batched KISS-GP / SGPR / RFF models; Nystrom cells with inducing points at training inputs; interpolation over the whole grid range incl. the first / last cells (nearest-node rule) and the boundary nodes'
    '; pass 7: Nystrom cells beyond the Cholesky size and copies looked at after the original moved; KISS-GP under fast_pred_samples (covariance handed out as a root) on the Cholesky and CG sides'
    "; pass 8: Nystrom diagonal paths (diag=True, lazy diagonal) for two different point sets; structured strategies reloaded in evaluation mode against a freshly built model; WISKI chains under fast_pred_var"
    "; pass 9: WISKI sibling fantasies (further children of the root and of the first child)"
)
REQUIRED = ["multitask_kron", "index_kernel", "lcm_kernel", "grid_kernel_dense", "kiss_kernel_WKW", "nystrom", "rff_features", "strategy_equals_dense_conditional", "sgpr_titsias_bound", "sgpr_predictive_equations",
            "wiski_fantasy", "interp_sum_to_one", "interp_exact_at_nodes", "interp_reproduces_quadratics", "interp_matrix_equals_tensor_product", "kiss_converges", "path:InterpolatedPredictionStrategy.exact_prediction", "path:SGPRPredictionStrategy.exact_prediction"]
ASSUMPTIONS = ["'converges as the grid is refined' is decided in the bounded form: sup-error strictly decreasing over grid sizes {8,16,32,64} with fitted order >= 2.5",
               "strategy checks take the approximate matrix from the library's own kernel(X u X*).to_dense() (tied to the formula oracle by the kernel checks)"]
ANCHOR_FILES = ["gpytorch/kernels/", "gpytorch/utils/interpolation.py", "gpytorch/models/exact_prediction_strategies.py", "gpytorch/mlls/inducing_point_kernel_added_loss_term.py", "gpytorch/utils/grid.py"]


def cases(tier, seed):
    rnd = random.Random(9000 + seed)
    reps = 1 if tier == "quick" else 30
    for _ in range(reps):
        for t, rank, n1, n2 in itertools.product([2, 3], [1, 2], [1, 4], [3]):
            for data in ("matern_ard", "linear", "poly", "kiss"):
                yield {"kind": "multitask", "t": t, "rank": rank, "n1": n1, "n2": n2, "data": data, "seed": rnd.randrange(10**6)}
            yield {"kind": "lcm", "t": t, "rank": rank, "n1": n1, "n2": n2, "seed": rnd.randrange(10**6)}
        for t, rank in itertools.product([2, 4], [1, 2]):
            yield {"kind": "index", "t": t, "rank": rank, "seed": rnd.randrange(10**6)}
        for sizes, tz in itertools.product([[6], [5, 4], [4, 7], [3, 4, 5]], [True, False]):
            yield {"kind": "grid", "sizes": sizes, "toeplitz": tz, "seed": rnd.randrange(10**6)}
        for sizes in ([12], [10, 10], [9, 14], [14, 9]):
            yield {"kind": "kiss_kernel", "sizes": sizes, "seed": rnd.randrange(10**6)}
        for m, corr, train in itertools.product([1, 3, 5], [True, False], [True, False]):
            yield {"kind": "nystrom", "m": m, "correction": corr, "training": train, "seed": rnd.randrange(10**6)}
            yield {"kind": "nystrom", "m": m, "correction": corr, "training": train, "z_at_x": True, "seed": rnd.randrange(10**6)}
            yield {"kind": "nystrom", "m": m, "correction": corr, "training": train, "beyond_cholesky_size": True, "copy_check": True, "seed": rnd.randrange(10**6)}
        for D_ in (4, 16):
            yield {"kind": "rff", "num_samples": D_, "seed": rnd.randrange(10**6)}
        for model, chol, fpv, corr, tz in itertools.product(["kiss1d", "kiss2d", "sgpr", "rff"], [800, 0], [False, True], [True, False], [True, False]):
            if model != "sgpr" and not corr:
                continue
            if not model.startswith("kiss") and not tz:
                continue
            yield {"kind": "strategy", "model": model, "max_cholesky_size": chol, "fast_pred_var": fpv, "sgpr_diagonal_correction": corr, "use_toeplitz": tz, "seed": rnd.randrange(10**6)}
            if corr and tz:
                # the same strategies under per-point (fixed) observation noise, with and without a learned additional noise
                for lk in ("fixed", "fixed_learned"):
                    yield {"kind": "strategy", "model": model, "max_cholesky_size": chol, "fast_pred_var": fpv, "sgpr_diagonal_correction": corr, "use_toeplitz": tz, "lik": lk, "seed": rnd.randrange(10**6)}
        for model, chol, fpv in itertools.product(["kiss1d", "sgpr", "rff"], [800, 0], [False, True]):
            yield {"kind": "strategy", "model": model, "max_cholesky_size": chol, "fast_pred_var": fpv, "sgpr_diagonal_correction": True, "use_toeplitz": True, "reload": True, "seed": rnd.randrange(10**6)}
        # fast_pred_samples (the statement names it): KISS-GP returns the posterior covariance as a root W* R, R R^T = K_UU - cache
        for model, chol, fpv in itertools.product(["kiss1d", "kiss2d"], [800, 0], [False, True]):
            yield {"kind": "strategy", "model": model, "max_cholesky_size": chol, "fast_pred_var": fpv, "fast_pred_samples": True, "sgpr_diagonal_correction": True, "use_toeplitz": True, "seed": rnd.randrange(10**6)}
        for model, fpv, bb in itertools.product(["kiss", "sgpr", "rff"], [False, True], [[2], [3, 2]]):
            yield {"kind": "strategy_batch", "model": model, "fast_pred_var": fpv, "batch": bb, "seed": rnd.randrange(10**6)}
        for m, lk in itertools.product((2, 4), ("gaussian", "fixed", "fixed_learned")):
            yield {"kind": "sgpr_bound", "m": m, "lik": lk, "seed": rnd.randrange(10**6)}
        for mean, depth, dims in itertools.product([0.0, 1.2], [1, 2], [1, 2]):
            yield {"kind": "wiski_fantasy", "mean": mean, "depth": depth, "dims": dims, "seed": rnd.randrange(10**6)}
        for mean, depth, dims in itertools.product([0.0, 1.2], [2, 3], [1, 2]):
            yield {"kind": "wiski_fantasy", "mean": mean, "depth": depth, "dims": dims, "late_eval": True, "seed": rnd.randrange(10**6)}
            yield {"kind": "wiski_fantasy", "mean": mean, "depth": depth, "dims": dims, "late_eval": bool(depth % 2), "fast_pred_var": True, "seed": rnd.randrange(10**6)}
        for sizes in ([12], [16], [9, 14], [14, 9], [8, 8], [6, 7, 8]):
            yield {"kind": "interp", "sizes": sizes, "seed": rnd.randrange(10**6)}
    for kern, dims in itertools.product(["rbf", "matern2.5"], [1, 2]):
        if kern != "rbf" and dims > 1:
            continue  # the Kronecker grid structure represents PRODUCT kernels; only RBF is one in d >= 2
        yield {"kind": "convergence", "kernel": kern, "dims": dims, "seed": rnd.randrange(10**6)}


def setup(ctx):
    from gpytorch.models import exact_prediction_strategies as E
    from vf import attach

    attach.count(E.InterpolatedPredictionStrategy, "exact_prediction", ctx, "path:InterpolatedPredictionStrategy.exact_prediction")
    attach.count(E.SGPRPredictionStrategy, "exact_prediction", ctx, "path:SGPRPredictionStrategy.exact_prediction")
    attach.count(E.RFFPredictionStrategy, "exact_prediction", ctx, "path:RFFPredictionStrategy.exact_prediction")
    attach.count(E.DefaultPredictionStrategy, "get_fantasy_strategy", ctx, "path:get_fantasy_strategy")


def run_case(case, ctx):
    from vf import util

    g = util.gen(case["seed"])
    fn = {"multitask": _multitask, "lcm": _lcm, "index": _index, "grid": _grid, "kiss_kernel": _kiss_kernel, "nystrom": _nystrom, "rff": _rff, "strategy": _strategy, "strategy_batch": _strategy_batch,
          "sgpr_bound": _sgpr_bound, "wiski_fantasy": _wiski, "interp": _interp, "convergence": _convergence}[case["kind"]]
    fn(case, ctx, g)
    ctx.cell({k: v for k, v in case.items() if k != "seed"})


def _eager(kern, *xs):
    import torch

    from gpytorch import settings as S

    with torch.no_grad(), S.lazily_evaluate_kernels(False):
        return kern(*xs).to_dense()


def _multitask(case, ctx, g):
    import torch

    import gpytorch
    from vf import util

    K = gpytorch.kernels
    data = {
        "matern_ard": lambda: K.ScaleKernel(K.MaternKernel(nu=1.5, ard_num_dims=2)),
        # prior variance varying from point to point: the diagonal has to follow the per-point interleaved layout
        "linear": lambda: K.LinearKernel(),
        "poly": lambda: K.ScaleKernel(K.PolynomialKernel(power=2)),
        "kiss": lambda: K.GridInterpolationKernel(K.RBFKernel(), grid_size=8, num_dims=2, grid_bounds=[(-4.0, 4.0)] * 2),
    }[case.get("data", "matern_ard")]()
    mk = K.MultitaskKernel(data, num_tasks=case["t"], rank=case["rank"])
    util.randomize(mk, g, 0.6)
    X, X2 = util.randn(g, case["n1"], 2), util.randn(g, case["n2"], 2)
    cf, var = mk.task_covar_module.covar_factor.detach(), mk.task_covar_module.var.detach()
    B = cf @ cf.T + torch.diag(var)
    Kd = _eager(mk.data_covar_module, X, X2)
    ctx.close("multitask_kron", mk(X, X2).to_dense(), torch.kron(Kd, B), "direct", cls="multitask:lazy")
    ctx.close("multitask_kron", _eager(mk, X, X2), torch.kron(Kd, B), "direct", cls="multitask:eager")
    Kxx = _eager(mk.data_covar_module, X, X)
    tol = (1e-6, 1e-6) if case.get("data") == "kiss" else "direct"  # float32 grid buffers
    ctx.close("multitask_kron", mk(X, diag=True), torch.diagonal(torch.kron(Kxx, B)), tol, cls="multitask:diag")
    with torch.no_grad():
        ctx.close("multitask_kron", mk(X).diagonal(dim1=-1, dim2=-2), torch.diagonal(torch.kron(Kxx, B)), tol, cls="multitask:lazy.diagonal")
        mvn = gpytorch.distributions.MultitaskMultivariateNormal(torch.zeros(case["n1"], case["t"]), mk(X))
        ctx.close("multitask_kron", mvn.variance.reshape(-1), torch.diagonal(torch.kron(Kxx, B)), tol, cls="multitask:mtmvn.variance")


def _lcm(case, ctx, g):
    import torch

    import gpytorch
    from vf import util

    K = gpytorch.kernels
    lk = K.LCMKernel([K.RBFKernel(), K.MaternKernel(nu=2.5), K.ScaleKernel(K.RQKernel()), K.LinearKernel()], num_tasks=case["t"], rank=case["rank"])
    util.randomize(lk, g, 0.6)
    X, X2 = util.randn(g, case["n1"], 2), util.randn(g, case["n2"], 2)
    ref = 0
    for mk in lk.covar_module_list:
        cf, var = mk.task_covar_module.covar_factor.detach(), mk.task_covar_module.var.detach()
        ref = ref + torch.kron(_eager(mk.data_covar_module, X, X2), cf @ cf.T + torch.diag(var))
    ctx.close("lcm_kernel", lk(X, X2).to_dense(), ref, "direct", cls="lcm")
    refxx = 0
    for mk in lk.covar_module_list:
        cf, var = mk.task_covar_module.covar_factor.detach(), mk.task_covar_module.var.detach()
        refxx = refxx + torch.kron(_eager(mk.data_covar_module, X, X), cf @ cf.T + torch.diag(var))
    ctx.close("lcm_kernel", lk(X, diag=True), torch.diagonal(refxx), "direct", cls="lcm:diag")


def _index(case, ctx, g):
    import torch

    import gpytorch
    from vf import util

    t = case["t"]
    ik = gpytorch.kernels.IndexKernel(num_tasks=t, rank=case["rank"])
    util.randomize(ik, g, 0.8)
    i1 = torch.randint(0, t, (5, 1), generator=g)
    i2 = torch.randint(0, t, (3, 1), generator=g)
    cf, var = ik.covar_factor.detach(), ik.var.detach()
    B = cf @ cf.T + torch.diag(var)
    ctx.close("index_kernel", ik(i1, i2).to_dense(), B[i1.squeeze(-1)][:, i2.squeeze(-1)], "direct", cls="index")
    ctx.close("index_kernel", ik.covar_matrix.to_dense(), B, "direct", cls="index:covar_matrix")
    # diagonals: one index vector, and two different index vectors of equal length (B[i1[a], i3[a]])
    i3 = torch.randint(0, t, (5, 1), generator=g)
    with torch.no_grad():
        for tag, a_, b_ in (("same", i1, i1), ("two_vectors", i1, i3)):
            refd = B[a_.squeeze(-1), b_.squeeze(-1)]
            dg = ik(a_, b_, diag=True)
            ctx.close("index_kernel", dg.to_dense() if hasattr(dg, "to_dense") else dg, refd, "direct", cls="index:diag:" + tag)
            ctx.close("index_kernel", ik(a_, b_).diagonal(dim1=-1, dim2=-2), refd, "direct", cls="index:lazy.diagonal:" + tag)
        # through a product with a data kernel (the usual Hadamard multitask construction)
        rbf = gpytorch.kernels.RBFKernel()
        xa, xb = util.randn(g, 5, 2), util.randn(g, 5, 2)
        with gpytorch.settings.lazily_evaluate_kernels(False):
            Kab = rbf(xa, xb).to_dense()
        za, zb = torch.cat([xa, i1.double()], -1), torch.cat([xb, i3.double()], -1)
        had = gpytorch.kernels.ProductKernel(gpytorch.kernels.RBFKernel(active_dims=(0, 1)), gpytorch.kernels.IndexKernel(num_tasks=t, rank=case["rank"], active_dims=(2,)))
        had.kernels[0].lengthscale = rbf.lengthscale.detach()
        had.kernels[1].covar_factor.data.copy_(ik.covar_factor.detach())
        had.kernels[1].raw_var.data.copy_(ik.raw_var.detach())
        refh = Kab * B[i1.squeeze(-1)][:, i3.squeeze(-1)]
        ctx.close("index_kernel", had(za, zb).to_dense(), refh, "direct", cls="index:hadamard")
        dgh = had(za, zb, diag=True)
        ctx.close("index_kernel", dgh.to_dense() if hasattr(dgh, "to_dense") else dgh, torch.diagonal(refh), "direct", cls="index:hadamard:diag:two_inputs")
        ctx.close("index_kernel", had(za, zb).diagonal(dim1=-1, dim2=-2), torch.diagonal(refh), "direct", cls="index:hadamard:lazy.diagonal:two_inputs")
    # the dense formula of the CURRENT parameters: evaluation mode, another state loaded / assigned, evaluated again
    ik.eval()
    with torch.no_grad():
        ik(i1, i2).to_dense()
        for how in ("load_state_dict", "setter"):
            if how == "load_state_dict":
                ik.load_state_dict({k_: v_ + 0.5 * util.randn(g, *v_.shape) if k_.startswith(("raw_", "covar_factor")) and "constraint" not in k_ else v_ for k_, v_ in ik.state_dict().items()})
            else:
                ik.var = ik.var.detach() * 1.7 + 0.1
            cf, var = ik.covar_factor.detach(), ik.var.detach()
            B2 = cf @ cf.T + torch.diag(var)
            ctx.close("index_kernel", ik(i1, i2).to_dense(), B2[i1.squeeze(-1)][:, i2.squeeze(-1)], "direct", cls="index:after_" + how)


def _grid(case, ctx, g):
    import torch

    import gpytorch
    from gpytorch import settings as S
    from vf import util

    K = gpytorch.kernels
    sizes = case["sizes"]
    d = len(sizes)
    grid = [torch.linspace(-1 + 0.1 * i, 1 + 0.3 * i, s) for i, s in enumerate(sizes)]
    gk = K.GridKernel(K.RBFKernel(ard_num_dims=d), grid=grid)
    gk.base_kernel.lengthscale = util.rand(g, 1, d) * 1.5 + 0.3  # anisotropic
    full = gk.full_grid  # the structured path is only taken for exactly these points, in this order
    with S.use_toeplitz(case["toeplitz"]), torch.no_grad():
        out = gk(full, full).to_dense()
    ref = _eager(gk.base_kernel, full, full)
    ctx.close("grid_kernel_dense", out, ref, (1e-9, 1e-9), cls=f"grid:{d}d:{'toeplitz' if case['toeplitz'] else 'dense'}")
    # off the structured path the kernel is its base kernel: other point sets of the grid's own shape (shifted, permuted),
    # of another size, and the grid in second position
    with S.use_toeplitz(case["toeplitz"]), torch.no_grad():
        for tag, other in (("shifted", full + 0.013), ("permuted", full.flip(0)), ("random_same_shape", util.randn(g, *full.shape)), ("fewer", full[: max(1, full.shape[0] // 2)] * 0.9)):
            ctx.close("grid_kernel_dense", gk(full, other).to_dense(), _eager(gk.base_kernel, full, other), (1e-9, 1e-9), cls=f"grid:cross:{tag}")
            ctx.close("grid_kernel_dense", gk(other, full).to_dense(), _eager(gk.base_kernel, other, full), (1e-9, 1e-9), cls=f"grid:cross_rev:{tag}")
    # the flattened grid is the one the interpolation indices address: first data dimension slowest
    rowmajor = torch.cartesian_prod(*grid).reshape(-1, d)
    ctx.expect("grid_order_matches_interpolation_index", torch.equal(full, rowmajor), "GridKernel.full_grid is not in the order Interpolation.interpolate indexes (first dimension slowest)", sizes=sizes)


def _kiss(sizes, g, kern="rbf", bounds=None):
    import torch

    import gpytorch
    from vf import util

    K = gpytorch.kernels
    d = len(sizes)
    base = K.RBFKernel(ard_num_dims=d) if kern == "rbf" else K.MaternKernel(nu=2.5, ard_num_dims=d)
    gik = K.GridInterpolationKernel(base, grid_size=sizes if d > 1 else sizes[0], num_dims=d, grid_bounds=bounds or [(-1.0, 1.0)] * d)
    base.lengthscale = util.rand(g, 1, d) * 0.8 + 0.4
    return gik


def _kiss_dense(gik, x1, x2):
    import torch

    from vf.oracle import interp as I

    grid = [gd.to(torch.double) for gd in gik.grid]
    full = torch.cartesian_prod(*grid).reshape(-1, len(grid))
    Kuu = _eager(gik.base_kernel, full, full)
    W1, W2 = I.cubic_weights_nd(grid, x1), I.cubic_weights_nd(grid, x2)
    return W1 @ Kuu @ W2.T


def _kiss_kernel(case, ctx, g):
    import torch

    from vf import util

    sizes = case["sizes"]
    d = len(sizes)
    gik = _kiss(sizes, g)
    x1, x2 = util.rand(g, 6, d) * 1.6 - 0.8, util.rand(g, 4, d) * 1.6 - 0.8
    with torch.no_grad():
        got = gik(x1, x2).to_dense()
    # the grid buffers are float32 by construction (create_grid's default dtype): interpolation weights carry ~1e-7 rounding
    ctx.close("kiss_kernel_WKW", got, _kiss_dense(gik, x1, x2), (5e-6, 5e-6), cls=f"kiss:{'x'.join(map(str, sizes))}", sizes=sizes)
    with torch.no_grad():
        gotxx = gik(x1).to_dense()
    ctx.close("kiss_kernel_WKW", gotxx, _kiss_dense(gik, x1, x1), (5e-6, 5e-6), cls=f"kiss:{'x'.join(map(str, sizes))}:xx", sizes=sizes)
    # W K_uu W^T on the CURRENT grid: evaluation mode, one evaluation, then the grid moves (explicit update_grid, and the
    # data-dependent grid of grid_bounds=None meeting inputs of another range), then another evaluation
    import gpytorch

    gik.eval()
    with torch.no_grad():
        gik(x1, x2).to_dense()
        newgrid = gpytorch.utils.grid.create_grid(list(sizes), [(-1.3, 1.1)] * d)
        gik.update_grid(newgrid)
        got2 = gik(x1, x2).to_dense()
    ctx.close("kiss_kernel_WKW", got2, _kiss_dense(gik, x1, x2), (5e-6, 5e-6), cls="kiss:after_update_grid", sizes=sizes)
    K = gpytorch.kernels
    dyn = K.GridInterpolationKernel(K.RBFKernel(ard_num_dims=d), grid_size=sizes if d > 1 else sizes[0], num_dims=d)
    dyn.base_kernel.lengthscale = util.rand(g, 1, d) * 0.8 + 0.4
    dyn.eval()
    with torch.no_grad():
        dyn(x1).to_dense()
        far = x1 * 2.5 + 0.7
        got3 = dyn(far).to_dense()
    ctx.close("kiss_kernel_WKW", got3, _kiss_dense(dyn, far, far), (5e-6, 5e-6), cls="kiss:dynamic_grid_moved", sizes=sizes)


def _nystrom(case, ctx, g):
    import torch

    import gpytorch
    from gpytorch import settings as S
    from vf import util

    K = gpytorch.kernels
    lik = gpytorch.likelihoods.GaussianLikelihood()
    X, X2 = util.randn(g, 5, 2), util.randn(g, 3, 2)
    # inducing points anywhere, or AT the first m training inputs (zero Nystrom residual there)
    Z = X[: case["m"]].clone() if case.get("z_at_x") else util.randn(g, case["m"], 2)
    ipk = K.InducingPointKernel(K.ScaleKernel(K.MaternKernel(nu=2.5)), inducing_points=Z.clone(), likelihood=lik)
    util.randomize(ipk.base_kernel, g, 0.5)
    ipk.train(case["training"])
    Zc = ipk.inducing_points.detach()
    bk = ipk.base_kernel
    Kzz, Kxz, K2z = _eager(bk, Zc, Zc), _eager(bk, X, Zc), _eager(bk, X2, Zc)
    jit = 1e-8  # cholesky_jitter (double) used for the inducing-point factor: modelled by the two-reference rule
    refs = []
    for j in (jit, 0.0):
        Ki = torch.linalg.inv(Kzz + j * torch.eye(case["m"]))
        refs.append((Kxz @ Ki @ Kxz.T, Kxz @ Ki @ K2z.T))
    import contextlib

    with contextlib.ExitStack() as st_:
        if case.get("beyond_cholesky_size"):
            # more inducing points than max_cholesky_size, tiny Lanczos rank: K_ZZ^-1/2 is still the exact (Cholesky) factor
            st_.enter_context(S.max_cholesky_size(0))
            st_.enter_context(S.max_root_decomposition_size(2))
        st_.enter_context(S.sgpr_diagonal_correction(case["correction"]))
        st_.enter_context(torch.no_grad())
        gxx = ipk(X).to_dense()
        gx2 = ipk(X, X2).to_dense() if not case["training"] else None
    # a deep copy is a kernel of its own: moving ITS inducing points / parameters leaves the original's matrix alone
    if case.get("copy_check"):
        import copy

        with torch.no_grad(), S.sgpr_diagonal_correction(case["correction"]):
            cp = copy.deepcopy(ipk)
            cp.inducing_points.add_(0.5)
            for p_ in cp.base_kernel.parameters():
                p_.add_(0.3)
            again = ipk(X).to_dense()
        ctx.close("nystrom", again, gxx, (1e-12, 1e-12), cls="nystrom:original_after_its_copy_moved")
        ctx.expect("nystrom", bool(torch.equal(ipk.inducing_points.detach(), Zc)), "the original's inducing points moved with its deep copy's")
    corr = case["correction"] and not case["training"]
    def add_corr(Q):
        return Q + torch.diag((torch.diagonal(_eager(bk, X, X)) - torch.diagonal(Q)).clamp_min(0)) if corr else Q
    ctx.close("nystrom", gxx, add_corr(refs[0][0]), (1e-7, 1e-7), cls=f"nystrom:xx:{'corr' if corr else 'plain'}" + (":z_at_x" if case.get("z_at_x") else ""), alt=add_corr(refs[1][0]))
    if case.get("z_at_x"):
        # at the inducing points the Nystrom matrix reproduces the kernel: the corrected diagonal is the kernel's own diagonal to rounding
        dg = torch.diagonal(gxx)[: case["m"]]
        ctx.close("nystrom", dg, torch.diagonal(_eager(bk, X, X))[: case["m"]], (3e-8, 3e-8), cls="nystrom:diag_at_inducing_points:" + ("corr" if corr else "plain"))
    if gx2 is not None:
        ctx.close("nystrom", gx2, refs[0][1], (1e-7, 1e-7), cls="nystrom:cross", alt=refs[1][1])
    # the diagonal paths (diag=True, lazy diagonal): of K(X, X), and of K(X_a, X_b) for two DIFFERENT point sets of equal length
    # (there the corrected diagonal does not apply: plain Nystrom values)
    with torch.no_grad(), S.sgpr_diagonal_correction(case["correction"]):
        Xa = X[: X2.shape[-2]]
        dxx = ipk(X, diag=True)
        if gx2 is not None:  # (training mode documents x1 == x2)
            dab = ipk(Xa, X2, diag=True)
            lab = ipk(Xa, X2).diagonal(dim1=-2, dim2=-1)
    ctx.close("nystrom", dxx, torch.diagonal(gxx), (1e-10, 1e-10), cls="nystrom:diag_xx")
    if gx2 is not None:
        ctx.close("nystrom", dab, torch.diagonal(gx2[: X2.shape[-2]]), (1e-10, 1e-10), cls="nystrom:diag_two_point_sets")
        ctx.close("nystrom", lab, torch.diagonal(gx2[: X2.shape[-2]]), (1e-10, 1e-10), cls="nystrom:lazy_diag_two_point_sets")


def _rff(case, ctx, g):
    import math

    import torch

    import gpytorch
    from vf import util

    D_ = case["num_samples"]
    rk = gpytorch.kernels.RFFKernel(num_samples=D_, num_dims=2)
    rk.lengthscale = float(util.rand(g, 1)) + 0.5
    X, X2 = util.randn(g, 5, 2), util.randn(g, 3, 2)
    W = rk.randn_weights.detach()  # d x D

    def feat(x):
        z = (x / rk.lengthscale.detach()) @ W
        return torch.cat([torch.cos(z), torch.sin(z)], -1) / math.sqrt(D_)

    with torch.no_grad():
        ctx.close("rff_features", rk(X, X2).to_dense(), feat(X) @ feat(X2).T, "direct", cls="rff:cross")
        ctx.close("rff_features", rk(X).to_dense(), feat(X) @ feat(X).T, "direct", cls="rff:xx")


def _mk_model(name, g, mean_const=None, lk="gaussian"):
    import torch

    import gpytorch
    from vf import util

    K = gpytorch.kernels
    n = 9
    if lk == "gaussian":
        lik = gpytorch.likelihoods.GaussianLikelihood()
    else:
        lik = gpytorch.likelihoods.FixedNoiseGaussianLikelihood(0.03 + 0.2 * util.rand(g, n), learn_additional_noise=lk == "fixed_learned")
    if name == "kiss1d":
        d, kern = 1, K.ScaleKernel(_kiss([16], g))
    elif name == "kiss2d":
        d, kern = 2, K.ScaleKernel(_kiss([9, 12], g))
    elif name == "sgpr":
        d = 2
        kern = K.InducingPointKernel(K.ScaleKernel(K.MaternKernel(nu=2.5)), inducing_points=util.randn(g, 4, 2) * 0.5, likelihood=lik)
    else:
        d, kern = 2, K.ScaleKernel(K.RFFKernel(num_samples=5, num_dims=2))
    n = 9
    X = util.rand(g, n, d) * 1.4 - 0.7
    y = torch.sin(3 * X.sum(-1)) + 0.1 * util.randn(g, n)
    mean = gpytorch.means.ConstantMean()
    m = util.GP(X, y, lik, mean, kern)
    with torch.no_grad():
        if lk == "gaussian":
            lik.noise = 0.05 + float(util.rand(g, 1)) * 0.2
        elif lk == "fixed_learned":
            lik.second_noise = 0.05 + float(util.rand(g, 1)) * 0.2
        mean.constant.fill_(mean_const if mean_const is not None else float(util.randn(g, 1)) * 0.5)
        for mod in kern.modules():
            if isinstance(mod, K.ScaleKernel):
                mod.outputscale = 0.5 + float(util.rand(g, 1))
    xs = util.rand(g, 4, d) * 1.4 - 0.7
    return m.eval(), lik.eval(), X, y, xs


def _strategy(case, ctx, g):
    import torch

    import gpytorch
    from gpytorch import settings as S
    from vf import util

    m, lik, X, y, xs = _mk_model(case["model"], g, lk=case.get("lik", "gaussian"))
    n = X.shape[0]
    sd = {"max_cholesky_size": case["max_cholesky_size"], "fast_pred_var": case["fast_pred_var"], "sgpr_diagonal_correction": case["sgpr_diagonal_correction"], "use_toeplitz": case["use_toeplitz"]}
    iterative = case["max_cholesky_size"] == 0
    if case.get("fast_pred_samples"):
        sd["fast_pred_samples"] = True
    with util.settings_ctx(sd, tight=True, n=2 * n, predict_only=True), torch.no_grad():
        try:
            out = m(xs)
            mean, cov = out.mean, out.covariance_matrix
        except Exception as e:
            ctx.fail("strategy_equals_dense_conditional", f"{case['model']} prediction raised {type(e).__name__}: {str(e)[:160]}", "raise", exc=type(e).__name__, model=case["model"])
            return
        # the approximate matrix the kernel represents, from the library itself (eval mode, same settings)
        J = m.covar_module(torch.cat([X, xs], -2)).to_dense()
        mu = m.mean_module(torch.cat([X, xs], -2))
    Kxx, Ksx, Kss = J[:n, :n], J[n:, :n], J[n:, n:]
    if case["model"] == "sgpr":
        # documented SGPR predictive: K** is the exact base kernel, the data terms are the (diagonally corrected) Nystrom matrix
        with torch.no_grad(), S.lazily_evaluate_kernels(False):
            Kss = m.covar_module.base_kernel(xs).to_dense()
    # per-point observation noise: sigma^2, or the stored fixed noise [+ the learned additional noise]
    s2 = lik.noise.detach().reshape(-1).expand(n)
    ref_m, ref_c, _, _ = util.dense_conditional(Kxx, Ksx, Kss, mu[:n], mu[n:], torch.diag(s2), y)
    tol = ("lanczos" if case["fast_pred_var"] else "iter") if iterative else ((1e-5, 1e-5) if case["fast_pred_var"] else (1e-7, 1e-7))
    cls = f"{case['model']}:{'cg' if iterative else 'chol'}{':love' if case['fast_pred_var'] else ''}" + ("" if case.get("lik", "gaussian") == "gaussian" else ":" + case["lik"])
    if case.get("fast_pred_samples"):
        cls += ":fast_samples"
        tol = "lanczos" if iterative else (1e-5, 1e-5)
    ctx.close("strategy_equals_dense_conditional", mean, ref_m, tol, cls=cls + ":mean", model=case["model"], quantity="mean")
    ctx.close("strategy_equals_dense_conditional", cov, ref_c, tol, cls=cls + ":cov", model=case["model"], quantity="cov")
    if case.get("reload"):
        # still in evaluation mode: other parameter values (and inducing points) are loaded into the model that has just
        # predicted; it then predicts what a freshly built model holding the same state predicts (anchor for the kernel matrix)
        sd_new = {k_: (v_ + 0.3 * util.randn(g, *v_.shape) if (k_.rsplit(".", 1)[-1].startswith("raw_") or k_.endswith("inducing_points")) and "constraint" not in k_ and v_.dtype.is_floating_point else v_)
                  for k_, v_ in m.state_dict().items()}
        m.load_state_dict(sd_new)
        fr, lik_f, _, _, _ = _mk_model(case["model"], util.gen(case["seed"] + 5), lk=case.get("lik", "gaussian"))
        fr.set_train_data(X, y, strict=False)
        fr.load_state_dict(m.state_dict())
        fr.eval()
        with util.settings_ctx(sd, tight=True, n=2 * n, predict_only=True), torch.no_grad():
            out2 = m(xs)
            J2 = fr.covar_module(torch.cat([X, xs], -2)).to_dense()
            mu2 = fr.mean_module(torch.cat([X, xs], -2))
            Kss2 = J2[n:, n:]
            if case["model"] == "sgpr":
                with S.lazily_evaluate_kernels(False):
                    Kss2 = fr.covar_module.base_kernel(xs).to_dense()
        s2b = fr.likelihood.noise.detach().reshape(-1).expand(n)
        rm2, rc2, _, _ = util.dense_conditional(J2[:n, :n], J2[n:, :n], Kss2, mu2[:n], mu2[n:], torch.diag(s2b), y)
        ctx.close("strategy_equals_dense_conditional", out2.mean, rm2, tol, cls=cls + ":mean:reloaded_in_eval_mode", model=case["model"], quantity="mean")
        ctx.close("strategy_equals_dense_conditional", out2.covariance_matrix, rc2, tol, cls=cls + ":cov:reloaded_in_eval_mode", model=case["model"], quantity="cov")


def _strategy_batch(case, ctx, g):
    """the structure-exploiting prediction strategies on BATCHED models (batch of independent GPs, per-element data and
    hyper-parameters): element-wise the dense conditional of the matrix the kernel represents"""
    import torch

    import gpytorch
    from gpytorch import settings as S
    from vf import util

    K = gpytorch.kernels
    B = torch.Size(case["batch"])
    n, ns = 8, 4
    X, y, xs = util.rand(g, *B, n, 2) * 1.4 - 0.7, util.randn(g, *B, n), util.rand(g, *B, ns, 2) * 1.4 - 0.7
    lik = gpytorch.likelihoods.GaussianLikelihood(batch_shape=B)
    name = case["model"]
    if name == "kiss":
        kern = K.ScaleKernel(K.GridInterpolationKernel(K.RBFKernel(batch_shape=B), grid_size=9, num_dims=2, grid_bounds=[(-1.0, 1.0), (-1.0, 1.0)]), batch_shape=B)
    elif name == "sgpr":
        kern = K.InducingPointKernel(K.ScaleKernel(K.MaternKernel(nu=2.5, batch_shape=B), batch_shape=B), inducing_points=util.randn(g, *B, 4, 2) * 0.5, likelihood=lik)
    else:
        kern = K.ScaleKernel(K.RFFKernel(num_samples=5, num_dims=2, batch_shape=B), batch_shape=B)
    m = util.GP(X, y, lik, gpytorch.means.ConstantMean(batch_shape=B), kern)
    util.randomize(m, g, 0.4)
    m.eval()
    try:
        with torch.no_grad(), S.fast_pred_var(case["fast_pred_var"]):
            out = m(xs)
            mean, cov = out.mean, out.covariance_matrix
            J = m.covar_module(torch.cat([X, xs], -2)).to_dense()
            mu = m.mean_module(torch.cat([X, xs], -2))
            Kss = J[..., n:, n:]
            if name == "sgpr":
                with S.lazily_evaluate_kernels(False):
                    Kss = m.covar_module.base_kernel(xs).to_dense()
    except Exception as e:
        ctx.fail("strategy_equals_dense_conditional", f"batched {name} prediction raised {type(e).__name__}: {str(e)[:160]}", "raise", exc=type(e).__name__, model=name, batched=True)
        return
    rm, rc, _, _ = util.dense_conditional(J[..., :n, :n], J[..., n:, :n], Kss, mu[..., :n], mu[..., n:], lik.noise.detach().unsqueeze(-1) * torch.eye(n), y)
    tol = (1e-5, 1e-5) if case["fast_pred_var"] else (1e-7, 1e-7)
    cls = f"{name}:batch{list(B)}{':love' if case['fast_pred_var'] else ''}"
    ctx.close("strategy_equals_dense_conditional", mean, rm, tol, cls=cls + ":mean", model=name, quantity="mean")
    ctx.close("strategy_equals_dense_conditional", cov, rc, tol, cls=cls + ":cov", model=name, quantity="cov")
    # no cross-talk: the two batch elements were given different data and hyper-parameters
    ctx.expect("batch_elements_differ", float((mean[0] - mean[-1]).abs().max()) > 1e-6, "batch elements of the structured model coincide (degenerate cell)")


def _sgpr_bound(case, ctx, g):
    import math

    import torch

    import gpytorch
    from gpytorch import settings as S
    from vf import util

    K = gpytorch.kernels
    n = 10
    lk = case.get("lik", "gaussian")
    if lk == "gaussian":
        lik = gpytorch.likelihoods.GaussianLikelihood()
    else:
        lik = gpytorch.likelihoods.FixedNoiseGaussianLikelihood(0.05 + util.rand(g, n), learn_additional_noise=lk == "fixed_learned")
    X = util.randn(g, n, 2)
    y = torch.sin(X.sum(-1)) + 0.1 * util.randn(g, n)
    kern = K.InducingPointKernel(K.ScaleKernel(K.MaternKernel(nu=2.5)), inducing_points=util.randn(g, case["m"], 2), likelihood=lik)
    m = util.GP(X, y, lik, gpytorch.means.ConstantMean(), kern)
    util.randomize(m, g, 0.4)
    m.train()
    lik.train()
    mll = gpytorch.mlls.ExactMarginalLogLikelihood(lik, m)
    with torch.no_grad():
        got = mll(m(X), y) * n
        Z = kern.inducing_points.detach()
        bk = kern.base_kernel
        Kzz, Kxz, Kxx = _eager(bk, Z, Z), _eager(bk, X, Z), _eager(bk, X, X)
        # per-point noise variances (homoskedastic: all equal; fixed noise: the stored values [+ the learned extra noise])
        if lk == "gaussian":
            s2 = lik.noise.detach().reshape(-1).expand(n).clone()
        else:
            s2 = lik.noise_covar.noise.detach().reshape(-1).clone()
            if lk == "fixed_learned":
                s2 = s2 + lik.second_noise.detach().reshape(-1)
        mx = m.mean_module(X)
        refs = []
        for j in (1e-8, 0.0):
            Q = Kxz @ torch.linalg.inv(Kzz + j * torch.eye(case["m"])) @ Kxz.T
            refs.append(util.mvn_logpdf(y, mx, Q + torch.diag(s2)) - 0.5 * ((torch.diagonal(Kxx) - torch.diagonal(Q)) / s2).sum())
    ctx.close("sgpr_titsias_bound", got, refs[0], (1e-6, 1e-7), cls="sgpr:bound:" + lk, alt=refs[1])
    # textbook SGPR predictive equations (Titsias 2009), diagonal correction off
    m.eval()
    lik.eval()
    xs = util.randn(g, 4, 2)
    with S.sgpr_diagonal_correction(False), torch.no_grad():
        out = m(xs)
        Ksz, Kss = _eager(bk, xs, Z), _eager(bk, xs, xs)
        Sig = torch.linalg.inv(Kzz + Kxz.T @ (Kxz / s2.unsqueeze(-1)))
        ms = m.mean_module(xs)
        mean = ms + Ksz @ Sig @ Kxz.T @ ((y - mx) / s2)
        cov = Kss - Ksz @ torch.linalg.inv(Kzz) @ Ksz.T + Ksz @ Sig @ Ksz.T
    ctx.close("sgpr_predictive_equations", out.mean, mean, (1e-5, 1e-5), cls="sgpr:pred_mean")
    ctx.close("sgpr_predictive_equations", out.covariance_matrix, cov, (1e-5, 1e-5), cls="sgpr:pred_cov")


def _wiski(case, ctx, g):
    import torch

    from vf import util

    name = "kiss1d" if case["dims"] == 1 else "kiss2d"
    late = bool(case.get("late_eval"))
    from gpytorch import settings as S

    with torch.no_grad(), S.fast_pred_var(bool(case.get("fast_pred_var"))):
        m, lik, X, y, xs = _mk_model(name, g, mean_const=case["mean"])
        d = X.shape[-1]
        m(xs)
        cur, Xall, yall = m, X, y
        chain = []
        for level in range(case["depth"]):
            Xf, yf = util.rand(g, 2, d) * 1.4 - 0.7, util.randn(g, 2)
            try:
                cur = cur.get_fantasy_model(Xf, yf)
            except Exception as e:
                ctx.fail("wiski_fantasy", f"KISS-GP get_fantasy_model raised {type(e).__name__}: {str(e)[:160]}", "raise", exc=type(e).__name__)
                return
            Xall, yall = torch.cat([Xall, Xf]), torch.cat([yall, yf])
            chain.append((level, cur, Xall, yall))
            if not late:
                _wiski_check(ctx, case, m, lik, xs, *chain[-1])
        if late:
            # every fantasy model is evaluated for the first time only after it has spawned its own fantasy (creating a
            # fantasy model must leave its source's predictions alone, also a source that has not predicted yet)
            for item in chain:
                _wiski_check(ctx, case, m, lik, xs, *item)
        # siblings: further children of the SAME parent (the root, and the first child) - each carries its parent's data
        # plus its own, nothing of its elder siblings'
        parents = [(m, X, y)] + ([(chain[0][1], chain[0][2], chain[0][3])] if len(chain) > 1 else [])
        for par, Xp, yp in parents:
            for j_ in range(2):
                Xs_, ys_ = util.rand(g, 2, d) * 1.4 - 0.7, util.randn(g, 2)
                try:
                    sib = par.get_fantasy_model(Xs_, ys_)
                except Exception as e:
                    ctx.fail("wiski_fantasy", f"KISS-GP get_fantasy_model (sibling) raised {type(e).__name__}: {str(e)[:160]}", "raise", exc=type(e).__name__)
                    return
                _wiski_check(ctx, dict(case, sibling=True), m, lik, xs, 10 + j_, sib, torch.cat([Xp, Xs_]), torch.cat([yp, ys_]))


def _wiski_check(ctx, case, m, lik, xs, level, cur, Xall, yall):
    import torch

    from vf import util

    out = cur(xs)
    n = Xall.shape[0]
    J = m.covar_module(torch.cat([Xall, xs], -2)).to_dense()
    mu = m.mean_module(torch.cat([Xall, xs], -2))
    rm, rc, _, _ = util.dense_conditional(J[:n, :n], J[n:, :n], J[n:, n:], mu[:n], mu[n:], lik.noise.detach() * torch.eye(n), yall)
    tag = (":late" if case.get("late_eval") else "") + (":love" if case.get("fast_pred_var") else "") + (":sibling" if case.get("sibling") else "")
    ctx.close("wiski_fantasy", out.mean, rm, (1e-6, 1e-6), cls=f"wiski:mean:m{case['mean']}{tag}", level=level, prior_mean=case["mean"], late=bool(case.get("late_eval")))
    ctx.close("wiski_fantasy", out.covariance_matrix, rc, (1e-5, 1e-5) if case.get("fast_pred_var") else (1e-6, 1e-6), cls="wiski:cov" + tag, level=level, late=bool(case.get("late_eval")))


def _interp(case, ctx, g):
    import torch

    from gpytorch.utils.interpolation import Interpolation
    from vf import util
    from vf.oracle import interp as I

    sizes = case["sizes"]
    d = len(sizes)
    grid = [torch.linspace(-1 - 0.1 * i, 1 + 0.2 * i, s) for i, s in enumerate(sizes)]
    lo = torch.stack([gd[2] for gd in grid])
    hi = torch.stack([gd[-3] for gd in grid])
    x = lo + (hi - lo) * util.rand(g, 40, d)  # strictly interior
    idx, val = Interpolation().interpolate(grid, x)
    G = 1
    for s in sizes:
        G *= s
    W = torch.zeros(40, G).scatter_add_(1, idx, val)
    ctx.close("interp_sum_to_one", val.sum(-1), torch.ones(40), (1e-12, 1e-12), cls=f"interp:{d}d")
    ctx.expect("interp_indices_in_range", bool((idx >= 0).all() and (idx < G).all()), f"interpolation index outside the flattened grid of size {G}: [{int(idx.min())}, {int(idx.max())}]", sizes=sizes)
    ctx.close("interp_matrix_equals_tensor_product", W, I.cubic_weights_nd(grid, x), (1e-10, 1e-10), cls=f"interp:{'x'.join(map(str, sizes))}", sizes=sizes)
    full = torch.cartesian_prod(*grid).reshape(-1, d)
    A = util.randn(g, d, d)
    f = lambda p: 0.3 + p @ util.randn(util.gen(case["seed"] + 3), d) + ((p @ (A + A.T)) * p).sum(-1)
    ctx.close("interp_reproduces_quadratics", W @ f(full), f(x), (1e-9, 1e-9), cls=f"interp:quad:{d}d", sizes=sizes)
    # exact at interior grid nodes
    nodes = torch.stack([gd[2 + int(torch.randint(0, len(gd) - 4, (1,), generator=g))] for gd in grid]).unsqueeze(0)
    nodes = torch.cat([nodes, torch.stack([gd[3] for gd in grid]).unsqueeze(0)])
    idn, vn = Interpolation().interpolate(grid, nodes)
    Wn = torch.zeros(2, G).scatter_add_(1, idn, vn)
    hot = (full.unsqueeze(0) - nodes.unsqueeze(1)).abs().sum(-1).argmin(-1)
    ref = torch.zeros(2, G)
    ref[torch.arange(2), hot] = 1.0
    ctx.close("interp_exact_at_nodes", Wn, ref, (1e-10, 1e-10), cls=f"interp:nodes:{d}d", sizes=sizes)
    # the whole grid range, first and last cells included (there: all weight on the nearest node), and the boundary nodes
    # themselves: g_0, g_1, g_{n-2}, g_{n-1}
    lo0, hi0 = torch.stack([gd[0] for gd in grid]), torch.stack([gd[-1] for gd in grid])
    xb_ = lo0 + (hi0 - lo0) * util.rand(g, 60, d)
    edge = util.rand(g, 60, d)
    hcell = torch.stack([gd[1] - gd[0] for gd in grid])
    # a third of the coordinates in the first cell, a third in the last cell (never within 2 % of a midpoint: ties)
    frac = 0.02 + 0.45 * util.rand(g, 60, d) + 0.51 * (util.rand(g, 60, d) > 0.5)
    xb_ = torch.where(edge < 0.33, lo0 + frac * hcell, torch.where(edge < 0.66, hi0 - frac * hcell, xb_))
    mid = ((xb_ - lo0) / hcell) % 1.0
    xb_ = torch.where(((mid - 0.5).abs() < 0.02) & ((edge < 0.66)), xb_ + 0.05 * hcell * (xb_ < (lo0 + hi0) / 2) - 0.05 * hcell * (xb_ >= (lo0 + hi0) / 2), xb_)
    special = torch.stack([torch.stack([gd[j] for gd in grid]) for j in (0, 1, -2, -1)])
    xb_ = torch.cat([xb_, special])
    idb, vb = Interpolation().interpolate(grid, xb_)
    Wb = torch.zeros(xb_.shape[0], G).scatter_add_(1, idb, vb)
    ctx.close("interp_matrix_equals_tensor_product", Wb, I.weights_nd_with_boundaries(grid, xb_), (1e-9, 1e-9), cls=f"interp:with_boundary_cells:{d}d", sizes=sizes)
    ctx.close("interp_sum_to_one", vb.sum(-1), torch.ones(xb_.shape[0]), (1e-12, 1e-12), cls=f"interp:boundary:{d}d")


def _convergence(case, ctx, g):
    import math

    import torch

    from vf import util

    d = case["dims"]
    x1, x2 = util.rand(g, 12, d) * 1.2 - 0.6, util.rand(g, 10, d) * 1.2 - 0.6
    errs = []
    sizes_list = [8, 16, 32, 64] if d == 1 else [8, 12, 18, 27]
    ls = util.rand(util.gen(case["seed"]), 1, d) * 0.5 + 0.6
    for s in sizes_list:
        gik = _kiss([s] * d, util.gen(case["seed"]), kern="rbf" if case["kernel"] == "rbf" else "matern")
        gik.base_kernel.lengthscale = ls
        with torch.no_grad():
            approx = gik(x1, x2).to_dense()
        errs.append(float((approx - _eager(gik.base_kernel, x1, x2)).abs().max()))
    mono = all(b < a for a, b in zip(errs, errs[1:]))
    order = math.log(errs[0] / max(errs[-1], 1e-300)) / math.log(sizes_list[-1] / sizes_list[0])
    ctx.expect("kiss_converges", mono and order >= 2.5, f"sup-errors {['%.2e' % e for e in errs]} over grid sizes {sizes_list}: monotone={mono}, observed order {order:.2f}", errs=errs, order=order)
    ctx.notes[f"convergence_{case['kernel']}_{d}d"] = {"sizes": sizes_list, "sup_errors": errs, "order": order}
