"""C02 - exact MLL and LOO pseudo-likelihood equal their dense definitions (values and gradients).

Monitors: post-condition on the real ExactMarginalLogLikelihood.forward / LeaveOneOutPseudoLikelihood.forward (value vs
dense per-batch-element [log N(y; mx, Kxx+S) + sum of registered log priors at the constrained values] / n), the
gradient of the library scalar w.r.t. every raw parameter vs autograd of the dense expression, a count monitor on
Module.named_priors (every registered prior is enumerated exactly once), anomaly detection during backward.
LOO reference is the literal definition (refit on all-but-i). The CG/SLQ path is decided statistically.
"""
import itertools
import random

PROPERTY = "C02"
RULE = (
    'case = (kernel spec, mean, likelihood in {gauss, fixed, fixed+learn, multitask rank 0/1}, n, d, batch shape, prior assignment (independent '
    'priors per parameter, one prior INSTANCE shared by two parameters, registration by closure or by parameter name, constructor `*_prior=` '
    'arguments), objective evaluated on the model or on a deep copy with moved hyper-parameters, objective in {mll, loo, sum_mll}, path in '
    '{cholesky, default, cg+slq (statistical, K repetitions)}, seed); distinct = cell without seed; non-trivial iff n>=2 and at least one '
    'gradient component is > 1e-6'
    '; pass 5: the objective called with a call-time noise= keyword (fixed-noise likelihoods); registered added loss terms on a direct child, the kernel, ModuleList and ModuleDict members; gradient tolerance follows cond(K+S)'
    "; pass 6: heteroskedastic-noise objective (value and gradients incl. the noise GP's parameters); SGPR collapsed bound under homoskedastic / fixed / fixed+learned noise (shared with C09)"
    "; pass 8: objectives handed a likelihood object other than the model's own (other noise level, fixed noise, a deep copy scored with the original's likelihood)"
    "; pass 9: the objective of a model obtained through get_fantasy_model (Gaussian, fixed, fixed + learned noise): value and gradients against the dense density of the concatenated data"
)
REQUIRED = ["mll_value", "mll_grad", "added_terms_enumerated", "loo_value", "priors_enumerated", "sum_mll_is_mean", "mll_value_stochastic"]
ASSUMPTIONS = [
    "reference prior densities are torch.distributions of the documented family evaluated at the constrained value read through the public property",
    "gradients on the dense paths are compared at max(1e-7, 1e-14*cond(K+S)) relative+absolute; cells with cond(K+S) > 1e9 are decided on the value only",
    "CG+SLQ path: K=24 repetitions, |mean - ref| <= 5 s.e. + 2e-3*|ref| + 1e-3 (value) ; gradients on that path compared at 5 s.e. + 5e-2 relative",
]
ANCHOR_FILES = ["gpytorch/mlls/", "gpytorch/module.py", "gpytorch/distributions/multivariate_normal.py"]

KERNELS = [
    {"k": "scale", "base": {"k": "rbf"}},
    {"k": "scale", "base": {"k": "matern", "nu": 2.5, "ard": True}},
    {"k": "sum", "parts": [{"k": "scale", "base": {"k": "rbf"}}, {"k": "scale", "base": {"k": "matern", "nu": 1.5}}]},
    {"k": "scale", "base": {"k": "periodic"}},
    {"k": "prod", "parts": [{"k": "rbf"}, {"k": "scale", "base": {"k": "rq"}}]},
]
BATCH = [[], [2], [3, 2]]


def cases(tier, seed):
    rnd = random.Random(2000 + seed)
    reps = 4 if tier == "quick" else 150
    for rep in range(reps):
        for ki, kern in enumerate(KERNELS):
            for lik in ("gauss", "fixed", "fixed+learn"):
                for obj in ("mll", "loo"):
                    b = rnd.choice(BATCH)
                    yield {
                        "kernel": kern, "mean": rnd.choice(["zero", "constant", "linear", "constant_constrained", "linear_nobias"]), "lik": lik, "n": rnd.choice([1, 2, 5, 9]), "d": rnd.choice([1, 2]),
                        "batch": b, "priors": rnd.choice(["none", "independent", "shared", "independent"]), "objective": obj,
                        "path": rnd.choice(["cholesky", "default", "default"]), "seed": rnd.randrange(10**6),
                        # how the priors were registered (closure / parameter name) and whether the objective is evaluated on
                        # the model itself or on a deep copy whose hyper-parameters have moved since
                        "reg": rnd.choice(["closure", "name"]), "copy": rnd.choice([False, False, True]),
                        "freeze": rnd.choice([None, None, "some", "all"]),
                    }
        for t, rank, flags in ((2, 0, [True, True]), (3, 1, [True, True]), (2, 2, [True, True]), (3, 1, [False, True]), (3, 3, [False, True]), (2, 0, [True, False]), (3, 2, [False, True])):
            yield {"kernel": KERNELS[rep % 2], "lik": "mt", "t": t, "rank": rank, "mt_flags": flags, "n": rnd.choice([1, 4]), "d": 1, "batch": [], "priors": rnd.choice(["none", "independent"]),
                   "objective": "mll", "path": "cholesky", "seed": rnd.randrange(10**6)}
        # single observation / as many observations as batch elements, under batch shapes (squeeze hazards)
        for n_, b_ in ((1, [2]), (1, [3, 2]), (1, [2, 2]), (2, [2]), (3, [3]), (2, [3, 1])):
            for obj in ("loo", "mll"):
                yield {"kernel": KERNELS[rep % 2], "mean": "constant", "lik": rnd.choice(["gauss", "fixed"]), "n": n_, "d": 1, "batch": b_, "priors": "none", "objective": obj,
                       "path": "cholesky", "seed": rnd.randrange(10**6)}
        # registered added loss terms, on modules reached directly and through plain torch containers
        for ki in (0, 2):
            for b_ in ([], [2]):
                yield {"kernel": KERNELS[ki], "mean": "constant", "lik": rnd.choice(["gauss", "fixed+learn"]), "n": rnd.choice([2, 5]), "d": 1, "batch": b_, "priors": rnd.choice(["none", "independent"]),
                       "objective": "mll", "path": rnd.choice(["cholesky", "default"]), "added": True, "seed": rnd.randrange(10**6)}
        # SGPR (inducing-point kernel): the objective is the collapsed bound = dense log density of the Nystrom model + the
        # kernel's registered added loss term, under homoskedastic / fixed / fixed+learned noise (shared with C09)
        for m_, lk in itertools.product((2, 4), ("gaussian", "fixed", "fixed_learned")):
            yield {"kind": "sgpr_bound", "m": m_, "lik": lk, "objective": "mll", "seed": rnd.randrange(10**6)}
        # heteroskedastic noise (a noise GP inside the likelihood): value and gradients w.r.t. every parameter, the noise GP's included
        for n_ in (4, 7):
            yield {"kind": "hetero", "n": n_, "objective": "mll", "seed": rnd.randrange(10**6)}
        # the objective is handed a likelihood OBJECT: its noise is the S of the definition, also when the model was built
        # with another object (scoring a model under another noise level / noise model; a deep copy scored with the original's)
        for which, n_ in itertools.product(("other_gauss", "fixed", "deepcopy_then_move"), (3, 6)):
            yield {"kind": "other_likelihood", "which": which, "n": n_, "objective": "mll", "seed": rnd.randrange(10**6)}
        # the objective of a model obtained through get_fantasy_model (its likelihood carries the old and the new fixed noise,
        # the learned additional noise once): dense log density of the concatenated data
        for lk_, n_ in itertools.product(("gauss", "fixed", "fixed+learn"), (3, 5)):
            yield {"kind": "fantasy_mll", "lik": lk_, "n": n_, "objective": "mll", "seed": rnd.randrange(10**6)}
        # priors handed to the constructors (`<parameter>_prior=`): each must enter at the constrained value of ITS parameter
        for variant in ("cyl", "std"):
            yield {"kernel": {"k": "ctor_" + variant}, "mean": "constant", "lik": "gauss", "n": rnd.choice([3, 6]), "d": 2, "batch": [], "priors": "ctor", "objective": rnd.choice(["mll", "loo"]),
                   "path": "cholesky", "seed": rnd.randrange(10**6)}
        yield {"objective": "sum_mll", "members": [rnd.choice([3, 5, 8]) for _ in range(rnd.choice([2, 3]))], "priors": "independent", "seed": rnd.randrange(10**6)}
    for rep in range(2 if tier == "quick" else 24):
        yield {"kernel": KERNELS[rep % 2], "mean": "constant", "lik": "gauss", "n": rnd.choice([8, 12]), "d": 1, "batch": rnd.choice([[], [2]]), "priors": "independent",
               "objective": "mll", "path": "cg", "seed": rnd.randrange(10**6)}


_ST = {}


def setup(ctx):
    import gpytorch
    from vf import attach

    _ST["ctx"] = ctx
    attach.count(gpytorch.mlls.ExactMarginalLogLikelihood, "forward", ctx, "monitor:mll_forward_calls")
    attach.count(gpytorch.mlls.ExactMarginalLogLikelihood, "_add_other_terms", ctx, "monitor:add_other_terms_calls")
    attach.count(gpytorch.mlls.LeaveOneOutPseudoLikelihood, "forward", ctx, "monitor:loo_forward_calls")


# (accessor name on module, torch.distributions factory) ; priors are registered from the harness through register_prior
def _prior_specs(rnd_g):
    import torch

    import gpytorch

    P = gpytorch.priors
    return [
        ("gamma", lambda: P.GammaPrior(2.0, 1.5), lambda v: torch.distributions.Gamma(2.0, 1.5).log_prob(v)),
        ("lognormal", lambda: P.LogNormalPrior(0.1, 0.8), lambda v: torch.distributions.LogNormal(0.1, 0.8).log_prob(v)),
        ("halfcauchy", lambda: P.HalfCauchyPrior(1.3), lambda v: torch.distributions.HalfCauchy(1.3).log_prob(v)),
        ("normal", lambda: P.NormalPrior(0.2, 1.1), lambda v: torch.distributions.Normal(0.2, 1.1).log_prob(v)),
    ]


def _targets(model):
    """(module, attribute name) of every constrained positive hyper-parameter + constant mean"""
    import gpytorch

    out = []
    for name, mod in model.named_modules():
        if isinstance(mod, gpytorch.kernels.Kernel) and getattr(mod, "has_lengthscale", False):
            out.append((mod, "lengthscale", True))
        if isinstance(mod, gpytorch.kernels.ScaleKernel):
            out.append((mod, "outputscale", True))
        if isinstance(mod, gpytorch.kernels.PeriodicKernel):
            out.append((mod, "period_length", True))
        if isinstance(mod, gpytorch.kernels.RQKernel):
            out.append((mod, "alpha", True))
        if isinstance(mod, gpytorch.likelihoods.noise_models._HomoskedasticNoiseBase):
            out.append((mod, "noise", True))
        if isinstance(mod, gpytorch.means.ConstantMean):
            out.append((mod, "constant", False))
    return out


def attach_priors(model, mode, g, reg="closure"):
    """registers priors through the public register_prior; returns the reference list [(module, attr, logpdf)]"""
    import torch

    specs = _prior_specs(g)
    ref = []
    if mode == "none":
        return ref
    tg = _targets(model)
    shared = None
    for i, (mod, attr, positive) in enumerate(tg):
        pick = int(torch.randint(0, 3 if positive else 4, (1,), generator=g))
        if not positive:
            pick = 3
        name, make, logpdf = specs[pick]
        if mode == "shared" and positive:
            if shared is None:
                shared = (make(), logpdf)
            prior, logpdf = shared
        else:
            prior = make()
        mod.register_prior(f"vf_{attr}_prior", prior, attr if reg == "name" else (lambda a: (lambda m: getattr(m, a)))(attr))
        ref.append((mod, attr, logpdf))
    return ref


def _build(case, g):
    import torch

    import gpytorch
    from vf import util

    n, d, b = case["n"], case["d"], case["batch"]
    X = util.randn(g, *b, n, d)
    if case["lik"] == "mt":
        t = case["t"]
        y = util.randn(g, n, t)
        flags = case.get("mt_flags", [True, True])  # (has_global_noise, has_task_noise)
        lik = gpytorch.likelihoods.MultitaskGaussianLikelihood(num_tasks=t, rank=case["rank"], has_global_noise=flags[0], has_task_noise=flags[1])
        model = util.MTGP(X, y, lik, t, max(1, case["rank"]), case["kernel"], d)
    else:
        y = util.randn(g, *b, n)
        if case["lik"] == "gauss":
            lik = gpytorch.likelihoods.GaussianLikelihood(batch_shape=torch.Size(b))
        else:
            lik = gpytorch.likelihoods.FixedNoiseGaussianLikelihood(noise=util.rand(g, *b, n) * 0.5 + 0.05, learn_additional_noise=case["lik"] == "fixed+learn", batch_shape=torch.Size(b))
        model = util.GP(X, y, lik, util.build_mean(case["mean"], d, b), util.build_kernel(case["kernel"], d, b))
    util.randomize(model, g, 0.5)
    return model, lik, X, y


def _build_ctor(case, g):
    import torch

    import gpytorch
    from vf import util

    K, P = gpytorch.kernels, gpytorch.priors
    n, d = case["n"], case["d"]
    gam = lambda a, b_: (P.GammaPrior(a, b_), (lambda v, a=a, b_=b_: torch.distributions.Gamma(a, b_).log_prob(v)))  # noqa: E731
    ref = []

    def use(pair, owner_getter, attr):
        ref.append((owner_getter, attr, pair[1]))
        return pair[0]

    if case["kernel"]["k"] == "ctor_cyl":
        v = util.randn(g, n, d)
        X = v / v.norm(dim=-1, keepdim=True) * (0.1 + 0.8 * util.rand(g, n, 1))
        kern = K.ScaleKernel(
            K.CylindricalKernel(3, K.MaternKernel(nu=2.5, lengthscale_prior=use(gam(2.0, 1.5), lambda m: m.covar_module.base_kernel.radial_base_kernel, "lengthscale")),
                                angular_weights_prior=use(gam(1.5, 2.0), lambda m: m.covar_module.base_kernel, "angular_weights"),
                                alpha_prior=use(gam(2.5, 1.0), lambda m: m.covar_module.base_kernel, "alpha"), beta_prior=use(gam(3.0, 2.5), lambda m: m.covar_module.base_kernel, "beta")),
            outputscale_prior=use(gam(2.0, 0.7), lambda m: m.covar_module, "outputscale"))
    else:
        X = util.randn(g, n, d)
        kern = K.ScaleKernel(K.PeriodicKernel(period_length_prior=use(gam(2.0, 1.5), lambda m: m.covar_module.base_kernel, "period_length"),
                                              lengthscale_prior=use(gam(3.0, 2.5), lambda m: m.covar_module.base_kernel, "lengthscale")),
                             outputscale_prior=use(gam(2.0, 0.7), lambda m: m.covar_module, "outputscale"))
    lik = gpytorch.likelihoods.GaussianLikelihood(noise_prior=use(gam(1.2, 3.0), lambda m: m.likelihood, "noise"))
    mean = gpytorch.means.ConstantMean(constant_prior=P.NormalPrior(0.3, 1.2))
    ref.append((lambda m: m.mean_module, "constant", lambda v: torch.distributions.Normal(0.3, 1.2).log_prob(v)))
    y = util.randn(g, n)
    model = util.GP(X, y, lik, mean, kern)
    util.randomize(model, g, 0.5)
    return model, lik, X, y, [(getter(model), attr, logpdf) for getter, attr, logpdf in ref]


_COND = {}


def _attach_added(model, b, g):
    """register one added loss term each on: a direct child module, the kernel, two modules inside a torch.nn.ModuleList, one
    inside a torch.nn.ModuleDict. Returns [(holder, coefficient)]: the term's value is coefficient * sum(holder.w^2)."""
    import torch

    import gpytorch
    from vf import util

    class Holder(gpytorch.Module):
        def __init__(s):
            super().__init__()
            s.w = torch.nn.Parameter(util.randn(g, *b, 2))
            s.register_added_loss_term("vf_term")

    class Term(gpytorch.mlls.AddedLossTerm):
        def __init__(s, h, c):
            s.h, s.c = h, c

        def loss(s, *params):
            return s.c * (s.h.w**2).sum(-1)

    hs = [Holder() for _ in range(5)]
    model.vf_direct = hs[0]
    model.vf_list = torch.nn.ModuleList([hs[1], hs[2]])
    model.vf_dict = torch.nn.ModuleDict({"a": hs[3]})
    model.covar_module.vf_inner = hs[4]
    out = []
    for i, h in enumerate(hs):
        c = 0.1 * (i + 1) * (-1) ** i
        h.update_added_loss_term("vf_term", Term(h, c))
        out.append((h, c))
    return out


def _dense_logp(model, lik, X, y, mt, call_noise=None):
    """per batch element log N(y; mx, Kxx+S), differentiable w.r.t. the raw parameters, dense algebra only"""
    import torch

    import gpytorch
    from gpytorch import settings as S
    from vf import util

    with S.lazily_evaluate_kernels(False):
        K = model.covar_module(X).to_dense()
        mx = util.mean_oracle(model.mean_module, X)
    n = X.shape[-2]
    if mt:
        t = y.shape[-1]
        D = torch.zeros(t, t)
        if getattr(lik, "has_task_noise", True):
            D = D + (torch.diag_embed(lik.task_noises) if lik.rank == 0 else lik.task_noise_covar)
        if getattr(lik, "has_global_noise", True):
            D = D + lik.noise * torch.eye(t)
        A = K + torch.kron(torch.eye(n), D)
        _COND["A"] = float(torch.linalg.cond(A.detach()).max())
        return util.mvn_logpdf(y.reshape(-1), mx.reshape(-1), A), n * t
    if isinstance(lik, gpytorch.likelihoods.FixedNoiseGaussianLikelihood):
        # a noise given at call time stands in for the stored fixed noise (documented); the learned part stays
        r = lik.noise_covar.noise if call_noise is None else call_noise
        Sn = torch.diag_embed(r.expand(*K.shape[:-2], n))
        if lik.second_noise_covar is not None:
            Sn = Sn + lik.second_noise.unsqueeze(-1) * torch.eye(n)
    else:
        Sn = lik.noise.unsqueeze(-1) * torch.eye(n)
    _COND["A"] = float(torch.linalg.cond((K + Sn).detach()).max())
    return util.mvn_logpdf(y, mx, K + Sn), n


def _prior_sum(ref, res_ndim):
    import torch

    tot = 0.0
    for mod, attr, logpdf in ref:
        v = getattr(mod, attr)
        lp = logpdf(v)
        tot = tot + lp.reshape(*lp.shape[:res_ndim], -1).sum(-1)
    return tot


def _hetero(case, ctx, g):
    """exact MLL under a heteroskedastic likelihood: log N(y; m, K + diag(r(X))) with r = constraint(posterior mean of the noise
    GP at X), as a function of ALL raw parameters (kernel, mean, the noise GP's kernel / mean / noise)"""
    import torch

    import gpytorch
    from vf import util

    n = case["n"]
    X = util.randn(g, n, 2)
    y = util.randn(g, n)
    Xn, yn = util.randn(g, 5, 2), util.randn(g, 5) * 0.5 - 1.0
    K, L = gpytorch.kernels, gpytorch.likelihoods
    noise_lik = L.GaussianLikelihood()
    noise_gp = util.GP(Xn, yn, noise_lik, gpytorch.means.ConstantMean(), K.ScaleKernel(K.RBFKernel()))
    cons = gpytorch.constraints.GreaterThan(1e-3)
    lik = L.gaussian_likelihood._GaussianLikelihoodBase(L.noise_models.HeteroskedasticNoise(noise_gp, noise_constraint=cons))
    model = util.GP(X, y, lik, gpytorch.means.ConstantMean(), K.ScaleKernel(K.MaternKernel(nu=2.5)))
    util.randomize(model, g, 0.4)
    model.train()
    lik.train()
    params = [p for p in model.parameters() if p.requires_grad]
    names = [nm for nm, p in model.named_parameters() if p.requires_grad]
    mll = gpytorch.mlls.ExactMarginalLogLikelihood(lik, model)
    got = mll(model(X), y, X)
    ggot = torch.autograd.grad(got, params, allow_unused=True)
    # dense reference (differentiable): noise GP posterior mean at X by dense algebra
    with gpytorch.settings.lazily_evaluate_kernels(False):
        kn = noise_gp.covar_module
        Knn, Kxn = kn(Xn).to_dense(), kn(X, Xn).to_dense()
        mn, mxn = noise_gp.mean_module(Xn), noise_gp.mean_module(X)
        alpha = torch.linalg.solve(Knn + noise_lik.noise * torch.eye(5), (yn - mn).unsqueeze(-1)).squeeze(-1)
        r = cons.transform(mxn + Kxn @ alpha)
        Kxx = model.covar_module(X).to_dense()
        ref = util.mvn_logpdf(y, model.mean_module(X), Kxx + torch.diag(r)) / n
    gref = torch.autograd.grad(ref, params, allow_unused=True)
    ctx.close("mll_value", got, ref, "direct", cls="mll:hetero")
    for nm, a_, r_ in zip(names, ggot, gref):
        if a_ is None and r_ is None:
            continue
        a_ = torch.zeros_like(r_) if a_ is None else a_
        r_ = torch.zeros_like(a_) if r_ is None else r_
        ctx.close("mll_grad", a_, r_, (1e-7, 1e-7), cls="mll:hetero:grad:" + ("noise_gp" if "noise_model" in nm else "model"), parameter=nm)
    ctx.cell({k: v for k, v in case.items() if k != "seed"}, nontrivial=True)


def _fantasy_mll(case, ctx, g):
    import torch

    import gpytorch
    from vf import util

    n, k = case["n"], 2
    X, y = util.randn(g, n, 2), util.randn(g, n)
    fixed = util.rand(g, n) * 0.4 + 0.05
    if case["lik"] == "gauss":
        lik = gpytorch.likelihoods.GaussianLikelihood()
    else:
        lik = gpytorch.likelihoods.FixedNoiseGaussianLikelihood(noise=fixed.clone(), learn_additional_noise=case["lik"] == "fixed+learn")
    m = util.GP(X, y, lik, gpytorch.means.ConstantMean(), gpytorch.kernels.ScaleKernel(gpytorch.kernels.RBFKernel()))
    util.randomize(m, g, 0.5)
    m.eval()
    Xf, yf, nf = util.randn(g, k, 2), util.randn(g, k), util.rand(g, k) * 0.4 + 0.05
    with torch.no_grad():
        m(util.randn(g, 3, 2))
        fm = m.get_fantasy_model(Xf, yf, **({"noise": nf} if case["lik"] != "gauss" else {}))
    fm.train()
    fm.likelihood.train()
    mll = gpytorch.mlls.ExactMarginalLogLikelihood(fm.likelihood, fm)
    got = mll(fm(*fm.train_inputs), fm.train_targets)
    Xa, ya = torch.cat([X, Xf]), torch.cat([y, yf])
    mx, Kxx = fm.mean_module(Xa), fm.covar_module(Xa).to_dense()
    if case["lik"] == "gauss":
        S_ = fm.likelihood.noise * torch.eye(n + k)
    else:
        S_ = torch.diag(torch.cat([fixed, nf])) + ((fm.likelihood.second_noise * torch.eye(n + k)) if case["lik"] == "fixed+learn" else 0.0)
    ref = util.mvn_logpdf(ya, mx, Kxx + S_) / (n + k)
    ctx.close("mll_value", got, ref, "direct", cls="mll:fantasy_model:" + case["lik"])
    ps = [p_ for p_ in fm.parameters() if p_.requires_grad]
    gg, gr = torch.autograd.grad(got, ps, allow_unused=True, retain_graph=True), torch.autograd.grad(ref, ps, allow_unused=True)
    for a_, b_ in zip(gg, gr):
        if b_ is not None:
            ctx.close("mll_grad", torch.zeros_like(b_) if a_ is None else a_, b_, (1e-8, 1e-7), cls="mll:fantasy_model:grad:" + case["lik"])
    ctx.cell({k_: v_ for k_, v_ in case.items() if k_ != "seed"}, nontrivial=True)


def _other_likelihood(case, ctx, g):
    import copy

    import torch

    import gpytorch
    from vf import util

    n = case["n"]
    X, y = util.randn(g, n, 2), util.randn(g, n)
    lik = gpytorch.likelihoods.GaussianLikelihood()

    class _M(gpytorch.models.ExactGP):
        def __init__(s):
            super().__init__(X, y, lik)
            s.mean_module = gpytorch.means.ConstantMean()
            s.covar_module = gpytorch.kernels.ScaleKernel(gpytorch.kernels.RBFKernel())

        def forward(s, x):
            return gpytorch.distributions.MultivariateNormal(s.mean_module(x), s.covar_module(x))

    model = _M()
    util.randomize(model, g, 0.5)
    if case["which"] == "other_gauss":
        lik2 = gpytorch.likelihoods.GaussianLikelihood()
        lik2.noise = float(lik.noise) * 3.0 + 0.2
        scored = model
    elif case["which"] == "fixed":
        lik2 = gpytorch.likelihoods.FixedNoiseGaussianLikelihood(noise=util.rand(g, n) * 0.5 + 0.05, learn_additional_noise=True)
        util.randomize(lik2, g, 0.4)
        scored = model
    else:
        # the copy is scored with the ORIGINAL's likelihood object (tied noise); the copy's own likelihood then moves
        scored = copy.deepcopy(model)
        lik2 = lik
        with torch.no_grad():
            scored.likelihood.raw_noise.add_(1.3)
    scored.train()
    lik2.train()
    mll = gpytorch.mlls.ExactMarginalLogLikelihood(lik2, scored)
    got = mll(scored(X), y)
    mx, Kxx = scored.mean_module(X), scored.covar_module(X).to_dense()
    S_ = torch.diag_embed(lik2.noise.expand(n)) if case["which"] != "fixed" else torch.diag_embed(lik2.noise_covar.noise + lik2.second_noise)
    ref = util.mvn_logpdf(y, mx, Kxx + S_) / n
    ctx.close("mll_value", got, ref, "direct", cls="mll:objective_likelihood:" + case["which"])
    p2 = [p_ for p_ in lik2.parameters()]
    gg = torch.autograd.grad(got, p2, allow_unused=True, retain_graph=True)
    gr = torch.autograd.grad(ref, p2, allow_unused=True)
    for a_, b_ in zip(gg, gr):
        ctx.close("mll_grad", torch.zeros_like(b_) if a_ is None else a_, b_, (1e-8, 1e-7), cls="mll:objective_likelihood:grad:" + case["which"])
    if scored.likelihood is not lik2:
        own = torch.autograd.grad(got, list(scored.likelihood.parameters()), allow_unused=True)
        ctx.expect("mll_grad", all(o_ is None or bool((o_ == 0).all()) for o_ in own), "the objective depends on the model's own likelihood although it was handed another one", which=case["which"])
    ctx.cell({k: v for k, v in case.items() if k != "seed"}, nontrivial=True)


def run_case(case, ctx):
    import torch

    import gpytorch
    from gpytorch import settings as S
    from vf import util

    g = util.gen(case["seed"])
    if case.get("kind") == "hetero":
        return _hetero(case, ctx, g)
    if case.get("kind") == "other_likelihood":
        return _other_likelihood(case, ctx, g)
    if case.get("kind") == "fantasy_mll":
        return _fantasy_mll(case, ctx, g)
    if case.get("kind") == "sgpr_bound":
        from vf.checks import c09

        ctx.hit("mll_value", 0)
        r_ = c09._sgpr_bound(case, ctx, g)
        ctx.cell({k: v for k, v in case.items() if k != "seed"}, nontrivial=True)
        return r_
    if case["objective"] == "sum_mll":
        return _sum_mll(case, ctx, g)
    early = None
    if case["priors"] == "ctor":
        model, lik, X, y, ref_priors = _build_ctor(case, g)
    else:
        model, lik, X, y = _build(case, g)
        if case["seed"] % 2 == 0 and case["objective"] in ("mll", "loo") and not case.get("copy"):
            # the objective OBJECT exists and has been evaluated before the priors are registered (a user adding priors
            # while experimenting): its later values still contain every registered prior
            model.train()
            lik.train()
            early = (gpytorch.mlls.ExactMarginalLogLikelihood if case["objective"] == "mll" else gpytorch.mlls.LeaveOneOutPseudoLikelihood)(lik, model)
            with torch.no_grad():
                early(model(X), y)
        ref_priors = attach_priors(model, case["priors"], g, case.get("reg", "closure"))
    added = _attach_added(model, case["batch"], g) if case.get("added") else []
    mt = case["lik"] == "mt"
    if case.get("copy"):
        import copy

        names = {id(mod): name for name, mod in model.named_modules()}
        paths = [names[id(mod)] for mod, _, _ in ref_priors]
        model = copy.deepcopy(model)
        lik = model.likelihood
        util.randomize(model, util.gen(case["seed"] + 77), 0.5)
        if hasattr(lik, "noise_covar") and hasattr(lik.noise_covar, "noise") and case["lik"] in ("fixed", "fixed+learn"):
            pass  # the fixed noise is a buffer, untouched by randomize
        byname = dict(model.named_modules())
        ref_priors = [(byname[p_], attr, logpdf) for p_, (_, attr, logpdf) in zip(paths, ref_priors)]
        X, y = model.train_inputs[0], model.train_targets
    if case.get("freeze") and ref_priors:
        # hyper-parameters that carry a prior are frozen (requires_grad False): their prior terms are still part of the objective
        owners = []
        for mod_, _, _ in ref_priors:
            if id(mod_) not in [id(o) for o in owners]:
                owners.append(mod_)
        for mod_ in owners[:: 2 if case["freeze"] == "some" else 1]:
            for p_ in mod_.parameters():
                p_.requires_grad_(False)
        ctx.hit("info:frozen_prior_owners")
    model.train()
    lik.train()
    n_enum = len(list(model.named_priors()))
    ctx.expect("priors_enumerated", n_enum == len(ref_priors), f"named_priors() yields {n_enum} priors, {len(ref_priors)} were registered (mode {case['priors']})")
    params = [p for p in model.parameters() if p.requires_grad]
    obj = case["objective"]
    cls = f"{obj}:{case['lik']}:{case['path']}"
    b = case["batch"]

    def dense_objective():
        lp, ndata = _dense_logp(model, lik, X, y, mt)
        for h, c in added:
            lp = lp + c * (h.w**2).sum(-1)
        return (lp + _prior_sum(ref_priors, len(b))) / ndata

    if added:
        n_terms = len(list(model.added_loss_terms()))
        ctx.expect("added_terms_enumerated", n_terms == len(added), f"added_loss_terms() yields {n_terms} terms, {len(added)} were registered (direct child, kernel, ModuleList, ModuleDict)")

    if obj == "loo":
        with torch.no_grad():
            ref = _loo_literal(model, lik, X, y) + _prior_sum(ref_priors, len(b)) / case["n"]
        loo = early if early is not None else gpytorch.mlls.LeaveOneOutPseudoLikelihood(lik, model)
        got = loo(model(X), y)
        ctx.close("loo_value", got, ref, "direct", cls=cls)
        ctx.cell({k: v for k, v in case.items() if k != "seed"}, nontrivial=case["n"] >= 2)
        return
    mll = early if early is not None else gpytorch.mlls.ExactMarginalLogLikelihood(lik, model)
    ref = dense_objective()
    gref = torch.autograd.grad(ref.sum(), params, allow_unused=True) if params else []
    if case["path"] == "cg":
        K = 24
        vals, grads = [], []
        with util.settings_ctx({"max_cholesky_size": 0}, tight=True, n=2 * case["n"]), S.num_trace_samples(10), S.skip_logdet_forward(False):
            for r in range(K):
                torch.manual_seed(case["seed"] + r)
                v = mll(model(X), y)
                gg = torch.autograd.grad(v.sum(), params, allow_unused=True)
                vals.append(v.detach())
                grads.append(torch.cat([x.reshape(-1) for x in gg if x is not None]))
        V = torch.stack(vals)
        mean, se = V.mean(0), V.std(0) / K**0.5
        z = ((mean - ref.detach()).abs() - 2e-3 * ref.detach().abs() - 1e-3).clamp_min(0) / se.clamp_min(1e-12)
        ctx.expect("mll_value_stochastic", bool((z < 5).all()), f"CG+SLQ MLL mean {mean.tolist()} vs dense {ref.detach().tolist()} (se {se.tolist()}, K={K})", z=float(z.max()))
        G = torch.stack(grads)
        gm, gse = G.mean(0), G.std(0) / K**0.5
        gr = torch.cat([x.reshape(-1) for x in gref if x is not None])
        zg = ((gm - gr).abs() - 5e-2 * gr.abs() - 5e-3).clamp_min(0) / gse.clamp_min(1e-12)
        ctx.expect("mll_grad_stochastic", bool((zg < 5).all()), f"CG+SLQ gradient deviates: max z {float(zg.max()):.1f}", z=float(zg.max()))
        ctx.notes["stochastic_K"] = K
        ctx.cell({k: v for k, v in case.items() if k != "seed"})
        return
    sd = {"fast_computations": [False, False, False]} if case["path"] == "cholesky" else {}
    with util.settings_ctx(sd, tight=False), torch.autograd.set_detect_anomaly(True):
        got = mll(model(X), y)
        ggot = torch.autograd.grad(got.sum(), params, allow_unused=True) if params else []
    # the value loses cond(K+S)*eps digits on both sides (near-singular task-noise structures without a global noise reach
    # cond 1e10 and log densities of 1e6): 1e-8 up to cond 1e7, then proportional, capped at 1e-6
    vt_ = min(max(1e-8, 1e-15 * _COND.get("A", 1.0)), 1e-6)
    ctx.close("mll_value", got, ref, (1e-8, vt_), cls=cls + (":frozen_" + case["freeze"] if case.get("freeze") else ""))
    nz = False
    # gradients of both sides lose cond(K+S)*eps digits: 1e-7 up to cond 1e7, then proportional (1e-5 at cond 1e9 is the cap:
    # worse-conditioned cells are decided on the value only)
    cond = _COND.get("A", 1.0)
    gt = min(max(1e-7, 1e-14 * cond), 1e-5)
    if cond > 1e9:
        ctx.hit("info:grad_skipped_cond>1e9")
        params, ggot, gref = [], [], []
    for p, a, r in zip(params, ggot, gref):
        if r is None and a is None:
            continue
        a = torch.zeros_like(p) if a is None else a
        r = torch.zeros_like(p) if r is None else r
        ctx.close("mll_grad", a, r, (gt, gt), cls=cls + ":grad")
        nz = nz or float(r.abs().max()) > 1e-6
    if isinstance(lik, gpytorch.likelihoods.FixedNoiseGaussianLikelihood) and not case.get("copy"):
        # keyword arguments of the objective reach the likelihood: per-call observation noise
        s_call = util.rand(util.gen(case["seed"] + 5), *b, case["n"]) * 0.4 + 0.03
        with torch.no_grad():
            lp, ndata = _dense_logp(model, lik, X, y, False, call_noise=s_call)
            for h, c in added:
                lp = lp + c * (h.w**2).sum(-1)
            ref_c = (lp + _prior_sum(ref_priors, len(b))) / ndata
            with util.settings_ctx(sd, tight=False):
                got_c = mll(model(X), y, noise=s_call)
        ctx.close("mll_value", got_c, ref_c, "direct", cls=cls + ":call_time_noise")
    ctx.cell({k: v for k, v in case.items() if k != "seed"}, nontrivial=case["n"] >= 2 and nz)


def _loo_literal(model, lik, X, y):
    """average over i of log N(y_i; mu_{-i}, sigma^2_{-i}) with the model refit on all-but-i (dense)"""
    import math

    import torch

    import gpytorch
    from gpytorch import settings as S

    with S.lazily_evaluate_kernels(False):
        K = model.covar_module(X).to_dense()
        mx = model.mean_module(X)
    n = X.shape[-2]
    if isinstance(lik, gpytorch.likelihoods.FixedNoiseGaussianLikelihood):
        Sn = torch.diag_embed(lik.noise_covar.noise.expand(*K.shape[:-2], n))
        if lik.second_noise_covar is not None:
            Sn = Sn + lik.second_noise.unsqueeze(-1) * torch.eye(n)
    else:
        Sn = lik.noise.unsqueeze(-1) * torch.eye(n)
    A = K + Sn
    tot = 0.0
    for i in range(n):
        keep = [j for j in range(n) if j != i]
        if keep:
            Aoo = A[..., keep, :][..., :, keep]
            aio = A[..., i, keep]
            sol = torch.linalg.solve(Aoo, (y[..., keep] - mx[..., keep]).unsqueeze(-1)).squeeze(-1)
            mu = mx[..., i] + (aio * sol).sum(-1)
            var = A[..., i, i] - (aio * torch.linalg.solve(Aoo, aio.unsqueeze(-1)).squeeze(-1)).sum(-1)
        else:
            mu, var = mx[..., i], A[..., i, i]
        tot = tot + (-0.5 * (y[..., i] - mu) ** 2 / var - 0.5 * torch.log(var) - 0.5 * math.log(2 * math.pi))
    return tot / n


def _sum_mll(case, ctx, g):
    import torch

    import gpytorch
    from vf import util

    models, refs = [], []
    for n in case["members"]:
        X, y = util.randn(g, n, 2), util.randn(g, n)
        lik = gpytorch.likelihoods.GaussianLikelihood()
        m = util.GP(X, y, lik, util.build_mean("constant", 2), util.build_kernel(KERNELS[0], 2))
        util.randomize(m, g, 0.5)
        rp = attach_priors(m, "independent", g)
        models.append(m)
        lp, nd = _dense_logp(m, lik, X, y, False)
        refs.append(((lp + _prior_sum(rp, 0)) / nd).detach())
    ml = gpytorch.models.IndependentModelList(*models)
    ml.train()
    smll = gpytorch.mlls.SumMarginalLogLikelihood(ml.likelihood, ml)
    outs = ml(*ml.train_inputs)
    got = smll(outs, ml.train_targets)
    ctx.close("sum_mll_is_mean", got, torch.stack(refs).mean(), "direct", cls="sum_mll")
    for o, m in zip(outs, models):
        own = m(*m.train_inputs)
        ctx.close("model_list_outputs", torch.stack([o.mean, torch.diagonal(o.covariance_matrix)]), torch.stack([own.mean, torch.diagonal(own.covariance_matrix)]), "bit")
    ctx.cell({k: v for k, v in case.items() if k != "seed"})
