"""C05 - kernel values equal the documented covariance functions and derivatives.

Reference-model monitor at the public boundary: kernel(x1, x2).to_dense() / kernel(x, diag=True) of the real
kernel objects are compared with independent dense formulas (vf/oracle/kernels.py, written from the docstrings)
that read the constrained parameter values through the public properties. Path witnesses count the hand-written
fast paths (RBFCovariance / MaternCovariance) vs the generic autograd path.
"""
import random

PROPERTY = "C05"
RULE = (
    'case = (kernel spec incl. composition/ARD/active_dims, d, (n1,n2) pattern incl. n1!=n2, same-tensor and n=1, parameter batch x input batch, '
    'evaluation path in {no-grad fast path, inputs requiring grad, trace_mode}, parameter regime in {random, small, large, far-from-origin with > '
    '25 rows}, float32 slice and float64-under-float32-default slice, last_dim_is_batch, seed); derivative kernels over n1!=n2, d in 1..3; '
    'distinct = distinct cell (all but seed); non-trivial iff the reference matrix is not constant (max-min > 1e-6) or the kernel is the constant '
    'kernel'
    '; pass 5: call variants (x2=None, explicit diag=False, keyword arguments, 1-d vector inputs); `views` relation = two different views of one tensor with equal shape and storage offset'
    '; pass 6: operator nestings of sums and products evaluated along the SPEC tree; one-hot sequences longer than 256 stored as uint8 / bool / int8 / int64 / float32'
    "; pass 8: cylindrical kernel at the centre of the ball and at axis-aligned points (oracle follows the documented eps), near-deterministic inputs of the symmetrised-KL kernel, parameters moved in place while in evaluation mode"
)
REQUIRED = ["kernel_value", "kernel_diag", "grad_kernel_value", "path:RBFCovariance.forward", "path:MaternCovariance.forward"]
ASSUMPTIONS = [
    "oracle formulas are the docstring/cited-reference formulas (Matern/RBF distance = lengthscale-scaled Euclidean; periodic sums over dimensions; SM = product over dimensions of 1-d mixtures)",
    "derivative kernels are compared with torch.autograd derivatives of the base kernel's scalar formula in the documented per-point interleaved layout",
]
ANCHOR_FILES = ["gpytorch/kernels/", "gpytorch/functions/"]

BASE = [
    {"k": "rbf"}, {"k": "rbf", "ard": True},
    {"k": "matern", "nu": 0.5}, {"k": "matern", "nu": 1.5}, {"k": "matern", "nu": 2.5}, {"k": "matern", "nu": 1.5, "ard": True}, {"k": "matern", "nu": 2.5, "ard": True}, {"k": "matern", "nu": 0.5, "ard": True},
    {"k": "rq"}, {"k": "rq", "ard": True},
    {"k": "periodic"}, {"k": "periodic", "ard": True},
    {"k": "cosine"},
    {"k": "linear"}, {"k": "linear", "ard": True},
    {"k": "poly", "power": 1}, {"k": "poly", "power": 2}, {"k": "poly", "power": 3},
    {"k": "constant"},
    {"k": "pp", "q": 0}, {"k": "pp", "q": 1}, {"k": "pp", "q": 2}, {"k": "pp", "q": 3}, {"k": "pp", "q": 2, "ard": True},
    {"k": "sm", "mixtures": 3},
    {"k": "hamming"},
    {"k": "arc", "base": {"k": "rbf"}}, {"k": "arc", "base": {"k": "matern", "nu": 2.5}, "ard": True}, {"k": "arc", "base": {"k": "matern", "nu": 1.5}},
    {"k": "arc", "base": {"k": "rbf"}, "ard": True, "delta": "positive"}, {"k": "arc", "base": {"k": "matern", "nu": 2.5}, "delta": "positive"},
    {"k": "cylindrical", "weights": 3, "base": {"k": "matern", "nu": 2.5}}, {"k": "cylindrical", "weights": 1, "base": {"k": "rbf"}},
    {"k": "spectral_delta", "deltas": 5}, {"k": "spectral_delta", "deltas": 2, "ard": True},
    {"k": "gskl"},
    {"k": "index", "tasks": 4, "rank": 2}, {"k": "index", "tasks": 3, "rank": 1},
]
LDB = ("rbf", "matern", "rq", "periodic", "cosine", "linear", "poly", "constant")
COMPOSED = [
    {"k": "scale", "base": {"k": "rbf", "ard": True}},
    {"k": "scale", "base": {"k": "matern", "nu": 2.5}},
    {"k": "sum", "parts": [{"k": "rbf"}, {"k": "scale", "base": {"k": "linear"}}]},
    {"k": "prod", "parts": [{"k": "periodic"}, {"k": "matern", "nu": 1.5}]},
    {"k": "sum", "parts": [{"k": "scale", "base": {"k": "rq"}}, {"k": "prod", "parts": [{"k": "rbf"}, {"k": "poly", "power": 2}]}]},
    {"k": "scale", "base": {"k": "rbf", "active_dims": [0, 2]}, "needs_d": 3},
    {"k": "sum", "parts": [{"k": "rbf", "active_dims": [1]}, {"k": "matern", "nu": 2.5, "active_dims": [0, 2], "ard": True}], "needs_d": 3},
    {"k": "rbf", "active_dims": [2, 1], "ard": True, "needs_d": 3},
    {"k": "scale", "base": {"k": "linear", "active_dims": [2, 0, 1], "ard": True}, "needs_d": 4},
    {"k": "prod", "parts": [{"k": "matern", "nu": 1.5, "active_dims": [3, 1], "ard": True}, {"k": "periodic", "active_dims": [0, 2], "ard": True}], "needs_d": 4},
    {"k": "shared_instance_sum"}, {"k": "shared_instance_prod"},
    # operator nestings: a sum as the right / left operand of *, a product as an operand of +, sums of sums
    {"k": "prod", "parts": [{"k": "rbf"}, {"k": "sum", "parts": [{"k": "matern", "nu": 1.5}, {"k": "linear"}]}]},
    {"k": "prod", "parts": [{"k": "sum", "parts": [{"k": "matern", "nu": 2.5}, {"k": "scale", "base": {"k": "rq"}}]}, {"k": "periodic"}]},
    {"k": "sum", "parts": [{"k": "rbf"}, {"k": "sum", "parts": [{"k": "linear"}, {"k": "prod", "parts": [{"k": "matern", "nu": 0.5}, {"k": "sum", "parts": [{"k": "rq"}, {"k": "constant"}]}]}]}]},
    {"k": "prod", "parts": [{"k": "scale", "base": {"k": "rbf"}}, {"k": "prod", "parts": [{"k": "periodic"}, {"k": "sum", "parts": [{"k": "linear"}, {"k": "rbf"}]}]}]},
    {"k": "additive_structure", "base": {"k": "rbf"}},
    {"k": "additive_structure", "base": {"k": "scale", "base": {"k": "matern", "nu": 1.5}}},
    {"k": "product_structure", "base": {"k": "rbf"}},
    {"k": "newton_girard", "max_degree": 2},
    {"k": "newton_girard", "max_degree": 3},
]
GRADK = ["rbfgrad", "m52grad", "polygrad", "rbfgradgrad"]
NPAT = [(5, 4, "diff"), (4, 4, "same"), (4, 4, "eqsize"), (1, 3, "diff"), (1, 1, "same"), (6, 2, "diff"), (4, 4, "near"), (4, 4, "views")]
BATCH = [([], []), ([2], []), ([2], [2]), ([], [2]), ([3, 2], []), ([3, 2], [3, 2]), ([1, 2], [3, 1])]
PATHS = ["nograd", "xgrad", "trace"]
REGIMES = ["random", "small", "large"]


def cases(tier, seed):
    rnd = random.Random(5000 + seed)
    reps = 1 if tier == "quick" else 30
    for rep in range(reps):
        for spec in BASE + COMPOSED:
            for npat in NPAT:
                k = 3 if tier == "quick" else 5
                for _ in range(k):
                    d = spec.get("needs_d") or rnd.choice([1, 2, 3, 5])
                    if spec["k"] in ("additive_structure", "product_structure", "newton_girard"):
                        d = rnd.choice([2, 3, 4])
                    pb, xb = rnd.choice(BATCH) if rnd.random() < 0.5 else BATCH[0]
                    if spec["k"] in ("additive_structure", "product_structure", "newton_girard", "hamming"):
                        pb, xb = ([], []) if rnd.random() < 0.7 else ([], [2])
                    if spec["k"] == "index":
                        d = 1
                        pb, xb = rnd.choice([([], []), ([], [2]), ([2], [2])])
                    yield {
                        "kernel": spec, "d": d, "n1": npat[0], "n2": npat[1], "rel": npat[2], "pbatch": pb, "xbatch": xb,
                        "path": rnd.choice(PATHS), "regime": rnd.choice(REGIMES), "seed": rnd.randrange(10**6),
                    }
    # single precision slice: same formulas, float32 parameters and inputs, float32 results
    for rep in range(1 if tier == "quick" else 4):
        for spec in BASE + COMPOSED:
            if spec["k"] in ("hamming",):
                continue
            d = spec.get("needs_d") or rnd.choice([1, 2, 3])
            if spec["k"] in ("additive_structure", "product_structure", "newton_girard"):
                d = rnd.choice([2, 3])
            yield {"kernel": spec, "d": d, "n1": 5, "n2": 4, "rel": rnd.choice(["diff", "same"]), "pbatch": [], "xbatch": rnd.choice([[], [2]]), "path": "nograd", "regime": "random", "f32": True, "seed": rnd.randrange(10**6)}
            # double precision objects while the process-wide default dtype is float32: nothing may be created in the default dtype
            yield {"kernel": spec, "d": d, "n1": 5, "n2": 4, "rel": rnd.choice(["diff", "same"]), "pbatch": [], "xbatch": rnd.choice([[], [2]]), "path": "nograd", "regime": "random", "default_f32": True, "seed": rnd.randrange(10**6)}
    # inputs far from the origin, more rows than the pairwise-distance routines' small-matrix cut-over (25): the
    # covariance function depends on differences only, whatever the common offset
    far = [sp for sp in BASE if sp["k"] in ("rbf", "matern", "rq", "pp", "periodic", "cosine")] + COMPOSED[:2]
    for rep in range(1 if tier == "quick" else 6):
        for spec in far:
            for npat in ((30, 27, "diff"), (27, 27, "same"), (3, 31, "diff")):
                pb, xb = rnd.choice(BATCH[:4])
                yield {
                    "kernel": spec, "d": rnd.choice([1, 2, 3]), "n1": npat[0], "n2": npat[1], "rel": npat[2], "pbatch": pb, "xbatch": xb,
                    "path": rnd.choice(PATHS), "regime": "faraway", "offset": rnd.choice([1e3, 3e4, 1e5]), "seed": rnd.randrange(10**6),
                }
    for rep in range(2 if tier == "quick" else 20):
        for spec in ({"k": "rq"}, {"k": "rq", "ard": True}, {"k": "scale", "base": {"k": "rq"}}, {"k": "poly", "power": 3}, {"k": "periodic"}, {"k": "gskl"}):
            pb, xb = rnd.choice(BATCH[:4]) if spec["k"] != "gskl" else ([], rnd.choice([[], [2]]))
            yield {"kernel": spec, "d": rnd.choice([1, 2, 3]), "n1": 5, "n2": 4, "rel": rnd.choice(["diff", "same"]), "pbatch": pb, "xbatch": xb, "path": rnd.choice(PATHS), "regime": "random",
                   "extreme": True, "seed": rnd.randrange(10**6)}
    # one-hot sequences longer than 256 symbols stored in narrow dtypes (uint8 / bool / int8): distances beyond the dtype's range
    for rep in range(1 if tier == "quick" else 6):
        for dt_ in ("uint8", "bool", "int8", "int64", "float32"):
            yield {"kernel": {"k": "hamming"}, "d": rnd.choice([300, 520]), "n1": 3, "n2": 2, "rel": rnd.choice(["diff", "same"]), "pbatch": [], "xbatch": [], "path": "nograd", "regime": "random",
                   "onehot_dtype": dt_, "seed": rnd.randrange(10**6)}
    ng = 2 if tier == "quick" else 25
    for rep in range(ng):
        for gk in GRADK:
            for d in (1, 2, 3):
                for n1, n2 in ((3, 2), (2, 4), (3, 3), (1, 2)):
                    yield {"gradkernel": gk, "d": d, "n1": n1, "n2": n2, "ard": d > 1 and rnd.random() < 0.6, "seed": rnd.randrange(10**6), "hostile": n1 == 1}
    # documented-vs-shipped formula (directed): distributional-input kernels
    yield {"distributional": True, "seed": rnd.randrange(10**6)}


def setup(ctx):
    from gpytorch.functions import MaternCovariance, RBFCovariance
    from vf import attach

    attach.count(RBFCovariance, "forward", ctx, "path:RBFCovariance.forward")
    attach.count(MaternCovariance, "forward", ctx, "path:MaternCovariance.forward")


def _build(spec, d, pb):
    import torch

    import gpytorch
    from vf import util

    K = gpytorch.kernels
    k = spec["k"]
    bs = torch.Size(pb)
    if k == "constant":
        return K.ConstantKernel(batch_shape=bs)
    if k == "hamming":
        return K.HammingIMQKernel(vocab_size=4, batch_shape=bs)
    if k in ("shared_instance_sum", "shared_instance_prod"):
        # one kernel OBJECT used in two places of a composition
        shared = K.MaternKernel(nu=2.5, batch_shape=bs)
        return (K.ScaleKernel(shared, batch_shape=bs) + shared) if k.endswith("sum") else (K.ScaleKernel(shared, batch_shape=bs) * shared)
    if k == "arc":
        kw = {"ard_num_dims": d} if spec.get("ard") else {}
        if spec.get("delta") == "positive":
            kw["delta_func"] = _delta_positive  # a coordinate is active only where it is positive
        return K.ArcKernel(util.build_kernel(spec["base"], 2 * d, pb), batch_shape=bs, **kw)
    if k == "cylindrical":
        return K.CylindricalKernel(spec["weights"], util.build_kernel(spec["base"], 1, pb), batch_shape=bs)
    if k == "spectral_delta":
        kw = {"ard_num_dims": d} if spec.get("ard") else {}
        return K.SpectralDeltaKernel(num_dims=d, num_deltas=spec["deltas"], batch_shape=bs, **kw)
    if k == "gskl":
        return K.GaussianSymmetrizedKLKernel(batch_shape=bs)
    if k == "index":
        return K.IndexKernel(num_tasks=spec["tasks"], rank=spec["rank"], batch_shape=bs)
    if k == "additive_structure":
        return K.AdditiveStructureKernel(util.build_kernel(spec["base"], 1, pb), num_dims=d)
    if k == "product_structure":
        return K.ProductStructureKernel(util.build_kernel(spec["base"], 1, pb), num_dims=d)
    if k == "newton_girard":
        return K.NewtonGirardAdditiveKernel(K.RBFKernel(ard_num_dims=d), num_dims=d, max_degree=spec["max_degree"])
    return util.build_kernel(spec, d, pb)


def _delta_positive(x):
    return (x > 0).to(x.dtype)


def _oracle(spec, kern, x1, x2):
    from vf.oracle import kernels as O

    k = spec["k"]
    if k == "additive_structure":
        return O.additive_structure(kern.base_kernel, x1, x2)
    if k == "product_structure":
        return O.product_structure(kern.base_kernel, x1, x2)
    if k == "newton_girard":
        return O.newton_girard(kern, x1, x2)
    if k in ("sum", "prod") or (k == "scale" and spec.get("base", {}).get("k") in ("sum", "prod")):
        return _spec_dense(spec, kern, x1, x2)
    return O.dense(kern, x1, x2)


def _spec_dense(spec, kern, x1, x2):
    """compositions are evaluated along the SPEC tree (what was asked for: a sum is a sum, a product a product), not along the
    object's own structure: the object's non-composite nodes (leaves and ScaleKernels, in depth-first order - the order that
    flattening a nested sum / product keeps) are matched with the spec's, their values combined as the spec says"""
    import gpytorch.kernels as K
    from vf.oracle import kernels as O

    objs = []

    def walk(k_):
        if isinstance(k_, (K.AdditiveKernel, K.ProductKernel)):
            for kk in k_.kernels:
                walk(kk)
        else:
            objs.append(k_)
            if isinstance(k_, K.ScaleKernel):
                walk(k_.base_kernel)

    walk(kern)
    it = iter(objs)

    def ev(sp, a1, a2):
        if sp["k"] in ("sum", "prod"):
            out = None
            for part in sp["parts"]:
                v = ev(part, a1, a2)
                out = v if out is None else (out + v if sp["k"] == "sum" else out * v)
            return out
        obj = next(it)
        a1s, a2s = O._sub(obj, a1), O._sub(obj, a2)
        if sp["k"] == "scale":
            assert isinstance(obj, K.ScaleKernel), (sp, type(obj).__name__)
            o = obj.outputscale.detach()
            return o.reshape(*o.shape, 1, 1) * ev(sp["base"], a1s, a2s)
        return O.dense(obj, a1s, a2s, sub=False)

    out = ev(spec, x1, x2)
    assert next(it, None) is None, "object has more non-composite nodes than the spec"
    return out


def _check_active(spec, kern, ctx):
    """the oracle reads active_dims from the kernel object: first make sure the object holds the columns it was GIVEN, in
    the given order (per-dimension parameters follow that order)"""
    if "active_dims" in spec:
        got = None if kern.active_dims is None else [int(i) for i in kern.active_dims]
        ctx.expect("active_dims_as_given", got == list(spec["active_dims"]), f"{type(kern).__name__}(active_dims={spec['active_dims']}) stores {got}", kclass=type(kern).__name__)
    if "base" in spec and isinstance(spec["base"], dict) and hasattr(kern, "base_kernel"):
        _check_active(spec["base"], kern.base_kernel, ctx)
    for sp, kk in zip(spec.get("parts", []), getattr(kern, "kernels", [])):
        _check_active(sp, kk, ctx)


def _sens(kern):
    """upper bound on |d k / d (one input coordinate)| from the constrained parameter values"""
    import torch

    worst = 1.0
    for name, mod in kern.named_modules():
        ls = float(mod.lengthscale.min()) if getattr(mod, "has_lengthscale", False) and mod.lengthscale is not None else 1.0
        f = 3.0 / ls
        if hasattr(mod, "period_length"):
            f = max(f, 7.0 / float(mod.period_length.min()) / min(ls, 1.0))
        if hasattr(mod, "outputscale"):
            f = f * max(1.0, float(mod.outputscale.max()))
        worst = max(worst, f)
    return worst


def _has(spec, name, **kv):
    if spec.get("k") == name and all(spec.get(a) == b for a, b in kv.items()):
        return True
    return any(_has(p, name, **kv) for p in spec.get("parts", [])) or ("base" in spec and _has(spec["base"], name, **kv))


def run_case(case, ctx):
    import torch

    if case.get("default_f32"):
        torch.set_default_dtype(torch.float32)
        try:
            return _run_case(case, ctx)
        finally:
            torch.set_default_dtype(torch.float64)
    return _run_case(case, ctx)


def _run_case(case, ctx):
    import torch

    import gpytorch
    from gpytorch import settings as S
    from vf import util
    from vf.oracle import kernels as O

    g = util.gen(case["seed"])
    if case.get("distributional"):
        return _distributional(case, ctx, g)
    if "gradkernel" in case:
        return _gradkernel(case, ctx, g)
    spec, d = case["kernel"], case["d"]
    kern = _build(spec, d, case["pbatch"])
    _check_active(spec, kern, ctx)
    scale = {"random": 0.7, "small": 0.3, "large": 0.3, "faraway": 0.5}[case["regime"]]
    util.randomize(kern, g, scale)
    if case["regime"] in ("small", "large"):
        shift = -2.5 if case["regime"] == "small" else 3.0
        with torch.no_grad():
            for n_, p in kern.named_parameters():
                if "angle" not in n_:
                    p.add_(shift)
    if case.get("extreme"):
        # one shape parameter far outside its usual range (the formula is the same one): RQ alpha 1e3 .. 1e6 per batch element,
        # polynomial offset 1e-6, periodic period 1e3 lengthscales
        with torch.no_grad():
            for mod in kern.modules():
                if type(mod).__name__ == "RQKernel":
                    mod.alpha = 10.0 ** (3 + 3 * util.rand(g, *mod.alpha.shape))
                if type(mod).__name__ == "PolynomialKernel":
                    mod.offset = torch.full_like(mod.offset, 1e-6)
                if type(mod).__name__ == "PeriodicKernel":
                    mod.period_length = torch.full_like(mod.period_length, 1e3)
                if type(mod).__name__ == "GaussianSymmetrizedKLKernel":
                    mod.lengthscale = torch.full_like(mod.lengthscale, 40.0)
    n1, n2, xb = case["n1"], case["n2"], case["xbatch"]
    if spec["k"] == "hamming":
        c1 = torch.randint(0, 4, (*xb, n1, d), generator=g)
        c2 = torch.randint(0, 4, (*xb, n2, d), generator=g)
        if case.get("onehot_dtype"):
            # far-apart sequences: (almost) every position differs
            c2 = (c1[..., :1, :].expand(*xb, n2, d) + 1 + torch.randint(0, 3, (*xb, n2, d), generator=g)) % 4 if n2 <= n1 else c2
        odt = {"uint8": torch.uint8, "bool": torch.bool, "int8": torch.int8, "int64": torch.int64, "float32": torch.float32}.get(case.get("onehot_dtype"), torch.float64)
        x1 = torch.nn.functional.one_hot(c1, 4).reshape(*xb, n1, -1).to(odt)
        x2 = torch.nn.functional.one_hot(c2, 4).reshape(*xb, n2, -1).to(odt)
    elif spec["k"] == "cylindrical":
        # documented domain: the unit ball
        def ball(n):
            v = util.randn(g, *xb, n, d)
            return v / v.norm(dim=-1, keepdim=True) * (0.05 + 0.9 * util.rand(g, *xb, n, 1))

        x1, x2 = ball(n1), ball(n2)
        if case["seed"] % 2:
            # the centre of the ball itself (a natural candidate in BOCK): one row of each side exactly the origin
            x1[..., 0, :] = 0.0
            x2[..., -1, :] = 0.0
            if n1 > 2:
                x1[..., 1, 1:] = 0.0  # an axis-aligned point (some coordinates exactly 0)
    elif spec["k"] == "index":
        # inputs are task indices
        x1 = torch.randint(0, spec["tasks"], (*xb, n1, 1), generator=g)
        x2 = torch.randint(0, spec["tasks"], (*xb, n2, 1), generator=g)
    elif spec["k"] == "gskl" and case.get("extreme"):
        # near-deterministic inputs (variances 1e-8 .. 1e-4, around the documented 1e-8 variance jitter) mixed in one pair,
        # means within a few standard deviations of each other so that the pairs stay correlated
        def pts(n):
            lv = -9.0 - 9.0 * util.rand(g, *xb, n, d)
            return torch.cat([0.3 + 2.0 * (0.5 * lv).exp() * util.randn(g, *xb, n, d), lv], -1)

        x1, x2 = pts(n1), pts(n2)
    elif spec["k"] == "gskl":
        x1 = util.randn(g, *xb, n1, 2 * d) * 0.7
        x2 = util.randn(g, *xb, n2, 2 * d) * 0.7
    else:
        x1 = util.randn(g, *xb, n1, d)
        x2 = util.randn(g, *xb, n2, d)
    if case.get("f32"):
        kern = kern.float()
        x1, x2 = x1.float(), x2.float()
    if case.get("default_f32"):
        kern = kern.double()
    if case["regime"] == "faraway":
        off = case["offset"] * (1 + util.rand(g, d))
        x1, x2 = x1 + off, x2 + off
    if case["rel"] == "same":
        x2 = x1
    if case["rel"] == "near" and x1.dtype.is_floating_point and spec["k"] != "hamming":
        # a second input set that is ALMOST the first one (another tensor, differences of 1e-9 .. 1e-4): still its own points
        x2 = x1 + 10.0 ** (-9 + 5 * util.rand(g, *x1.shape[:-1], 1)) * util.randn(g, *x1.shape)
    if case["rel"] == "views":
        # two different views of ONE tensor that start at the same storage offset and have equal shapes (every other row
        # vs the first half; for square inputs the matrix vs its transpose): different points all the same
        big = torch.cat([x1, x2], dim=-2)
        big = big[..., torch.randperm(big.shape[-2], generator=g), :].contiguous()
        if n1 == big.shape[-1] and not xb and case["seed"] % 2 and spec["k"] not in ("hamming", "index", "cylindrical", "gskl"):  # (transposing needs unstructured rows)
            sq = big[:n1].contiguous()
            x1, x2 = sq, sq.transpose(-1, -2)
        else:
            x1, x2 = big[..., ::2, :], big[..., :n1, :]
    path = case["path"]
    if spec["k"] in ("hamming", "newton_girard", "index") and path == "xgrad":
        path = "nograd"
    if path == "xgrad":
        x1 = x1.clone().requires_grad_(True)
        if case["rel"] == "same":
            x2 = x1
    tol = "direct"
    if _has(spec, "matern", nu=0.5) or _has(spec, "pp"):
        # not smooth at r=0: sqrt of the rounding noise of a squared distance (grows with |x|/lengthscale: 4e-6 observed at l~0.05)
        tol = (2e-5, 1e-7) if case["regime"] == "small" else (1e-6, 1e-7)
        # at coincident points the library's distance is sqrt(rounding noise of |x/l|^2) ~ 5e-8 |x|/l (not exactly 0 when a
        # gradient is required) and these kernels have slope up to (D/2+q+1) there: scale the allowance with 1/lengthscale
        lmin = min([float(mod.lengthscale.min()) for mod in kern.modules() if getattr(mod, "has_lengthscale", False) and mod.lengthscale is not None] or [1.0])
        tol = (max(tol[0], 4e-7 * (d + 4) / max(lmin, 1e-3)), tol[1])
    if case["regime"] == "large" and (_has(spec, "poly") or _has(spec, "linear")):
        tol = (1e-8, 1e-7)
    if case["regime"] == "faraway":
        # the inputs themselves are only known to offset*2e-16; a unit change of a distance moves a kernel value by at
        # most ~sqrt(5)/lengthscale (periodic: 2*pi/period/lengthscale): allow that conditioning, nothing more
        tol = (max(1e-8, 50 * case["offset"] * 2.3e-16 * _sens(kern)), 1e-8)
        if _has(spec, "matern", nu=0.5) or _has(spec, "pp"):
            tol = (max(tol[0], 1e-6), 1e-7)
    _x1_before, _x2_before = x1.detach().clone(), x2.detach().clone()
    cls = spec["k"] + ":" + path + (":default_f32" if case.get("default_f32") else "")
    if case.get("f32"):
        tol = (2e-5, 2e-4)
        if _has(spec, "matern", nu=0.5) or _has(spec, "pp"):
            # sqrt of the float32 rounding noise of a squared distance (3e-4) at coincident points, divided by the (smallest) lengthscale
            lmin32 = min([float(mod.lengthscale.min()) for mod in kern.modules() if getattr(mod, "has_lengthscale", False) and mod.lengthscale is not None] or [1.0])
            tol = (min(2e-3 * max(1.0, 1.0 / max(lmin32, 1e-2)), 5e-2), 2e-4)
        cls = spec["k"] + ":f32"
        # the oracle reads the (float32) parameter values and works in float64
        kern_ref = __import__("copy").deepcopy(kern).double()
    try:
        with S.trace_mode(path == "trace"):
            got = kern(x1, x2).to_dense()
            if case.get("default_f32"):
                ctx.expect("dtype_preserved", got.dtype == torch.float64, f"float64 kernel on float64 inputs returned {got.dtype} under a float32 default dtype", kclass=type(kern).__name__)
            if case.get("f32"):
                ctx.expect("dtype_preserved", got.dtype == torch.float32, f"float32 kernel on float32 inputs returned {got.dtype}", kclass=type(kern).__name__)
                ref = _oracle(spec, kern_ref, x1.detach().double(), x2.detach().double())
            else:
                ref = _oracle(spec, kern, x1.detach(), x2.detach())
            ctx.close("kernel_value", got, ref.expand(got.shape) if ref.numel() != got.numel() else ref, tol, cls=cls)
            if n1 == n2:
                try:
                    dg = kern(x1, x2, diag=True)
                except Exception as e:
                    ctx.fail("kernel_diag", f"diag=True raised {type(e).__name__}: {str(e)[:120]}", "raise", exc=type(e).__name__, kclass=type(kern).__name__)
                    dg = None
            if n1 == n2 and dg is not None:
                dg = dg.to_dense() if hasattr(dg, "to_dense") else dg
                refd = torch.diagonal(ref, dim1=-2, dim2=-1)
                if dg.shape != refd.shape:
                    # some kernels return the diagonal without the inputs' batch dimensions when it does not depend on them
                    ctx.info["diag_returned_unbatched_but_broadcastable"] += 1
                    dg, refd = torch.broadcast_tensors(dg, refd)
                ctx.close("kernel_diag", dg, refd, tol, cls=cls + ":diag")
            if case["rel"] == "same":
                one = kern(x1).to_dense()
                ctx.close("kernel_value_one_arg", one, ref.expand(one.shape), tol, cls=cls)
            if not case.get("f32") and case["rel"] in ("diff", "same") and spec["k"] not in ("index", "hamming", "gskl", "additive_structure", "product_structure"):
                # other documented ways of asking for the same matrix
                if case["rel"] == "same":
                    ctx.close("call_variants", kern(x1, x2=None).to_dense(), got, (0.0, 1e-12), cls=cls + ":x2=None")
                    ctx.close("call_variants", kern(x1, x1, diag=False).to_dense(), got, (0.0, 1e-12), cls=cls + ":diag=False")
                else:
                    ctx.close("call_variants", kern(x1, x2, diag=False).to_dense(), got, (0.0, 1e-12), cls=cls + ":diag=False")
                    ctx.close("call_variants", kern(x1=x1, x2=x2).to_dense(), got, (0.0, 1e-12), cls=cls + ":keywords")
                if d == 1 and not case["xbatch"] and not spec.get("ard") and spec["k"] not in ("cylindrical", "additive_structure", "product_structure", "newton_girard", "sm", "spectral_delta", "arc"):
                    # one-dimensional inputs given as vectors: the library adds the feature dimension itself
                    v1, v2 = x1.detach().squeeze(-1), x2.detach().squeeze(-1)
                    ctx.close("call_variants", kern(v1, v2).to_dense(), got, (1e-12, 1e-12), cls=cls + ":vector_inputs")
            if not case.get("f32") and case["regime"] == "random" and path == "nograd":
                # the documented function of the CURRENT parameters: evaluate in evaluation mode, load other parameter
                # values (no train() in between), evaluate again
                kern.eval()
                kern(x1, x2).to_dense()
                sd = {k_: (v_ + 0.3 * util.randn(g, *v_.shape) if k_.rsplit(".", 1)[-1].startswith("raw_") and v_.dtype.is_floating_point and "angle" not in k_ else v_) for k_, v_ in kern.state_dict().items()}
                kern.load_state_dict(sd)
                got2 = kern(x1, x2).to_dense()
                ref2 = _oracle(spec, kern, x1.detach(), x2.detach())
                ctx.close("kernel_value_after_load_state_dict", got2, ref2.expand(got2.shape) if ref2.numel() != got2.numel() else ref2, tol, cls=cls + ":reloaded")
                # ... and after the parameters were moved in place (what an optimiser step does), still in evaluation mode and
                # with autograd off: a covariance FUNCTION has no state besides its current parameters
                with torch.no_grad():
                    for n_, p_ in kern.named_parameters():
                        if "angle" not in n_:
                            p_.add_(0.25 * util.randn(g, *p_.shape))
                    got3 = kern(x1, x2).to_dense()
                    ref3 = _oracle(spec, kern, x1.detach(), x2.detach())
                ctx.close("kernel_value_after_load_state_dict", got3, ref3.expand(got3.shape) if ref3.numel() != got3.numel() else ref3, tol, cls=cls + ":moved_in_eval_mode")
                kern.train()
            if spec["k"] in LDB and not spec.get("ard") and d > 1:
                # documented Kernel.__call__ option: the last input dimension becomes a batch dimension, i.e. one kernel
                # matrix per input column (what the additive / product structure kernels are built from)
                try:
                    ldb = kern(x1, x2, last_dim_is_batch=True).to_dense()
                except NotImplementedError as e:
                    ctx.reject(f"last_dim_is_batch:{spec['k']}:{type(e).__name__}")
                    ldb = None
                except Exception as e:
                    if "does not accept" in str(e):
                        ctx.reject(f"last_dim_is_batch:{spec['k']}:refused")
                    else:
                        ctx.fail("last_dim_is_batch", f"raised {type(e).__name__}: {str(e)[:140]}", "raise", kclass=type(kern).__name__, exc=type(e).__name__)
                    ldb = None
                if ldb is not None:
                    x1d, x2d = x1.detach(), x2.detach()
                    per = [_oracle(spec, kern, x1d[..., i : i + 1], x2d[..., i : i + 1]) for i in range(d)]
                    per = torch.stack([p_.expand(*got.shape) if p_.numel() != got.numel() else p_.reshape(got.shape) for p_ in per], dim=-3)
                    if ldb.shape != per.shape:
                        ctx.fail("last_dim_is_batch", f"shape {tuple(ldb.shape)} instead of {tuple(per.shape)}", "shape", kclass=type(kern).__name__)
                    else:
                        ctx.close("last_dim_is_batch", ldb, per, tol, cls=cls + ":ldb")
    except NotImplementedError as e:
        ctx.reject(f"NotImplementedError:{spec['k']}")
        return
    ctx.expect("inputs_not_mutated", bool(torch.equal(x1.detach(), _x1_before)) and bool(torch.equal(x2.detach(), _x2_before)), f"{type(kern).__name__} changed its input tensors in place", kclass=type(kern).__name__)
    nontriv = spec["k"] == "constant" or float(ref.max() - ref.min()) > 1e-6
    ctx.cell({k: v for k, v in case.items() if k != "seed"}, nontrivial=nontriv)


def _gradkernel(case, ctx, g):
    import torch

    import gpytorch
    from vf import util
    from vf.oracle import kernels as O

    K = gpytorch.kernels
    d, n1, n2 = case["d"], case["n1"], case["n2"]
    x1, x2 = util.randn(g, n1, d), util.randn(g, n2, d)
    gk = case["gradkernel"]
    ard = bool(case.get("ard")) and gk != "polygrad"
    l = (util.rand(g, d) + 0.5) if ard else float(util.rand(g, 1)) + 0.5
    kw = {"ard_num_dims": d} if ard else {}
    if gk == "rbfgrad":
        k = K.RBFKernelGrad(**kw)
        k.lengthscale = l
        fn, second = O.base_rbf(l), False
    elif gk == "m52grad":
        k = K.Matern52KernelGrad(**kw)
        k.lengthscale = l
        fn, second = O.base_m52(l), False
    elif gk == "polygrad":
        k = K.PolynomialKernelGrad(power=3)
        k.offset = l
        fn, second = O.base_poly(l, 3), False
    else:
        k = K.RBFKernelGradGrad(**kw)
        k.lengthscale = l
        fn, second = O.base_rbf(l), True
    try:
        got = k(x1, x2).to_dense()
    except Exception as e:
        ctx.fail("grad_kernel_value", f"{gk} raised {type(e).__name__}: {str(e)[:160]} for n1={n1} n2={n2} d={d}", "raise", exc=type(e).__name__)
        return
    ref = O.grad_layout(fn, x1, x2, second)
    ctx.close("grad_kernel_value", got, ref, (1e-7, 1e-7) if gk == "m52grad" else "direct", cls=gk)
    if n1 == n2:
        try:
            same = k(x1).to_dense()
            refs = O.grad_layout(fn, x1, x1, second)
            if gk == "m52grad":
                # coincident points: autograd through sqrt(r^2) is not the limit; analytic block k=1, cross terms 0, Hessian 5/(3 l^2) I
                lv = l if torch.is_tensor(l) else torch.full((d,), l)
                m = d + 1
                for i in range(n1):
                    blk = torch.zeros(m, m)
                    blk[0, 0] = 1.0
                    blk[1:, 1:] = torch.diag(5.0 / (3.0 * lv**2))
                    refs[i * m : (i + 1) * m, i * m : (i + 1) * m] = blk
            # coincident points: Matern-5/2 second derivatives at r=0 are defined by the limit; the clamp in the oracle matches it to 1e-6
            ctx.close("grad_kernel_gram", same, refs, (1e-6, 1e-6) if gk == "m52grad" else "direct", cls=gk + ":gram")
            dg = k(x1, diag=True)
            ctx.close("grad_kernel_diag", dg, torch.diagonal(same), "direct", cls=gk + ":diag")
        except NotImplementedError:
            ctx.reject("grad diag not implemented")
    ctx.cell({k_: v for k_, v in case.items() if k_ != "seed"})


def _distributional(case, ctx, g):
    """DistributionalInputKernel documents exp(-lengthscale*d) (shipped: exp(-d/lengthscale)) - recorded finding"""
    import torch

    import gpytorch
    from vf import util

    x1, x2 = util.randn(g, 4, 2), util.randn(g, 3, 2)

    def dist(a, b):
        return ((a.unsqueeze(-2) - b.unsqueeze(-3)) ** 2).sum(-1)

    k = gpytorch.kernels.DistributionalInputKernel(dist)
    k.lengthscale = 1.7
    got = k(x1, x2).to_dense()
    import re

    doc = type(k).__doc__ or ""
    documented_mul = bool(re.search(r"-a d|-a \\cdot d|-\s*a\s*d", doc))
    ref_doc = torch.exp(-1.7 * dist(x1, x2))
    ref_ship = torch.exp(-dist(x1, x2) / 1.7)
    ok_doc = float((got - ref_doc).abs().max()) < 1e-8
    ok_ship = float((got - ref_ship).abs().max()) < 1e-8
    ctx.hit("distributional_kernel")
    if not ok_doc:
        ctx.fail("distributional_kernel", "DistributionalInputKernel value differs from the documented exp(-a*d)", "doc-vs-code", shipped_formula=ok_ship, documented_mul=documented_mul)
    ctx.cell("distributional")


def _dist_doc(case, fl):
    return fl["monitor"] == "distributional_kernel" and fl.get("shipped_formula") is True


MATCHERS = {"C05-distributional-docstring": _dist_doc}
