"""C11 - MultitaskMultivariateNormal denotes one joint Gaussian whatever the layout, constructor or index.

Oracle: a layout-free joint built from the dense covariance and the DECLARED layout: canonical order (point-major,
i*t+a) mean M[i,a] and covariance C[(i,a),(j,b)]. Every observation of the real object (mean, variance, log_prob,
rsample with base samples, to_data_independent_dist, constructors, d[idx]) is mapped back into that frame.
"""
import itertools
import random

PROPERTY = "C11"
RULE = (
    'case kinds: (basics) n x t x batch x interleaved x covariance representation; (ctor) from_batch_mvn over every valid task_dim / '
    'from_independent_mvns / from_repeated_mvn, each over {dense, diagonal, root, mixed} member covariances; (index) every pair (point index, '
    'task index) from the per-dimension candidate sets {ints +/-, slices over start/stop in {None,0,1,2,-1,-2,n,n+5} x step in {None,1,2,3}, '
    'index tensors sorted/unsorted/repeated}, with batch ints/slices/tensors and Ellipsis placements, for shapes n!=t; distinct = distinct '
    '(shape, layout, index kinds) cell; non-trivial iff the index selects >=1 and < all (point,task) pairs, or the case is a basics/ctor case '
    'with n*t>=2'
    '; pass 5: exact log_prob path and scale_tril (triangular, L L^T) for joints above max_cholesky_size'
    '; pass 6: from_independent_mvns members sharing ONE covariance object; one index tensor object at two positions; index tensors must not be mutated'
    "; pass 9: to_data_independent_dist called again on the same object with other jitter values; index expressions on covariances stored as diagonal operators"
    "; pass 10: tiny-variance multitask normals (reading variance / stddev leaves covariance and caller tensors alone); base samples come back unchanged"
)
REQUIRED = ["index_mean", "index_covariance", "log_prob", "variance", "rsample_LLt", "to_data_independent", "from_batch_mvn", "from_independent_mvns", "from_repeated_mvn"]
ASSUMPTIONS = ["covariances are random dense SPD matrices (condition number < 1e3); representation dense tensor or DenseLinearOperator/Kronecker"]
ANCHOR_FILES = ["gpytorch/distributions/multitask_multivariate_normal.py", "gpytorch/distributions/multivariate_normal.py"]

SHAPES = [(4, 3), (2, 3), (3, 2), (1, 3), (4, 1), (3, 3)]
BATCHES = [[], [2], [2, 3]]


def cases(tier, seed):
    from vf.gen import index as IX

    rnd = random.Random(11000 + seed)
    for rep_, inter_, reader_ in itertools.product(["dense", "linop", "diag"], [True, False], ["variance", "stddev"]):
        yield {"kind": "tiny_variance", "n": 3, "t": 2, "interleaved": inter_, "rep": rep_, "reader": reader_, "seed": rnd.randrange(10**6)}
    # basics + constructors
    for (n, t), b, inter in itertools.product(SHAPES, BATCHES, [True, False]):
        for rep in range(1 if tier == "quick" else 4):
            yield {"kind": "basics", "n": n, "t": t, "batch": b, "interleaved": inter, "rep": rnd.choice(["dense", "linop", "kron", "blockdiag"]), "seed": rnd.randrange(10**6)}
    for (n, t), b, inter in itertools.product([(3, 3), (2, 2), (4, 3), (2, 3)], [[], [2]], [True, False]):
        yield {"kind": "basics", "n": n, "t": t, "batch": b, "interleaved": inter, "rep": "blockdiag", "seed": rnd.randrange(10**6)}
    for (n, t), b, inter, mb in itertools.product([(4, 3), (2, 3), (3, 3)], [[], [2]], [True, False], ["n", "t"]):
        yield {"kind": "basics", "n": n, "t": t, "batch": b, "interleaved": inter, "rep": rnd.choice(["dense", "linop"]), "mean_bcast": mb, "seed": rnd.randrange(10**6)}
    for (n, t), b in itertools.product(SHAPES, [[], [2], [3, 2]]):
        for crep in ("dense", "diag", "root", "mixed"):
            for td in range(-(len(b) + 1), len(b) + 1):
                if crep != "mixed":
                    yield {"kind": "ctor", "ctor": "from_batch_mvn", "n": n, "t": t, "batch": b, "task_dim": td, "crep": crep, "seed": rnd.randrange(10**6)}
            if t >= 2:  # documented: at least 2 MVNs
                yield {"kind": "ctor", "ctor": "from_independent_mvns", "n": n, "t": t, "batch": b, "crep": crep, "seed": rnd.randrange(10**6)}
                if crep != "mixed":
                    yield {"kind": "ctor", "ctor": "from_independent_mvns", "n": n, "t": t, "batch": b, "crep": crep, "shared_cov": "operator" if crep == "dense" else "object", "seed": rnd.randrange(10**6)}
            if crep != "mixed":
                yield {"kind": "ctor", "ctor": "from_repeated_mvn", "n": n, "t": t, "batch": b, "crep": crep, "seed": rnd.randrange(10**6)}
    # indexing
    shapes = [(4, 3), (2, 3)] if tier == "quick" else [(4, 3), (2, 3), (3, 2), (1, 3), (3, 1), (3, 3)]
    for (n, t) in shapes:
        rows, cols = IX.dim_candidates(n), IX.dim_candidates(t)
        pairs = list(itertools.product(rows, cols))
        if tier == "quick":
            pairs = rnd.sample(pairs, min(len(pairs), 700))
        for inter in (True, False):
            for r, c in pairs:
                if isinstance(r, list) and r[0] == "t" and isinstance(c, list) and c[0] == "t" and len(r[1]) != len(c[1]):
                    c = ["t", (c[1] * len(r[1]))[: len(r[1])]]
                yield {"kind": "index", "n": n, "t": t, "batch": [], "interleaved": inter, "idx": [r, c], "seed": rnd.randrange(10**6)}
            # the same index expressions on a covariance stored as a diagonal operator (repeated entries among them)
            for r, c in rnd.sample(pairs, 120 if tier == "quick" else 700):
                yield {"kind": "index", "n": n, "t": t, "batch": rnd.choice([[], [2]]) if False else [], "interleaved": inter, "idx": [r, c], "rep": "diag", "seed": rnd.randrange(10**6)}
            # batch positions and ellipsis placements
            sub = rnd.sample(pairs, 60 if tier == "quick" else 400)
            for r, c in sub:
                if isinstance(r, list) and r[0] == "t" and isinstance(c, list) and c[0] == "t":
                    continue
                bidx = rnd.choice([0, -1, ["s", None, None, None], ["s", 1, None, None], ["s", None, None, 2], ["t", [1, 0]]])
                if isinstance(bidx, list) and bidx[0] == "t" and any(isinstance(e, list) and e[0] == "t" for e in (r, c)):
                    bidx = 0
                yield {"kind": "index", "n": n, "t": t, "batch": [2], "interleaved": inter, "idx": [bidx, r, c], "seed": rnd.randrange(10**6)}
                yield {"kind": "index", "n": n, "t": t, "batch": [2, 3], "interleaved": inter, "idx": [rnd.choice([0, 1, ["s", None, None, None]]), "...", r, c] if rnd.random() < 0.5 else ["...", r, c], "seed": rnd.randrange(10**6)}
            # every (int, int) entry incl. negatives, reachable only with batch dimensions (a scalar is not a distribution)
            ints_r = [e for e in rows if isinstance(e, int)]
            ints_c = [e for e in cols if isinstance(e, int)]
            for r, c in itertools.product(ints_r, ints_c):
                yield {"kind": "index", "n": n, "t": t, "batch": [2], "interleaved": inter, "idx": [["s", None, None, None], r, c], "seed": rnd.randrange(10**6)}
                yield {"kind": "index", "n": n, "t": t, "batch": [2, 3], "interleaved": inter, "idx": ["...", r, c], "seed": rnd.randrange(10**6)}
                yield {"kind": "index", "n": n, "t": t, "batch": [2, 3], "interleaved": inter, "idx": [1, ["s", None, None, 2], r, c], "seed": rnd.randrange(10**6)}
            for short in ([0], [-1], [["s", 1, None, None]], [["t", [1, 0]]], ["...", 0], ["...", ["s", None, 1, None]], [["s", None, None, None], "..."]):
                yield {"kind": "index", "n": n, "t": t, "batch": [], "interleaved": inter, "idx": short, "seed": rnd.randrange(10**6), "hostile": True}
                yield {"kind": "index", "n": n, "t": t, "batch": [2], "interleaved": inter, "idx": short, "seed": rnd.randrange(10**6)}


def _spd(g, *shape):
    import torch

    from vf import util

    a = util.randn(g, *shape, shape[-1])
    return a @ a.transpose(-1, -2) / shape[-1] + 0.3 * torch.eye(shape[-1])


def _canon(cov, n, t, interleaved):
    """dense covariance in canonical (i*t+a) order from the declared layout"""
    if interleaved:
        return cov
    C4 = cov.reshape(*cov.shape[:-2], t, n, t, n)
    nd = C4.dim()
    C4 = C4.permute(*range(nd - 4), nd - 3, nd - 4, nd - 1, nd - 2)
    return C4.reshape(*cov.shape[:-2], n * t, n * t)


def _make(case, g):
    import torch
    from linear_operator.operators import DenseLinearOperator, KroneckerProductLinearOperator

    from gpytorch.distributions import MultitaskMultivariateNormal as MT
    from vf import util

    n, t, b = case["n"], case["t"], case["batch"]
    mean = util.randn(g, *b, n, t)
    rep = case.get("rep", "dense")
    if rep == "blockdiag":
        # independent blocks: interleaved storage = one t x t block per point, otherwise one n x n block per task
        from linear_operator.operators import BlockDiagLinearOperator

        nblk, sz = (n, t) if case["interleaved"] else (t, n)
        cov_obj = BlockDiagLinearOperator(_spd(g, *b, nblk, sz))
        cov = cov_obj.to_dense()
    elif rep == "diag":
        # independent outputs held as a diagonal OPERATOR (what from_independent variances / mean-field posteriors produce)
        from linear_operator.operators import DiagLinearOperator

        dv_ = util.rand(g, *b, n * t) + 0.2
        cov_obj = DiagLinearOperator(dv_)
        cov = torch.diag_embed(dv_)
    elif rep == "kron":
        A, B = (_spd(g, *b, n), _spd(g, *b, t)) if case["interleaved"] else (_spd(g, *b, t), _spd(g, *b, n))
        cov_obj = KroneckerProductLinearOperator(A, B)
        cov = cov_obj.to_dense()
    else:
        cov = _spd(g, *b, n * t)
        cov_obj = DenseLinearOperator(cov) if rep == "linop" else cov
    mb = case.get("mean_bcast")
    if mb == "n":
        mean = mean[..., :1, :].expand(*b, n, t).clone()
        given = mean[..., :1, :]  # documented: the mean may have a singleton point (or task) dimension, broadcast by the constructor
    elif mb == "t":
        mean = mean[..., :, :1].expand(*b, n, t).clone()
        given = mean[..., :, :1]
    else:
        given = mean
    d = MT(given, cov_obj, interleaved=case["interleaved"])
    return d, mean, _canon(cov, n, t, case["interleaved"])


def _result_canon(sub):
    """covariance of an indexing result in the order of its own mean.reshape(-1) (per batch element)"""
    from gpytorch.distributions import MultitaskMultivariateNormal as MT

    cov = sub.covariance_matrix
    if isinstance(sub, MT):
        n, t = sub.mean.shape[-2:]
        return _canon(cov, n, t, sub._interleaved), 2
    return cov, 1


def run_case(case, ctx):
    import torch

    from vf import util

    g = util.gen(case["seed"])
    kind = case["kind"]
    if kind == "basics":
        return _basics(case, ctx, g)
    if kind == "ctor":
        return _ctor(case, ctx, g)
    if kind == "tiny_variance":
        return _tiny_variance(case, ctx, g)
    return _index(case, ctx, g)


def _tiny_variance(case, ctx, g):
    """an output in tiny units (variance below the reporting floor): `variance` / `stddev` report the floor, and reading them
    leaves the joint covariance, the caller's tensors and later draws from given base samples as they were"""
    import warnings

    import torch
    from linear_operator.operators import DenseLinearOperator, DiagLinearOperator

    from gpytorch import settings as S
    from gpytorch.distributions import MultitaskMultivariateNormal as MT
    from vf import util

    n, t, inter = case["n"], case["t"], case["interleaved"]
    nt = n * t
    floor = S.min_variance.value(torch.double)
    sc = torch.ones(nt)
    sc[1] = 1e-6
    if case["rep"] == "diag":
        v = (util.rand(g, nt) + 0.2) * sc**2
        K = torch.diag(v)
        handed = v.clone()
        op = DiagLinearOperator(handed)
    else:
        a = util.randn(g, nt, nt)
        K = sc.unsqueeze(-1) * (a @ a.T / nt + 0.5 * torch.eye(nt)) * sc
        handed = K.clone()
        op = DenseLinearOperator(handed) if case["rep"] == "linop" else handed
    keep = handed.clone()
    d = MT(util.randn(g, n, t), op, interleaved=inter)
    e = util.randn(g, 3, n, t)
    e_keep = e.clone()
    with torch.no_grad(), warnings.catch_warnings():
        warnings.simplefilter("ignore")
        var = d.variance if case["reader"] == "variance" else d.stddev**2
        dg = torch.diagonal(K).clamp_min(floor)
        ref = dg.reshape(n, t) if inter else dg.reshape(t, n).T
        ctx.close("variance", var, ref, (0.0, 1e-9), cls="tiny:" + case["reader"] + ":" + case["rep"])
        ctx.close("reading_leaves_distribution_alone", d.covariance_matrix, K, (0.0, 1e-13), cls="covariance:" + case["rep"], reader=case["reader"])
        ctx.expect("reading_leaves_distribution_alone", bool(torch.equal(handed, keep)), f"reading .{case['reader']} changed the tensor the caller built the distribution from", rep=case["rep"])
        s1 = d.rsample(base_samples=e)
        ctx.expect("base_samples_not_mutated", bool(torch.equal(e, e_keep)), "rsample(base_samples=e) changed e in place", rep=case["rep"])
        ctx.close("rsample_linear", d.rsample(base_samples=e), s1, (0.0, 1e-12), cls="tiny:same_base_samples_again:" + case["rep"])
    ctx.cell({k_: v_ for k_, v_ in case.items() if k_ != "seed"}, nontrivial=True)


def _basics(case, ctx, g):
    import torch

    from gpytorch import settings as S
    from vf import util

    n, t, b = case["n"], case["t"], case["batch"]
    d, M, C = _make(case, g)
    lay = "inter" if case["interleaved"] else "noninter"
    ctx.close("mean", d.mean, M, "bit", cls=lay)
    ctx.close("variance", d.variance, torch.diagonal(C, dim1=-2, dim2=-1).reshape(*b, n, t), "direct", cls=lay)
    ctx.expect("event_shape", tuple(d.event_shape) == (n, t) and tuple(d.batch_shape) == tuple(b), f"event {tuple(d.event_shape)} batch {tuple(d.batch_shape)}")
    # log_prob of a value laid out (n,t): density of vec(v) under the joint; both computational paths
    v = M + util.randn(g, *b, n, t)
    ref = util.mvn_logpdf(v.reshape(*b, -1), M.reshape(*b, -1), C)
    for fast in (True, False):
        with S.fast_computations(log_prob=fast), S.max_cholesky_size(800):
            ctx.close("log_prob", d.log_prob(v), ref, "direct", cls=lay + (":fast" if fast else ":chol"))
    # the exact (Cholesky) path stays exact when the joint is larger than max_cholesky_size: a fresh distribution object
    # (nothing cached yet) asked under a threshold below its size
    d_fresh, _, _ = _make(case, util.gen(case["seed"]))
    with S.fast_computations(log_prob=False), S.max_cholesky_size(0):
        ctx.close("log_prob", d_fresh.log_prob(v), ref, "direct", cls=lay + ":chol:above_size_threshold")
        Lt = d_fresh.scale_tril
        Cint = d_fresh.covariance_matrix  # (the factor is of the covariance in the layout the object stores)
        ctx.close("scale_tril", Lt @ Lt.transpose(-1, -2), Cint.expand(*Lt.shape[:-2], *Cint.shape[-2:]), (1e-7, 1e-7), cls=lay + ":above_size_threshold")
        ctx.expect("scale_tril_is_lower_triangular", bool((Lt.triu(1) == 0).all()), "scale_tril has entries above the diagonal", layout=lay)
    # expand: the same joint repeated along new leading batch dimensions, layout kept
    try:
        de = d_fresh.expand(torch.Size([3, *b]))
        ctx.close("expand", de.mean, M.expand(3, *b, n, t), "bit", cls=lay + ":expand:mean")
        ctx.close("expand", _canon(de.covariance_matrix, n, t, de._interleaved), C.expand(3, *b, n * t, n * t), "direct", cls=lay + ":expand:cov")
        ctx.close("expand", de.log_prob(v), ref.expand(3, *ref.shape), "direct", cls=lay + ":expand:log_prob")
        ctx.expect("expand_keeps_layout", de._interleaved == d_fresh._interleaved and tuple(de.batch_shape) == (3, *b) and tuple(de.event_shape) == (n, t), f"expand: layout {de._interleaved}, batch {tuple(de.batch_shape)}, event {tuple(de.event_shape)}")
    except Exception as e:
        ctx.fail("expand", f"expand raised {type(e).__name__}: {str(e)[:140]}", "raise", exc=type(e).__name__, layout=lay)
    vs = M + util.randn(g, 3, *b, n, t)
    refs = util.mvn_logpdf(vs.reshape(3, *b, -1), M.reshape(*b, -1), C)
    ctx.close("log_prob", d.log_prob(vs), refs, "direct", cls=lay + ":sample-batch")
    # rsample(base_samples=e) is affine in e with L L^T = joint covariance
    nt = n * t
    zero = d.rsample(base_samples=torch.zeros(*b, n, t))
    ctx.close("rsample_zero_is_mean", zero, M, "direct", cls=lay)
    cols = []
    for k in range(nt):
        e = torch.zeros(*b, nt)
        e[..., k] = 1.0
        cols.append((d.rsample(base_samples=e.reshape(*b, n, t)) - zero).reshape(*b, nt))
    L = torch.stack(cols, -1)
    ctx.close("rsample_LLt", L @ L.transpose(-1, -2), C, "direct", cls=lay)
    e = util.randn(g, 5, *b, n, t)
    e_keep = e.clone()
    got = d.rsample(base_samples=e)
    ref = M + (L @ e_keep.reshape(5, *b, nt, 1)).squeeze(-1).reshape(5, *b, n, t)
    ctx.close("rsample_linear", got, ref, "direct", cls=lay)
    ctx.expect("base_samples_not_mutated", bool(torch.equal(e, e_keep)), "rsample(base_samples=e) changed e in place", layout=lay)
    ctx.close("rsample_linear", d.rsample(base_samples=e), ref, "direct", cls=lay + ":same_base_samples_again")
    bs = d.get_base_samples(torch.Size([4]))
    ctx.expect("base_samples_shape", tuple(bs.shape) == (4, *b, n, t), f"{tuple(bs.shape)}")
    smp = d.rsample(torch.Size([2]))
    ctx.expect("rsample_shape", tuple(smp.shape) == (2, *b, n, t), f"{tuple(smp.shape)}")
    # data-independent dist: per-point task covariance (+ jitter)
    di = d.to_data_independent_dist(jitter_val=1e-4)
    C4 = C.reshape(*b, n, t, n, t)
    idx = torch.arange(n)
    per = C4[..., idx, :, idx, :]  # n x ... x t x t (advanced-index dims first)
    per = per.permute(*range(1, per.dim() - 2), 0, per.dim() - 2, per.dim() - 1) if per.dim() > 3 else per
    ctx.close("to_data_independent", di.covariance_matrix, per + 1e-4 * torch.eye(t), "direct", cls=lay)
    ctx.close("to_data_independent_mean", di.mean, M, "bit", cls=lay)
    # the documented jitter_val keyword is honoured on EVERY call of the same object (another value, then the first one again)
    for jv_ in (1e-2, 0.0, 1e-4):
        dj = d.to_data_independent_dist(jitter_val=jv_)
        ctx.close("to_data_independent", dj.covariance_matrix, per + jv_ * torch.eye(t), "direct", cls=lay + ":second_call_other_jitter")
    ctx.cell({k: v for k, v in case.items() if k != "seed"}, nontrivial=nt >= 2)


def _ctor(case, ctx, g):
    import torch

    from gpytorch.distributions import MultitaskMultivariateNormal as MT
    from gpytorch.distributions import MultivariateNormal as MVN
    from vf import util

    n, t, b = case["n"], case["t"], case["batch"]
    name = case["ctor"]
    crep = case.get("crep", "dense")

    def wrap(c, k=0):
        """hand the covariance to the MVN constructor in the requested representation (dense value returned alongside)"""
        from linear_operator.operators import DiagLinearOperator, RootLinearOperator

        r = crep if crep != "mixed" else ("diag", "dense", "root")[k % 3]
        if r == "diag":
            v = torch.diagonal(c, dim1=-2, dim2=-1).clone()
            return DiagLinearOperator(v), torch.diag_embed(v)
        if r == "root":
            L = torch.linalg.cholesky(c)
            return RootLinearOperator(L), L @ L.transpose(-1, -2)
        return c, c

    if name == "from_batch_mvn":
        td = case["task_dim"]
        full = list(b)
        pos = td if td >= 0 else len(b) + 1 + td
        full.insert(pos, t)  # batch shape of the base MVN, task dimension at `pos`
        mean = util.randn(g, *full, n)
        cobj, cov = wrap(_spd(g, *full, n))
        d = MT.from_batch_mvn(MVN(mean, cobj), task_dim=td)
        Mref = mean.movedim(pos, -1)  # ... n t
        covs = cov.movedim(pos, 0)  # t ... n n
    elif name == "from_independent_mvns":
        means = [util.randn(g, *b, n) for _ in range(t)]
        pairs = [wrap(_spd(g, *b, n), k) for k in range(t)]
        if case.get("shared_cov"):
            # ONE covariance object (tensor or operator) handed to every member, different means
            from linear_operator import to_linear_operator

            one = wrap(_spd(g, *b, n), 0)
            obj = to_linear_operator(one[0]) if case["shared_cov"] == "operator" and torch.is_tensor(one[0]) else one[0]
            pairs = [(obj, one[1]) for _ in range(t)]
        covl = [p_[1] for p_ in pairs]
        d = MT.from_independent_mvns([MVN(m, p_[0]) for m, p_ in zip(means, pairs)])
        Mref = torch.stack(means, -1)
        covs = torch.stack(covl, 0)
    else:
        mean = util.randn(g, *b, n)
        cobj, cov = wrap(_spd(g, *b, n))
        d = MT.from_repeated_mvn(MVN(mean, cobj), num_tasks=t)
        Mref = mean.unsqueeze(-1).expand(*b, n, t)
        covs = cov.unsqueeze(0).expand(t, *cov.shape)
    # joint of independent tasks in canonical order: C[(i,a),(j,b)] = delta_ab cov_a[i,j]
    C4 = torch.zeros(*b, n, t, n, t)
    for a in range(t):
        C4[..., :, a, :, a] = covs[a]
    Cref = C4.reshape(*b, n * t, n * t)
    ctx.expect(name + "_shapes", tuple(d.mean.shape) == (*b, n, t), f"mean shape {tuple(d.mean.shape)} expected {(*b, n, t)}")
    ctx.close(name, d.mean, Mref, "bit", cls=name + ":mean")
    ctx.close(name, _canon(d.covariance_matrix, n, t, d._interleaved), Cref, "direct", cls=name + ":cov:" + crep)
    ctx.close(name, d.variance, torch.diagonal(Cref, dim1=-2, dim2=-1).reshape(*b, n, t), "direct", cls=name + ":var:" + crep)
    v = Mref + util.randn(g, *b, n, t)
    ctx.close(name, d.log_prob(v), util.mvn_logpdf(v.reshape(*b, -1), Mref.reshape(*b, -1), Cref), "direct", cls=name + ":log_prob")
    ctx.cell({k: v_ for k, v_ in case.items() if k != "seed"}, nontrivial=n * t >= 2)


def _index(case, ctx, g):
    import torch

    from gpytorch.distributions import MultitaskMultivariateNormal as MT
    from vf import util
    from vf.gen import index as IX

    n, t, b = case["n"], case["t"], case["batch"]
    d, M, C = _make(dict(case, rep=case.get("rep", "dense")), g)
    idx = IX.decode_index(case["idx"])
    idx_arg = idx if len(idx) != 1 else idx[0]
    nb = 1
    for s in b:
        nb *= s
    Bfull = torch.arange(nb).reshape(*b, 1, 1).expand(*b, n, t) if b else torch.zeros(n, t, dtype=torch.long)
    Pfull = torch.arange(n * t).reshape(n, t).expand(*b, n, t)
    try:
        Mref = M[idx_arg]
    except IndexError:
        raise __import__("vf.core", fromlist=["Reject"]).Reject("index invalid for the mean's shape")
    if Mref.numel() == 0:
        raise __import__("vf.core", fromlist=["Reject"]).Reject("selects nothing")
    if Mref.dim() == 0:
        raise __import__("vf.core", fromlist=["Reject"]).Reject("index leaves no dimension (a distribution needs an event dimension)")
    Bsel, Psel = Bfull[idx_arg], Pfull[idx_arg]
    kinds = [IX.kind(e) for e in case["idx"]]
    cell = {"n": n, "t": t, "batch": b, "inter": case["interleaved"], "kinds": kinds}
    # when the same index tensor is asked for at two positions, ONE tensor object is passed (as a user writing d[..., ix, ix])
    tens = [e for e in idx if torch.is_tensor(e)]
    if len(tens) >= 2 and all(torch.equal(tens[0], e) for e in tens[1:]):
        idx = tuple(tens[0] if torch.is_tensor(e) else e for e in idx)
        idx_arg = idx if len(idx) != 1 else idx[0]
        ctx.hit("info:one_index_tensor_object_at_two_positions")
    before = [(e, e.clone()) for e in idx if torch.is_tensor(e)]
    try:
        sub = d[idx_arg]
    except Exception as e:
        ctx.fail("index_raises", f"d[{case['idx']}] raised {type(e).__name__}: {str(e)[:160]}", "raise", exc=type(e).__name__, kinds=kinds)
        ctx.cell(cell)
        return
    ctx.expect("index_tensors_not_mutated", all(torch.equal(e, c_) for e, c_ in before), f"d[{case['idx']}] changed the caller's index tensor in place", kinds=kinds)
    if not ctx.close("index_mean", sub.mean, Mref, "bit", cls="index:mean", kinds=kinds):
        ctx.cell(cell)
        return
    if Mref.dim() == 0 or (len(idx) >= len(b) + 2 and all(isinstance(e, int) for e in idx[-2:]) and Ellipsis not in idx[-2:]):
        # single (point, task) entry (per batch element): variance must be the joint's diagonal entry
        var = sub.variance
        Cb = C.reshape(nb, n * t, n * t) if b else C.reshape(1, n * t, n * t)
        ref = Cb[Bsel.reshape(-1), Psel.reshape(-1), Psel.reshape(-1)].reshape(Mref.shape)
        ctx.close("index_covariance", var.reshape(ref.shape), ref, "direct", cls="index:entry", kinds=kinds)
    else:
        subC, ev = _result_canon(sub)
        ev_shape = Mref.shape[Mref.dim() - ev :]
        k = 1
        for s in ev_shape:
            k *= s
        Bs = Bsel.reshape(-1, k)
        Ps = Psel.reshape(-1, k)
        if not bool((Bs == Bs[:, :1]).all()):
            raise __import__("vf.core", fromlist=["Reject"]).Reject("index mixes batch elements inside one event")
        Cb = C.reshape(nb, n * t, n * t) if b else C.reshape(1, n * t, n * t)
        ref = torch.stack([Cb[Bs[r, 0]][Ps[r]][:, Ps[r]] for r in range(Bs.shape[0])], 0)
        got = subC.reshape(-1, k, k) if subC.numel() == ref.numel() else subC
        ctx.close("index_covariance", got, ref, "direct", cls="index:" + ("mt" if ev == 2 else "mvn"), kinds=kinds, result_class=type(sub).__name__)
    sel = Psel.numel()
    ctx.cell(cell, nontrivial=0 < sel < max(nb, 1) * n * t or n * t == 1)
