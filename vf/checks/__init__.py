# per-property run configuration read by run.py without importing torch
CONFIG = {
    # "C20": {"shards": {"quick": 4, "thorough": 16}, "timeout": {"quick": 300, "thorough": 3000}},
}
