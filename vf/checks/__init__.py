# per-property run configuration read by run.py without importing torch
CONFIG = {
    "C06": {"shards": {"quick": 14, "thorough": 16}, "timeout": {"quick": 900, "thorough": 3400}},
    "C01": {"shards": {"quick": 10, "thorough": 16}},
    "C03": {"shards": {"quick": 14, "thorough": 16}, "timeout": {"quick": 900, "thorough": 3400}},
}
