"""C10 - MultivariateNormal is the distribution it claims to be.

Reference-model monitor at the public boundary of the real class: every method/property is compared with dense
float64 algebra on the broadcast mean/covariance: log_prob (fast and Cholesky paths, broadcast value shapes), KL,
rsample with base samples (affine, L L^T = Sigma - any root accepted), variance/stddev/confidence_region,
arithmetic, expand/unsqueeze/add_jitter, and d[idx] as the marginal of the selected components for enumerated
index expressions; sample moments statistically (thorough tier).
"""
import itertools
import random

PROPERTY = "C10"
RULE = (
    'case kinds: (logprob) event size x dist batch x mean batch x value batch x covariance representation (dense, operator, square root, '
    'non-square root, diagonal, added diagonal, Kronecker, lazy kernel, broadcast) x fast_computations.log_prob; (kl) pairs of batch shapes x '
    'representations incl. identical arguments; (sample) representation x batch: basis base-samples; (arith) '
    '+c,*c,/c,p+q,expand,unsqueeze,add_jitter,variance/stddev/confidence_region; (index) all index expressions from the per-dimension candidate '
    'sets over shapes (N), (b,N), (b1,b2,N) that leave >=1 dimension; (moments, thorough) 200k samples within 6 s.e.; distinct = distinct cell '
    '(all but seed); non-trivial iff covariance has non-zero off-diagonal (or kind is index selecting < all)'
    '; pass 5: sums of one object with itself; exact jitter amounts (tiny, zero, negative); exact log_prob path and scale_tril above max_cholesky_size'
    '; pass 6: KL divergence with the event size exactly at max_cholesky_size and Lanczos rank 2; index tensors must not be mutated'
    '; pass 7: sums of two root-represented MVNs; successive draws; the point-mass distribution of the anchor file (Delta: shapes, log_prob, samples, expand leaves the source alone, KL against an MVN = -log density)'
    "; pass 8: reading variance / stddev / confidence_region of an MVN with a variance below the floor leaves the distribution and the caller's tensors alone; Delta KL against diagonal operators"
    "; pass 10: KL with means that are views of one buffer; event-size-1 densities with a tiny variance; base samples come back unchanged and give the same draw again"
)
REQUIRED = ["log_prob", "kl", "kl_identical_zero", "rsample_LLt", "index_mean", "index_covariance", "variance", "mul_scalar", "add_mvn", "delta_distribution", "reading_leaves_distribution_alone"]
ASSUMPTIONS = ["random SPD covariances with condition number < 1e3; event sizes <= 6; stochastic fast-path pieces (SLQ) are not reached at these sizes (Cholesky below max_cholesky_size)"]
ANCHOR_FILES = ["gpytorch/distributions/multivariate_normal.py", "gpytorch/distributions/delta.py"]

REPS = ["dense", "linop", "root", "wideroot", "diag", "addeddiag", "kron", "lazykernel", "bcast"]
DBATCH = [[], [2], [3, 2], [1, 2]]
VBATCH = [[], [2], [3, 2], [5, 3, 2], [3, 1]]


def cases(tier, seed):
    from vf.gen import index as IX

    rnd = random.Random(10000 + seed)
    reps = 1 if tier == "quick" else 6
    for _ in range(reps):
        for N, db, vb, rep, fast in itertools.product([1, 2, 5], DBATCH, VBATCH, REPS, [True, False]):
            if tier == "quick" and rnd.random() < 0.0:
                continue
            yield {"kind": "logprob", "N": N, "dbatch": db, "vbatch": vb, "rep": rep, "fast": fast, "mean_less": rnd.random() < 0.3, "seed": rnd.randrange(10**6)}
        # a component in tiny units (variance below settings.min_variance): `variance` reports the floor - and reading it
        # (or stddev / confidence_region) leaves the distribution and the caller's tensors as they were
        for rep, db, reader in itertools.product(["dense", "linop", "diag", "index_view"], [[], [2]], ["variance", "stddev", "confidence_region"]):
            yield {"kind": "tiny_variance", "rep": rep, "dbatch": db, "reader": reader, "N": 4, "seed": rnd.randrange(10**6)}
        # the point-mass member of the family (gpytorch.distributions.Delta): expand / log_prob / rsample / KL against an MVN
        for N, db, eb, ev in itertools.product([1, 3], [[], [2], [3, 1]], [[2], [4, 3, 2], [3, 2]], [0, 1]):
            yield {"kind": "delta", "N": N, "dbatch": db, "expand": eb, "event_dim": ev, "seed": rnd.randrange(10**6)}
        for N, b1, b2, r1, r2 in itertools.product([1, 3], DBATCH, DBATCH, ["dense", "linop", "root", "wideroot", "diag"], ["dense", "kron", "addeddiag", "wideroot", "diag"]):
            if tier == "quick" and rnd.random() < 0.0:
                continue
            yield {"kind": "kl", "N": N if r2 != "kron" else 4, "b1": b1, "b2": b2, "r1": r1, "r2": r2, "seed": rnd.randrange(10**6)}
        for N, db, rep in itertools.product([1, 2, 5], DBATCH, REPS):
            yield {"kind": "sample", "N": N, "dbatch": db, "rep": rep, "seed": rnd.randrange(10**6)}
            yield {"kind": "arith", "N": N, "dbatch": db, "rep": rep, "seed": rnd.randrange(10**6)}
        for N, db in itertools.product([2, 5], DBATCH):
            # rank-deficient covariance held as a tall n x r root (r < n): arithmetic and sampling still describe N(m, R R^T)
            yield {"kind": "arith", "N": N, "dbatch": db, "rep": "lowrank", "seed": rnd.randrange(10**6)}
            yield {"kind": "sample", "N": N, "dbatch": db, "rep": "lowrank", "seed": rnd.randrange(10**6)}
    # indexing: enumerate
    for shape in ([4], [2, 4], [2, 3, 4]) if tier == "quick" else ([4], [1], [2, 4], [3, 2], [2, 3, 4], [1, 2, 3]):
        per_dim = [IX.dim_candidates(s, rich=(tier == "thorough" or len(shape) == 1)) for s in shape]
        combos = list(itertools.product(*per_dim))
        # also shorter indices (batch only) and ellipsis placements
        extra = []
        for k in range(1, len(shape)):
            for c in itertools.product(*per_dim[:k]):
                extra.append(list(c))
                extra.append(list(c) + ["..."])
            for c in itertools.product(*per_dim[len(shape) - k:]):
                extra.append(["..."] + list(c))
        cap = 900 if tier == "quick" else 20000
        if len(combos) > cap:
            combos = rnd.sample(combos, cap)
        if len(extra) > cap // 3:
            extra = rnd.sample(extra, cap // 3)
        for c in list(map(list, combos)) + extra:
            ntens = sum(1 for e in c if isinstance(e, list) and e[0] == "t")
            if ntens > 1:
                continue  # several index tensors pair up / mix batch elements: outside "marginal of selected components"
            for rep in (["dense", "diag"] if tier == "quick" else ["dense", "root", "diag", "wideroot", "lazykernel"]):
                yield {"kind": "index", "shape": shape, "idx": c, "rep": rep, "seed": rnd.randrange(10**6)}
    if tier == "thorough":
        for N, db, rep in itertools.product([2, 4], [[], [2]], ["dense", "root", "kron", "lazykernel"]):
            yield {"kind": "moments", "N": N if rep != "kron" else 4, "dbatch": db, "rep": rep, "seed": rnd.randrange(10**6)}


def _spd(g, *shape):
    import torch

    from vf import util

    a = util.randn(g, *shape, shape[-1])
    return a @ a.transpose(-1, -2) / shape[-1] + 0.3 * torch.eye(shape[-1])


def make_cov(rep, g, batch, N):
    """returns (object handed to the real constructor, dense covariance with batch shape `batch` (or broadcastable))"""
    import torch
    from linear_operator.operators import DenseLinearOperator, DiagLinearOperator, KroneckerProductLinearOperator, RootLinearOperator

    import gpytorch
    from vf import util

    if rep == "dense":
        c = _spd(g, *batch, N)
        return c, c
    if rep == "linop":
        c = _spd(g, *batch, N)
        return DenseLinearOperator(c), c
    if rep == "root":
        R = util.randn(g, *batch, N, N) + 0.5 * torch.eye(N)
        return RootLinearOperator(R), R @ R.transpose(-1, -2)
    if rep == "wideroot":
        # full-rank covariance held as a non-square n x (n+2) root
        R = util.randn(g, *batch, N, N + 2)
        return RootLinearOperator(R), R @ R.transpose(-1, -2)
    if rep == "lowrank":
        R = util.randn(g, *batch, N, max(1, N - 1))
        return RootLinearOperator(R), R @ R.transpose(-1, -2)
    if rep == "diag":
        v = util.rand(g, *batch, N) + 0.2
        return DiagLinearOperator(v), torch.diag_embed(v)
    if rep == "addeddiag":
        c = _spd(g, *batch, N)
        v = util.rand(g, *batch, N) + 0.1
        return DenseLinearOperator(c) + DiagLinearOperator(v), c + torch.diag_embed(v)
    if rep == "kron":
        n1 = 2 if N % 2 == 0 and N > 1 else 1
        A, B = _spd(g, *batch, n1), _spd(g, *batch, N // n1)
        op = KroneckerProductLinearOperator(A, B)
        return op, op.to_dense()
    if rep == "lazykernel":
        k = gpytorch.kernels.ScaleKernel(gpytorch.kernels.RBFKernel(batch_shape=torch.Size(batch)), batch_shape=torch.Size(batch))
        util.randomize(k, g)
        x = util.randn(g, *batch, N, 2)
        op = k(x).add_jitter(0.3)
        with torch.no_grad():
            return op, op.to_dense().detach()
    if rep == "bcast":
        # covariance with a smaller batch shape than the mean (broadcast)
        c = _spd(g, *batch[1:], N) if len(batch) else _spd(g, N)
        return c, c
    raise ValueError(rep)


def run_case(case, ctx):
    from vf import util

    g = util.gen(case["seed"])
    return {"logprob": _logprob, "kl": _kl, "sample": _sample, "arith": _arith, "index": _index, "moments": _moments, "delta": _delta, "tiny_variance": _tiny_variance}[case["kind"]](case, ctx, g)


def _tiny_variance(case, ctx, g):
    import warnings

    import torch
    from linear_operator.operators import DenseLinearOperator, DiagLinearOperator

    from gpytorch import settings as S
    from gpytorch.distributions import MultivariateNormal as MVN
    from vf import util

    N, db = case["N"], case["dbatch"]
    floor = S.min_variance.value(torch.double)
    a = util.randn(g, *db, N, N)
    Cw = a @ a.transpose(-1, -2) / N + 0.5 * torch.eye(N)  # well conditioned factor
    sc = torch.ones(N)
    sc[1] = 1e-6  # one component in tiny units: variance ~1e-12 < floor
    if case["rep"] in ("diag", "index_view"):
        v = (util.rand(g, *db, N) + 0.2) * sc**2
        K = torch.diag_embed(v)
    else:
        K = sc.unsqueeze(-1) * Cw * sc
    handed = K.clone() if case["rep"] != "diag" else v.clone()
    keep = handed.clone()
    if case["rep"] == "dense":
        d = MVN(util.randn(g, *db, N), handed)
    elif case["rep"] == "linop":
        d = MVN(util.randn(g, *db, N), DenseLinearOperator(handed))
    elif case["rep"] == "diag":
        d = MVN(util.randn(g, *db, N), DiagLinearOperator(handed))
    else:
        # a marginal taken by indexing (its diagonal operator may be a view of the parent's covariance)
        parent = MVN(util.randn(g, *db, N + 1), DenseLinearOperator(torch.block_diag(torch.ones(1, 1), handed) if not db else torch.stack([torch.block_diag(torch.ones(1, 1), h_) for h_ in handed])))
        pk = parent.covariance_matrix.clone()
        d = parent[..., 1:]
    mean = d.mean.clone()
    y = mean + util.randn(g, *db, N) * torch.diagonal(K, dim1=-2, dim2=-1).sqrt()
    with warnings.catch_warnings():
        warnings.simplefilter("ignore")
        with torch.no_grad():
            if case["reader"] == "variance":
                got = d.variance
                ref = torch.diagonal(K, dim1=-2, dim2=-1).clamp_min(floor)
            elif case["reader"] == "stddev":
                got = d.stddev
                ref = torch.diagonal(K, dim1=-2, dim2=-1).clamp_min(floor).sqrt()
            else:
                lo, hi = d.confidence_region()
                got = hi - lo
                ref = 4 * torch.diagonal(K, dim1=-2, dim2=-1).clamp_min(floor).sqrt()
            ctx.close("variance", got, ref.expand(got.shape), (0.0, 1e-12), cls="tiny:" + case["reader"] + ":" + case["rep"])
            # ... and the distribution is still N(m, K)
            ctx.close("reading_leaves_distribution_alone", d.covariance_matrix, K.expand(d.covariance_matrix.shape), (0.0, 1e-13), cls="covariance:" + case["rep"], reader=case["reader"])
            ctx.expect("reading_leaves_distribution_alone", bool(torch.equal(handed, keep)), f"reading .{case['reader']} changed the tensor the caller built the distribution from", rep=case["rep"], reader=case["reader"])
            if case["rep"] == "index_view":
                ctx.close("reading_leaves_distribution_alone", parent.covariance_matrix, pk, "bit", cls="parent_of_indexed", reader=case["reader"])
            # log density in the units of the well conditioned factor (independent of any jitter the path may add to K)
            if case["rep"] in ("dense", "linop"):
                z = (y - mean) / sc
                ref_lp = util.mvn_logpdf(z, torch.zeros_like(z), Cw) - sc.log().sum()
                with S.fast_computations(log_prob=False):
                    ctx.close("reading_leaves_distribution_alone", d.log_prob(y), ref_lp, (1e-6, 1e-6), cls="log_prob_after_read:" + case["rep"], reader=case["reader"])
    # a single-output distribution (event size 1) in tiny units: the density is that of ITS variance (the reporting floor of
    # `variance` is not part of the density), on the fast and the Cholesky path
    import math

    for fast in (True, False):
        m1 = util.randn(g, *db, 1)
        v1 = (10.0 ** (-13 + 2 * util.rand(g, *db, 1)))
        d1 = MVN(m1, v1.unsqueeze(-1) if case["rep"] != "diag" else DiagLinearOperator(v1))
        y1 = m1 + v1.sqrt() * util.randn(g, *db, 1)
        with torch.no_grad(), S.fast_computations(log_prob=fast), warnings.catch_warnings():
            warnings.simplefilter("ignore")
            if case["reader"] == "variance":
                d1.variance
            lp = d1.log_prob(y1)
        ref1 = (-0.5 * (y1 - m1) ** 2 / v1 - 0.5 * torch.log(v1) - 0.5 * math.log(2 * math.pi)).squeeze(-1)
        ctx.close("log_prob", lp, ref1, (1e-6, 1e-6), cls=f"log_prob:event_size_1:tiny_variance:{'fast' if fast else 'chol'}")
    ctx.cell(_cellkey(case), nontrivial=True)


def _delta(case, ctx, g):
    """Delta(v): the distribution of the constant v. expand broadcasts v (and the log density) and leaves the source as it was;
    log_prob is the log density at v and -inf elsewhere; samples are v; KL(Delta(v) || N(m, C)) = -log N(v | m, C)"""
    import torch

    from gpytorch.distributions import Delta
    from gpytorch.distributions import MultivariateNormal as MVN
    from vf import util

    N, db, eb, ev = case["N"], case["dbatch"], case["expand"], case["event_dim"]
    v = util.randn(g, *db, N)
    ld = util.randn(g, *(v.shape[: v.dim() - ev])) if case["seed"] % 2 else 0.0
    d = Delta(v.clone(), log_density=ld.clone() if torch.is_tensor(ld) else ld, event_dim=ev)
    bs0, es0 = tuple(d.batch_shape), tuple(d.event_shape)
    ctx.expect("delta_distribution", bs0 == tuple(v.shape[: v.dim() - ev]) and es0 == tuple(v.shape[v.dim() - ev:]), f"batch/event shapes {bs0}/{es0} for v of shape {tuple(v.shape)}, event_dim={ev}")
    ldt = ld if torch.is_tensor(ld) else torch.zeros(bs0)
    ctx.close("delta_distribution", d.log_prob(v), ldt, "bit", cls="log_prob_at_v")
    off = d.log_prob(v + 1.0)
    ctx.expect("delta_distribution", bool((off == float("-inf")).all()), "log_prob away from the support is not -inf")
    ctx.close("delta_distribution", d.rsample(torch.Size([2])), v.expand(2, *v.shape), "bit", cls="rsample")
    ctx.close("delta_distribution", d.mean, v, "bit", cls="mean")
    ctx.expect("delta_distribution", bool((d.variance == 0).all()), "variance of a point mass is not 0")
    try:
        tgt = torch.broadcast_shapes(torch.Size(eb), torch.Size(bs0))
    except RuntimeError:
        tgt = None
    if tgt is not None and len(tgt) >= len(bs0):
        try:
            e = d.expand(tgt)
            ctx.expect("delta_distribution", tuple(e.batch_shape) == tuple(tgt) and tuple(e.event_shape) == es0, f"expand({tuple(tgt)}): batch/event shapes {tuple(e.batch_shape)}/{tuple(e.event_shape)}")
            ve = v.expand(*tgt, *es0)
            ctx.close("delta_distribution", e.mean, ve, "bit", cls="expand:mean")
            ctx.close("delta_distribution", e.log_prob(ve), ldt.expand(tgt), "bit", cls="expand:log_prob")
        except Exception as ex:
            ctx.fail("delta_distribution", f"expand({tuple(tgt)}) / use of the expanded distribution raised {type(ex).__name__}: {str(ex)[:120]}", "raise", op="expand")
        ctx.expect("delta_distribution", tuple(d.batch_shape) == bs0 and tuple(d.event_shape) == es0 and bool(torch.equal(d.v, v)), f"expand changed the SOURCE distribution: batch shape {bs0} -> {tuple(d.batch_shape)}", op="expand_source")
    if ev == 1:
        a = util.randn(g, *db, N, N)
        C = a @ a.transpose(-1, -2) / N + 0.5 * torch.eye(N)
        q = MVN(util.randn(g, *db, N), C)
        kl = torch.distributions.kl_divergence(d, q)
        ctx.close("delta_distribution", kl, -util.mvn_logpdf(v, q.mean, C), "direct", cls="kl_delta_mvn")
        # the same against diagonal covariances held as operators (non-unit variances; the whitened prior is the unit case)
        from linear_operator.operators import ConstantDiagLinearOperator, DiagLinearOperator

        dv = util.rand(g, *db, N) * 2 + 0.1
        cv = util.rand(g, *db, 1) * 2 + 0.1
        for tag, op, dense in (("diag", DiagLinearOperator(dv), torch.diag_embed(dv)), ("constant_diag", ConstantDiagLinearOperator(cv, diag_shape=N), torch.diag_embed(cv.expand(*db, N))),
                               ("unit_diag", DiagLinearOperator(torch.ones(*db, N)), torch.eye(N).expand(*db, N, N))):
            qm = util.randn(g, *db, N)
            kl = torch.distributions.kl_divergence(d, MVN(qm, op))
            ctx.close("delta_distribution", kl, -util.mvn_logpdf(v, qm, dense), "direct", cls="kl_delta_mvn:" + tag)
    ctx.cell(_cellkey(case), nontrivial=True)


def _cellkey(case):
    return {k: v for k, v in case.items() if k != "seed"}


def _logprob(case, ctx, g):
    import torch

    from gpytorch import settings as S
    from gpytorch.distributions import MultivariateNormal as MVN
    from vf import util

    N, db, vb = case["N"], case["dbatch"], case["vbatch"]
    cov_obj, C = make_cov(case["rep"], g, db, N)
    mb = db[1:] if (case["mean_less"] and len(db)) else db
    if case["rep"] == "bcast":
        mb = db
    mean = util.randn(g, *mb, N)
    try:
        bshape = torch.broadcast_shapes(torch.Size(db), torch.Size(vb))
    except RuntimeError:
        raise __import__("vf.core", fromlist=["Reject"]).Reject("value batch does not broadcast with the distribution batch")
    d = MVN(mean, cov_obj)
    v = util.randn(g, *vb, N)
    ref = util.mvn_logpdf(v.expand(*bshape, N), mean.expand(*bshape, N), C.expand(*bshape, N, N))
    cls = f"{case['rep']}:{'fast' if case['fast'] else 'chol'}"
    vrel = "v<d" if len(vb) < len(d.batch_shape) else ("v=d" if list(vb) == list(d.batch_shape) else ("v>d" if len(vb) > len(d.batch_shape) else "v~d"))
    try:
        with S.fast_computations(log_prob=case["fast"]):
            got = d.log_prob(v)
    except Exception as e:
        full = list(torch.broadcast_shapes(torch.Size(db), torch.Size(mb)))
        vpad = [1] * (len(full) - len(vb)) + list(vb)
        singleton = any(a == 1 and b_ > 1 for a, b_ in zip(vpad[-len(full):] if full else [], full))
        ctx.fail("log_prob", f"log_prob raised {type(e).__name__}: {str(e)[:140]}", "raise", exc=type(e).__name__, vrel=vrel, fast=case["fast"],
                 mean_less=len(mb) < len(db) or case["rep"] == "bcast", value_singleton_vs_batch=singleton, value_rank_less=len(vb) < len(full),
                 cov_batch=list(getattr(cov_obj, "batch_shape", C.shape[:-2])), mean_batch=list(mb), vbatch=vb)
        ctx.cell(_cellkey(case))
        return
    ctx.close("log_prob", got, ref.expand(got.shape) if got.shape != ref.shape and got.numel() == ref.numel() else ref, "direct", cls=cls, vrel=vrel)
    if not case["fast"]:
        # the exact path stays exact for events larger than max_cholesky_size (fresh object: nothing cached yet)
        g2 = util.gen(case["seed"])
        cov2, _ = make_cov(case["rep"], g2, db, N)
        d2 = MVN(util.randn(g2, *mb, N), cov2)
        try:
            with S.fast_computations(log_prob=False), S.max_cholesky_size(0):
                got2 = d2.log_prob(v)
                L2 = d2.scale_tril
            ctx.close("log_prob", got2, ref.expand(got2.shape) if got2.shape != ref.shape and got2.numel() == ref.numel() else ref, "direct", cls=cls + ":above_size_threshold", vrel=vrel)
            ctx.close("derived_scale_tril", L2 @ L2.transpose(-1, -2), C.expand(*L2.shape[:-2], N, N), (1e-7, 1e-7), cls=case["rep"] + ":scale_tril:above_size_threshold")
            ctx.expect("scale_tril_is_lower_triangular", bool((L2.triu(1) == 0).all()), "scale_tril has entries above the diagonal", rep=case["rep"])
        except Exception as e:
            ctx.fail("log_prob", f"log_prob above the size threshold raised {type(e).__name__}: {str(e)[:140]}", "raise", exc=type(e).__name__, vrel=vrel, fast=False, above_threshold=True)
    ctx.cell(_cellkey(case), nontrivial=N > 1 or True)


def _kl(case, ctx, g):
    import torch

    from gpytorch.distributions import MultivariateNormal as MVN
    from vf import util

    N = case["N"]
    o1, C1 = make_cov(case["r1"], g, case["b1"], N)
    o2, C2 = make_cov(case["r2"], g, case["b2"], N)
    m1, m2 = util.randn(g, *case["b1"], N), util.randn(g, *case["b2"], N)
    try:
        bs = torch.broadcast_shapes(torch.Size(case["b1"]), torch.Size(case["b2"]))
    except RuntimeError:
        raise __import__("vf.core", fromlist=["Reject"]).Reject("batch shapes do not broadcast")
    p, q = MVN(m1, o1), MVN(m2, o2)
    got = torch.distributions.kl_divergence(p, q)
    C1e, C2e, m1e, m2e = C1.expand(*bs, N, N), C2.expand(*bs, N, N), m1.expand(*bs, N), m2.expand(*bs, N)
    C2i = torch.linalg.inv(C2e)
    dm = (m2e - m1e).unsqueeze(-1)
    ref = 0.5 * ((C2i @ C1e).diagonal(dim1=-2, dim2=-1).sum(-1) + (dm.transpose(-1, -2) @ C2i @ dm).squeeze(-1).squeeze(-1) - N + torch.logdet(C2e) - torch.logdet(C1e))
    ctx.close("kl", got, ref, "direct", cls=f"kl:{case['r1']}|{case['r2']}")
    same = torch.distributions.kl_divergence(p, MVN(m1.clone(), make_same(case["r1"], o1, C1)))
    ctx.close("kl_identical_zero", same, torch.zeros_like(same), (1e-6, 0.0), cls="kl:identical")
    # means that are DIFFERENT views of one buffer (same first element, other strides): still the closed form of their values
    if not case["b1"] and not case["b2"]:
        buf = util.randn(g, 2 * N + 1)
        va, vb = buf[:N], buf[: 2 * N : 2]
        kv = torch.distributions.kl_divergence(MVN(va, C1.clone()), MVN(vb, C2.clone()))
        dv = (vb - va).unsqueeze(-1)
        C2i0 = torch.linalg.inv(C2)
        refv = 0.5 * ((C2i0 @ C1).diagonal().sum() + (dv.T @ C2i0 @ dv).squeeze() - N + torch.logdet(C2) - torch.logdet(C1))
        ctx.close("kl", kv, refv, "direct", cls="kl:means_are_views_of_one_buffer")
        if N >= 2:
            sq = util.randn(g, N, N)
            kt = torch.distributions.kl_divergence(MVN(sq, C1.clone()), MVN(sq.t(), C2.clone()))  # batch of N: rows vs columns
            dt_ = (sq.t() - sq).unsqueeze(-1)
            reft = 0.5 * ((C2i0 @ C1).diagonal().sum() + (dt_.transpose(-1, -2) @ C2i0 @ dt_).squeeze(-1).squeeze(-1) - N + torch.logdet(C2) - torch.logdet(C1))
            ctx.close("kl", kt, reft, "direct", cls="kl:mean_and_its_transpose")
    # the event size exactly AT the Cholesky size limit (Cholesky is documented for sizes up to and including it), with a
    # Lanczos rank far too small to be exact: fresh objects, nothing cached
    from gpytorch import settings as S

    g2 = util.gen(case["seed"])
    o1b, _ = make_cov(case["r1"], g2, case["b1"], N)
    o2b, _ = make_cov(case["r2"], g2, case["b2"], N)
    try:
        with S.max_cholesky_size(N), S.max_root_decomposition_size(2):
            got_t = torch.distributions.kl_divergence(MVN(m1, o1b), MVN(m2, o2b))
        ctx.close("kl", got_t, ref, "direct", cls=f"kl:{case['r1']}|{case['r2']}:event_size_at_cholesky_limit")
    except Exception as e:
        ctx.fail("kl", f"kl_divergence at the Cholesky size limit raised {type(e).__name__}: {str(e)[:120]}", "raise", exc=type(e).__name__, at_limit=True)
    ctx.cell(_cellkey(case))


def make_same(rep, obj, C):
    return C.clone()


def _sample(case, ctx, g):
    import torch

    from gpytorch.distributions import MultivariateNormal as MVN
    from vf import util

    N, db = case["N"], case["dbatch"]
    cov_obj, C = make_cov(case["rep"], g, db, N)
    mean = util.randn(g, *db, N)
    d = MVN(mean, cov_obj)
    C = C.expand(*db, N, N)
    r = d.base_sample_shape[-1]  # the documented length of base samples (a non-square root has r > N)
    ctx.expect("base_sample_length", r == N or case["rep"] in ("wideroot", "lowrank"), f"base_sample_shape {tuple(d.base_sample_shape)} for N={N}")
    zero = d.rsample(base_samples=torch.zeros(*db, r))
    ctx.close("rsample_zero_is_mean", zero, mean, "direct", cls=case["rep"])
    cols = []
    for k in range(r):
        e = torch.zeros(*db, r)
        e[..., k] = 1.0
        cols.append(d.rsample(base_samples=e) - zero)
    L = torch.stack(cols, -1)
    ctx.close("rsample_LLt", L @ L.transpose(-1, -2), C, "direct", cls=case["rep"])
    e = util.randn(g, 4, 3, *db, r)
    e_keep = e.clone()
    got = d.rsample(base_samples=e)
    ref = mean + (L @ e_keep.unsqueeze(-1)).squeeze(-1)
    ctx.close("rsample_linear", got, ref, "direct", cls=case["rep"])
    # the caller's base samples come back unchanged (common random numbers: the same e is used again, here and elsewhere)
    ctx.expect("base_samples_not_mutated", bool(torch.equal(e, e_keep)), "rsample(base_samples=e) changed e in place", rep=case["rep"])
    ctx.close("rsample_linear", d.rsample(base_samples=e), ref, "direct", cls=case["rep"] + ":same_base_samples_again")
    ctx.expect("rsample_shape", tuple(d.rsample(torch.Size([3, 2])).shape) == (3, 2, *db, N), "rsample(sample_shape) shape")
    # successive draws are NEW draws: the base samples of consecutive calls are different numbers (and uncorrelated), so that
    # moments estimated over several calls can converge at all
    b1, b2 = d.get_base_samples(torch.Size([400])), d.get_base_samples(torch.Size([400]))
    ctx.expect("successive_draws_are_independent", not bool(torch.equal(b1, b2)), "two consecutive get_base_samples calls returned identical numbers")
    r1, r2 = d.rsample(torch.Size([2])), d.rsample(torch.Size([2]))
    ctx.expect("successive_draws_are_independent", not bool(torch.equal(r1, r2)), "two consecutive rsample calls returned identical draws")
    corr = float((b1 * b2).mean() / (b1.std() * b2.std()).clamp_min(1e-12))
    ctx.expect("successive_draws_are_independent", abs(corr) < 0.25, f"base samples of consecutive calls are correlated ({corr:.2f})")
    u1 = torch.rand(3)
    d.get_base_samples(torch.Size([2]))
    u2 = torch.rand(3)
    ctx.expect("successive_draws_are_independent", not bool(torch.equal(u1, u2)), "drawing base samples reset the global generator (the next torch.rand repeated the previous one)")
    ctx.expect("base_sample_shape", tuple(d.get_base_samples(torch.Size([2])).shape)[:1] == (2,), "get_base_samples shape")
    ctx.cell(_cellkey(case))


def _observables(ctx, q, m_ref, C_ref, tag, **kw):
    """every read-out of a DERIVED distribution (indexed / expanded / unsqueezed / shifted), not only mean and covariance:
    scale_tril, precision_matrix, entropy and log_prob on both paths must describe N(m_ref, C_ref)"""
    import math

    import torch

    from gpytorch import settings as S
    from vf import util

    ev = torch.linalg.eigvalsh(0.5 * (C_ref + C_ref.transpose(-1, -2)))
    if float(ev.min()) < 1e-6 * max(1.0, float(ev.max())):
        return  # singular (repeated components): no density / factor to speak of
    n = C_ref.shape[-1]
    try:
        L = q.scale_tril
        ctx.close("derived_scale_tril", L @ L.transpose(-1, -2), C_ref.expand(L.shape), (1e-7, 1e-7), cls=tag + ":scale_tril", **kw)
        ctx.close("derived_precision", q.precision_matrix, torch.linalg.inv(C_ref).expand(L.shape), (1e-6, 1e-6), cls=tag + ":precision", **kw)
        ent = 0.5 * n * (1 + math.log(2 * math.pi)) + 0.5 * torch.logdet(C_ref)
        ctx.close("derived_entropy", q.entropy(), ent.expand(q.batch_shape), (1e-7, 1e-7), cls=tag + ":entropy", **kw)
        v = m_ref + 0.3 * torch.ones_like(m_ref)
        ref_lp = util.mvn_logpdf(v, m_ref, C_ref.expand(*m_ref.shape[:-1], n, n))
        for fast in (True, False):
            with S.fast_computations(log_prob=fast):
                ctx.close("derived_log_prob", q.log_prob(v), ref_lp, (1e-7, 1e-7), cls=tag + (":log_prob_fast" if fast else ":log_prob_chol"), **kw)
    except Exception as e:
        ctx.fail("derived_observables_raise", f"{tag}: {type(e).__name__}: {str(e)[:140]}", "raise", exc=type(e).__name__, **kw)


def _prime(d, how):
    """make the parent hold cached factorisations before it is derived from (the order real code meets)"""
    import torch

    from gpytorch import settings as S

    if how == "scale_tril":
        d.scale_tril
    elif how == "log_prob_chol":
        with S.fast_computations(log_prob=False):
            d.log_prob(d.mean + 0.1)
    elif how == "rsample":
        d.rsample(torch.Size([2]))


def _arith(case, ctx, g):
    import torch

    from gpytorch import settings as S
    from gpytorch.distributions import MultivariateNormal as MVN
    from vf import util

    N, db = case["N"], case["dbatch"]
    cov_obj, C = make_cov(case["rep"], g, db, N)
    mean = util.randn(g, *db, N)
    d = MVN(mean, cov_obj)
    C = C.expand(*db, N, N)
    rep = case["rep"]
    var = torch.diagonal(C, dim1=-2, dim2=-1)
    ctx.close("variance", d.variance, var, "direct", cls=rep)
    ctx.close("stddev", d.stddev, var.sqrt(), "direct", cls=rep)
    lo, hi = d.confidence_region()
    ctx.close("confidence_region", torch.stack([lo, hi]), torch.stack([mean - 2 * var.sqrt(), mean + 2 * var.sqrt()]), "direct", cls=rep)
    ctx.close("covariance_matrix", d.covariance_matrix, C, "direct", cls=rep)
    ctx.expect("shapes", tuple(d.batch_shape) == tuple(db) and tuple(d.event_shape) == (N,), f"batch {tuple(d.batch_shape)} event {tuple(d.event_shape)}")
    # the independent (per-component) view and non-reparameterised draws
    ind = d.to_data_independent_dist()
    ctx.close("variance", ind.mean, mean, "direct", cls=rep + ":independent:mean")
    ctx.close("stddev", ind.stddev, var.sqrt(), "direct", cls=rep + ":independent:stddev")
    torch.manual_seed(case["seed"])
    s1 = d.sample(torch.Size([3]))
    torch.manual_seed(case["seed"])
    s2 = d.rsample(torch.Size([3]))
    ctx.close("sample_is_rsample", s1, s2.detach(), (1e-12, 1e-12), cls=rep + ":sample")
    ctx.expect("sample_is_rsample", tuple(s1.shape) == (3, *db, N) and not s1.requires_grad, f"sample shape {tuple(s1.shape)}, requires_grad {s1.requires_grad}")
    c = float(util.randn(g, 1)) * 2 + 0.1

    prime = ["none", "scale_tril", "log_prob_chol", "rsample"][case["seed"] % 4]
    if rep not in ("bcast",):
        try:
            _prime(d, prime)
        except Exception:
            prime = "none"

    def chk(name, make, m_ref, C_ref):
        try:
            q = make()
            qm, qc = q.mean, q.covariance_matrix
        except Exception as e:
            ctx.fail(name, f"{name} raised {type(e).__name__}: {str(e)[:140]}", "raise", exc=type(e).__name__, rep=rep, op=name)
            return
        ok = ctx.close(name, qm, m_ref, "direct", cls=name + ":mean", rep=rep, op=name)
        ok = ctx.close(name, qc, C_ref, "direct", cls=name + ":cov", rep=rep, op=name) and ok
        if ok and rep not in ("bcast",):
            _observables(ctx, q, m_ref, C_ref, name, rep=rep, op=name, primed=prime)

    chk("add_scalar", lambda: d + c, mean + c, C)
    chk("radd_zero", lambda: 0 + d, mean, C)
    chk("mul_scalar", lambda: d * c, mean * c, C * c * c)
    chk("mul_scalar", lambda: d * -2, mean * -2, C * 4)
    chk("div_scalar", lambda: d / c, mean / c, C / (c * c))
    o2, C2 = make_cov("dense", g, db, N)
    m2 = util.randn(g, *db, N)
    chk("add_mvn", lambda: d + MVN(m2, o2), mean + m2, C + C2)
    # the other operand in the SAME representation as the first (root + root, diagonal + diagonal, ...)
    if rep not in ("bcast",):
        o3, C3 = make_cov(rep, g, db, N)
        m3 = util.randn(g, *db, N)
        chk("add_mvn", lambda: d + MVN(m3, o3), mean + m3, C + C3.expand(*db, N, N))
    # the + of two distribution objects is the sum of INDEPENDENT vectors, also when both operands are one object
    chk("add_mvn", lambda: d + d, 2 * mean, 2 * C)
    chk("add_mvn", lambda: sum([d, d, d]), 3 * mean, 3 * C)
    chk("add_jitter", lambda: d.add_jitter(0.37), mean, C + 0.37 * torch.eye(N))
    # exactly the requested amount: tiny, zero and (valid while the matrix stays positive definite) negative amounts
    lam_min = float(torch.linalg.eigvalsh(C).min())
    for tag, j in (("tiny", 1e-10), ("zero", 0.0), ("negative", -0.25 * lam_min if lam_min > 1e-6 else None)):
        if j is None:
            continue
        try:
            added = d.add_jitter(j).covariance_matrix - d.covariance_matrix
        except Exception as e:
            ctx.fail("add_jitter", f"add_jitter({j}) raised {type(e).__name__}: {str(e)[:100]}", "raise", exc=type(e).__name__, rep=rep)
            continue
        ctx.close("add_jitter", added, (j * torch.eye(N)).expand(added.shape), (max(abs(j) * 1e-3, 1e-14 * float(C.abs().max())), 0.0), cls="add_jitter:amount:" + tag, rep=rep)
    eb = [3] + list(db)
    chk("expand", lambda: d.expand(torch.Size(eb)), mean.expand(*eb, N), C.expand(*eb, N, N))
    for dim in range(-len(db) - 1, len(db) + 1):
        chk("unsqueeze", lambda: d.unsqueeze(dim), mean.unsqueeze(dim if dim >= 0 else dim - 1), C.unsqueeze(dim if dim >= 0 else dim - 2))
    # variance floor
    with S.min_variance(double_value=0.05):
        tiny = MVN(mean, C * 1e-6 + (1e-9 * torch.eye(N) if rep == "lowrank" else 0.0))
        ctx.expect("variance_floor", bool((tiny.variance >= 0.05).all()) and bool((tiny.stddev >= 0.05**0.5 - 1e-12).all()), "variance below the configured minimum")
    ctx.cell(_cellkey(case))


def _index(case, ctx, g):
    import torch

    from gpytorch.distributions import MultivariateNormal as MVN
    from vf import util
    from vf.core import Reject
    from vf.gen import index as IX

    shape = case["shape"]
    b, N = shape[:-1], shape[-1]
    cov_obj, C = make_cov(case["rep"], g, b, N)
    mean = util.randn(g, *b, N)
    d = MVN(mean, cov_obj)
    idx = IX.decode_index(case["idx"])
    idx_arg = idx if len(idx) != 1 else idx[0]
    nb = 1
    for s in b:
        nb *= s
    Bfull = torch.arange(nb).reshape(*b, 1).expand(*b, N) if b else torch.zeros(N, dtype=torch.long)
    Pfull = torch.arange(N).expand(*b, N)
    try:
        Mref = mean[idx_arg]
    except IndexError:
        raise Reject("index invalid for the mean's shape")
    if Mref.dim() == 0 or Mref.numel() == 0:
        raise Reject("index leaves no dimension / selects nothing")
    Bsel, Psel = Bfull[idx_arg], Pfull[idx_arg]
    kinds = [IX.kind(e) for e in case["idx"]]
    cell = {"shape": shape, "kinds": kinds, "rep": case["rep"]}
    try:
        _before = [(e, e.clone()) for e in idx if torch.is_tensor(e)]
        sub = d[idx_arg]
        ctx.expect("index_tensors_not_mutated", all(torch.equal(e, c_) for e, c_ in _before), f"d[{case['idx']}] changed the caller's index tensor in place")
        got_mean, got_cov = sub.mean, sub.covariance_matrix
    except Exception as e:
        ctx.fail("index_raises", f"d[{case['idx']}] raised {type(e).__name__}: {str(e)[:160]}", "raise", exc=type(e).__name__, kinds=kinds)
        ctx.cell(cell)
        return
    if not ctx.close("index_mean", got_mean, Mref, "bit", cls="index:mean", kinds=kinds):
        ctx.cell(cell)
        return
    k = Mref.shape[-1]
    Bs, Ps = Bsel.reshape(-1, k), Psel.reshape(-1, k)
    Cb = C.expand(*b, N, N).reshape(max(nb, 1), N, N)
    full_idx = idx
    if Ellipsis in idx:
        e = idx.index(Ellipsis)
        full_idx = idx[:e] + (slice(None),) * (mean.dim() - len(idx) + 1) + idx[e + 1 :]
    if len(full_idx) == mean.dim() and isinstance(full_idx[-1], int):
        # the event dimension was indexed away: the remaining last dimension enumerates batch elements, which are
        # independent distributions -> diagonal covariance of the selected variances
        ref = torch.diag_embed(Cb[Bs, Ps, Ps]).reshape(*Mref.shape[:-1], k, k)
    else:
        if not bool((Bs == Bs[:, :1]).all()):
            raise Reject("index mixes batch elements inside one event")
        ref = torch.stack([Cb[Bs[r, 0]][Ps[r]][:, Ps[r]] for r in range(Bs.shape[0])], 0).reshape(*Mref.shape[:-1], k, k)
    if ctx.close("index_covariance", got_cov, ref, "direct", cls="index:cov", kinds=kinds) and case["seed"] % 3 == 0:
        # a second pass with the parent primed (cached factorisations) before it is indexed
        if case["rep"] == "dense":
            from linear_operator.operators import DenseLinearOperator

            d2 = MVN(mean, DenseLinearOperator(C.clone()))  # the same covariance held lazily (caches live on lazy parents)
        else:
            d2 = MVN(mean, make_cov(case["rep"], util.gen(case["seed"]), b, N)[0])
        how = ["scale_tril", "log_prob_chol", "rsample"][(case["seed"] // 3) % 3]
        try:
            _prime(d2, how)
            sub2 = d2[idx_arg]
        except Exception:
            sub2 = None
        if sub2 is not None:
            _observables(ctx, sub2, Mref, ref, "index", kinds=kinds, primed=how, rep=case["rep"])
    ctx.cell(cell, nontrivial=Psel.numel() < max(nb, 1) * N or N == 1)


def _moments(case, ctx, g):
    import torch

    from gpytorch.distributions import MultivariateNormal as MVN
    from vf import util

    N, db = case["N"], case["dbatch"]
    cov_obj, C = make_cov(case["rep"], g, db, N)
    mean = util.randn(g, *db, N)
    d = MVN(mean, cov_obj)
    C = C.expand(*db, N, N)
    K = 200000
    torch.manual_seed(case["seed"])
    s = d.rsample(torch.Size([K]))
    m_hat = s.mean(0)
    dev = s - mean
    C_hat = (dev.unsqueeze(-1) * dev.unsqueeze(-2)).mean(0)
    se_m = (torch.diagonal(C, dim1=-2, dim2=-1) / K).sqrt()
    var = torch.diagonal(C, dim1=-2, dim2=-1)
    se_c = ((var.unsqueeze(-1) * var.unsqueeze(-2) + C**2) / K).sqrt()
    zm = float(((m_hat - mean).abs() / se_m).max())
    zc = float(((C_hat - C).abs() / se_c).max())
    ctx.expect("sample_mean_within_6se", zm < 6, f"max z of sample mean {zm:.2f} (K={K})", z=zm)
    ctx.expect("sample_cov_within_6se", zc < 6, f"max z of sample covariance {zc:.2f} (K={K})", z=zc)
    ctx.notes["moments_K"] = K
    ctx.cell(_cellkey(case))


def _logprob_crash(case, fl):
    """log_prob RAISES (never a silent wrong number) when batch shapes have to be broadcast inside it: the mean's batch
    rank is below the covariance's, the value's batch rank is below the distribution's (Cholesky path: torch's own
    scale_tril broadcasting), or the value batch has a singleton against a non-singleton distribution batch (fast
    path: covar.repeat(1 // b) == 0 copies)."""
    return fl["monitor"] == "log_prob" and fl.get("mechanism") == "raise" and (
        fl.get("mean_less") or fl.get("value_singleton_vs_batch") or fl.get("value_rank_less"))


def _unsqueeze_bcast(case, fl):
    """unsqueeze()/expand() act on the covariance operator's own (smaller) batch shape: with a covariance whose batch
    shape is broadcast against the mean's (dense tensor of lower batch rank, or a lazily evaluated kernel tensor of a
    batched kernel) the new dimension lands in the wrong place (wrong batch shape or a raise)."""
    return fl["monitor"] in ("unsqueeze", "expand") and fl.get("rep") in ("bcast", "lazykernel") and (
        fl.get("mechanism") in ("raise", "shape"))


MATCHERS = {"C10-logprob-broadcast-crash-cells": _logprob_crash, "C10-unsqueeze-expand-broadcast-covariance": _unsqueeze_bcast}
