"""C14 - variational predictive q(f) and KL equal their closed forms for every strategy.

Monitors: post-conditions on the real _VariationalStrategy.__call__ / kl_divergence (finite, PSD covariance, path counts)
and on every variational distribution's forward(): the returned q(u) must be the mean/covariance the parameters encode.
The oracle is the dense closed form from captured Z, kernel, mean, jitter and q(u): push q(u) through p(f|u).
Documented regularisation (jitter on K_ZZ / K_XX) is modelled, not tolerated blindly (two admissible references).
"""
import itertools
import random

PROPERTY = "C14"
RULE = (
    'case kinds: (svgp) strategy in {VariationalStrategy, UnwhitenedVariationalStrategy, CiqVariationalStrategy} x distribution in {Cholesky, '
    'MeanField, Delta, Natural, TrilNatural} x (inducing batch, parameter batch, data batch) in {(),(2)}^3 x mode in {eval: full covariance, '
    'train: mean+variance}; (bdvs) BatchDecoupled; (orth) OrthogonallyDecoupled over whitened/unwhitened bases; mean-only evaluation before/after '
    'a parameter update; (grid) GridInterpolationVariationalStrategy; (lmc/indep) multitask mixing incl. task_indices; (identity) q(u)=p(u) => '
    'q(f)=prior, KL=0, whitened vs unwhitened same q(u) => same q(f); distinct = cell without seed; non-trivial iff q(u) != p(u) (KL > 1e-3) '
    'except for the identity cells'
    '; pass 5: coinciding sizes (M=1, N=1, M=N, all equal to the batch size); inputs at / near / single-precision copies of the inducing points; training-mode calls under no_grad before and after a parameter update'
    '; pass 6: negative raw scales / negative factor diagonals as valid states; CIQ with 26 well-spread inducing points'
    "; pass 8: the whole svgp cell under trace_mode / with debug off; calls with another broadcast batch shape (all strategies incl. BatchDecoupled) compared with the first call itself"
    "; pass 9: LMC with latent_dim=-2 (variational batch (Q, B) with B == Q, B != Q, B == 1), all tasks and task_indices, lazy and eager kernels"
    "; pass 9 (cont.): KL value and shape for latent_dim=-2; DeepGPLayer on deterministic and sampled inputs against the strategy's own full covariance"
)
REQUIRED = ["qu_encodes_parameters", "qf_mean", "qf_mean_skipvar", "qf_covar", "qf_train_variance", "kl_closed_form", "qu_equals_prior_gives_prior", "whitened_equals_unwhitened", "lmc_mixing", "indep_mixing", "grid_interp_qf", "bdvs_qf", "orth_decoupled_qf", "orth_decoupled_kl"]
ASSUMPTIONS = [
    "jitter rule: a result is accepted when it matches the closed form with the strategy's jitter_val on K_ZZ/K_XX or, within 2x the difference between the two, the one without",
    "CIQ is compared at num_contour_quadrature=40, tight tolerances, 1e-3 relative",
]
ANCHOR_FILES = ["gpytorch/variational/"]

DISTS = ["CholeskyVariationalDistribution", "MeanFieldVariationalDistribution", "DeltaVariationalDistribution", "NaturalVariationalDistribution", "TrilNaturalVariationalDistribution"]
D, M_, N_ = 2, 4, 6


def cases(tier, seed):
    rnd = random.Random(14000 + seed)
    reps = 1 if tier == "quick" else 40
    for _ in range(reps):
        for strat, dist, zb, pb, db in itertools.product(["VariationalStrategy", "UnwhitenedVariationalStrategy"], DISTS, [[], [2]], [[], [2]], [[], [2]]):
            if tier == "quick" and rnd.random() < 0.0:
                continue
            yield {"kind": "svgp", "strategy": strat, "dist": dist, "zbatch": zb, "pbatch": pb, "dbatch": db, "seed": rnd.randrange(10**6)}
        # coinciding sizes: one inducing point, one input, as many inducing points as inputs, all sizes equal to the batch size
        for strat, dist, mn, bb in itertools.product(["VariationalStrategy", "UnwhitenedVariationalStrategy"], DISTS, [[1, 6], [4, 1], [4, 4], [2, 2], [1, 1], [6, 4]], [[], [2]]):
            if tier == "quick" and rnd.random() < 0.65:
                continue
            yield {"kind": "svgp", "strategy": strat, "dist": dist, "zbatch": bb, "pbatch": bb, "dbatch": bb, "mn": mn, "seed": rnd.randrange(10**6)}
        for strat, dist, xrel, bb in itertools.product(["VariationalStrategy", "UnwhitenedVariationalStrategy"], DISTS[:2] + DISTS[3:4], ["at_Z", "near_Z", "float_roundtrip_Z"], [[], [2]]):
            yield {"kind": "svgp", "strategy": strat, "dist": dist, "zbatch": bb, "pbatch": bb, "dbatch": bb, "mn": [4, 4], "xrel": xrel, "seed": rnd.randrange(10**6)}
        for kind_, mn in itertools.product(["identity", "same_qu", "bdvs"], [[1, 6], [4, 4], [2, 2]]):
            if kind_ == "identity":
                yield {"kind": "identity", "strategy": rnd.choice(["VariationalStrategy", "UnwhitenedVariationalStrategy"]), "dist": rnd.choice(DISTS[:2] + DISTS[3:]), "mn": mn, "seed": rnd.randrange(10**6)}
            elif kind_ == "same_qu":
                yield {"kind": "same_qu", "dist": rnd.choice(DISTS[:2]), "mn": mn, "seed": rnd.randrange(10**6)}
            else:
                yield {"kind": "bdvs", "dist": rnd.choice(DISTS[:2]), "mean_var_batch_dim": -1, "mn": mn, "seed": rnd.randrange(10**6)}
        # CIQ with more inducing points than any of its iteration caps' defaults (max_lanczos_quadrature_iterations = 20)
        for dist in ("NaturalVariationalDistribution", "MeanFieldVariationalDistribution"):
            yield {"kind": "svgp", "strategy": "CiqVariationalStrategy", "dist": dist, "zbatch": [], "pbatch": [], "dbatch": [], "mn": [26, 5], "wellcond": True, "seed": rnd.randrange(10**6)}
        for dist in DISTS[:3]:
            yield {"kind": "svgp", "strategy": "CiqVariationalStrategy", "dist": "NaturalVariationalDistribution" if dist == DISTS[0] else dist, "zbatch": [], "pbatch": [], "dbatch": [], "seed": rnd.randrange(10**6)}
        for strat in ("VariationalStrategy", "UnwhitenedVariationalStrategy"):
            yield {"kind": "aliasing", "strategy": strat, "seed": rnd.randrange(10**6)}
        # the exact (Cholesky) treatment of K_ZZ asked for by fast_computations(log_prob=False), with more inducing points than max_cholesky_size
        for strat, dist in itertools.product(["VariationalStrategy", "UnwhitenedVariationalStrategy"], DISTS[:2]):
            yield {"kind": "svgp", "strategy": strat, "dist": dist, "zbatch": [], "pbatch": [], "dbatch": [], "mn": [7, 5], "env": "logprob_off_above_cholesky_size", "seed": rnd.randrange(10**6)}
        # the whole cell (several evaluation-mode calls in a row, refilled buffers, parameter updates) under trace_mode /
        # with the debug checks off: another code path for the same quantities, call after call
        for strat, dist, env in itertools.product(["VariationalStrategy", "UnwhitenedVariationalStrategy"], DISTS[:2], ["trace_mode", "debug_off"]):
            yield {"kind": "svgp", "strategy": strat, "dist": dist, "zbatch": [], "pbatch": rnd.choice([[], [2]]), "dbatch": [], "env_all": env, "seed": rnd.randrange(10**6)}
        for dist, bb, M in itertools.product(DISTS, [[], [2]], [1, 4]):
            yield {"kind": "init_from_prior", "dist": dist, "batch": bb, "M": M, "seed": rnd.randrange(10**6)}
        for dist, dim in itertools.product(DISTS[:2], [-1]):
            yield {"kind": "bdvs", "dist": dist, "mean_var_batch_dim": dim, "seed": rnd.randrange(10**6)}
        for dist in ("CholeskyVariationalDistribution", "MeanFieldVariationalDistribution"):
            yield {"kind": "grid", "dist": dist, "seed": rnd.randrange(10**6)}
            yield {"kind": "grid", "dist": dist, "dims": 2, "seed": rnd.randrange(10**6)}
        yield {"kind": "grid", "dist": "MeanFieldVariationalDistribution", "dims": 3, "seed": rnd.randrange(10**6)}
        for kind, ti in itertools.product(["lmc", "indep"], [False, True]):
            yield {"kind": kind, "task_indices": ti, "seed": rnd.randrange(10**6)}
        # a variational GP used as a layer of a deep GP (DeepGPLayer): deterministic inputs, sampled inputs (are_samples=True)
        for h, samples in itertools.product([1, 2], [False, True]):
            yield {"kind": "deep_layer", "h": h, "are_samples": samples, "seed": rnd.randrange(10**6)}
        # LMC with the latent dimension NOT last (documented `latent_dim` option), other batch dimension of equal / other size,
        # lazy and eager kernel evaluation
        for (Q_, B_), ti, lazy in itertools.product([(3, 3), (2, 3), (3, 1)], [False, True], [True, False]):
            yield {"kind": "lmc_latent_dim", "Q": Q_, "B": B_, "task_indices": ti, "lazy": lazy, "seed": rnd.randrange(10**6)}
        for strat, dist in itertools.product(["VariationalStrategy", "UnwhitenedVariationalStrategy"], DISTS[:2] + DISTS[3:]):
            yield {"kind": "identity", "strategy": strat, "dist": dist, "seed": rnd.randrange(10**6)}
        for dist in DISTS[:2]:
            yield {"kind": "same_qu", "dist": dist, "seed": rnd.randrange(10**6)}
        for base, dist, mg in itertools.product(["VariationalStrategy", "UnwhitenedVariationalStrategy"], DISTS[:2], [1, 5]):
            yield {"kind": "orth", "base": base, "dist": dist, "mg": mg, "seed": rnd.randrange(10**6)}


_ST = {}


def setup(ctx):
    import torch

    import gpytorch
    from vf import attach

    _ST["ctx"] = ctx
    V = gpytorch.variational
    attach.wrap(V._VariationalStrategy, "__call__", after=_post_call)
    attach.count(V._VariationalStrategy, "kl_divergence", ctx, "monitor:kl_calls")
    for name in DISTS:
        cls = getattr(V, name)
        attach.wrap(cls, "forward", after=(lambda n: (lambda a, k, out, tok: _post_dist(n, a[0], out)))(name))


def _post_call(a, k, out, tok):
    import torch

    ctx = _ST["ctx"]
    ctx.hit("monitor:strategy_calls")
    if ctx._case is None or not hasattr(out, "mean"):
        return
    with torch.no_grad():
        ctx.expect("qf_finite", bool(torch.isfinite(out.mean).all()), "non-finite q(f) mean")


def _expected_qu(name, vd):
    """mean/covariance that the distribution's parameters encode (documented parameterisation)"""
    import torch

    if name == "CholeskyVariationalDistribution":
        L = torch.tril(vd.chol_variational_covar.detach())
        return vd.variational_mean.detach(), L @ L.transpose(-1, -2)
    if name == "MeanFieldVariationalDistribution":
        s = vd._variational_stddev.detach()
        return vd.variational_mean.detach(), torch.diag_embed(s * s)
    if name == "DeltaVariationalDistribution":
        return vd.variational_mean.detach(), None
    if name == "NaturalVariationalDistribution":
        S = torch.linalg.inv(-2.0 * vd.natural_mat.detach())
        return (S @ vd.natural_vec.detach().unsqueeze(-1)).squeeze(-1), S
    if name == "TrilNaturalVariationalDistribution":
        T = vd.natural_tril_mat.detach()
        S = torch.linalg.inv(T.transpose(-1, -2) @ T)  # Theta_mat = -1/2 T^T T  =>  S = (-2 Theta_mat)^-1
        return (S @ vd.natural_vec.detach().unsqueeze(-1)).squeeze(-1), S


def _post_dist(name, vd, out):
    import torch

    ctx = _ST["ctx"]
    if ctx._case is None:
        return
    m, S = _expected_qu(name, vd)
    with torch.no_grad():
        tol = "direct"
        if name in ("NaturalVariationalDistribution", "TrilNaturalVariationalDistribution") and S is not None:
            # the natural parameters hold the PRECISION: both sides invert it and lose cond * eps digits (a random update can
            # leave it nearly singular: covariance entries of 1e9 were seen, thorough seed 0) - 1e-8 up to cond 1e6, then
            # proportional, capped at 1e-4
            cond = float(torch.linalg.cond(S).max())
            rt = min(max(1e-8, 1e-14 * cond), 1e-4)
            tol = (rt, rt)
        ctx.close("qu_encodes_parameters", out.mean, m, tol, cls="qu:" + name + ":mean")
        if S is not None:
            ctx.close("qu_encodes_parameters", out.covariance_matrix, S, tol, cls="qu:" + name + ":cov")


def _randomize_vd(vd, name, g):
    import torch

    from vf import util

    with torch.no_grad():
        for n_, p in vd.named_parameters():
            p.copy_(util.randn(g, *p.shape) * 0.5)
        if name == "CholeskyVariationalDistribution":
            p = vd.chol_variational_covar
            p.copy_(util.randn(g, *p.shape) * 0.3 + torch.eye(p.shape[-1]))  # upper triangle deliberately non-zero
        if name == "MeanFieldVariationalDistribution":
            # (the raw scale is an unconstrained parameter: negative entries are valid states, S_ii = s_i^2)
            sg = (util.rand(g, *vd._variational_stddev.shape) < 0.35).double() * -2 + 1
            vd._variational_stddev.copy_((util.rand(g, *vd._variational_stddev.shape) + 0.3) * sg)
        if name == "NaturalVariationalDistribution":
            Mn = vd.natural_mat.shape[-1]
            L = torch.tril(util.randn(g, *vd.natural_mat.shape)) * 0.3 + torch.eye(Mn)
            P = L @ L.transpose(-1, -2)
            vd.natural_mat.copy_(-0.5 * P)
        if name == "TrilNaturalVariationalDistribution":
            Mn = vd.natural_tril_mat.shape[-1]
            # (negative diagonal entries of the factor are valid states: the precision is T^T T)
            sg = (util.rand(g, *vd.natural_tril_mat.shape[:-1]) < 0.35).double() * -2 + 1
            vd.natural_tril_mat.copy_(torch.tril(util.randn(g, *vd.natural_tril_mat.shape)) * 0.3 + torch.diag_embed(1.5 * sg))


class _Model:
    pass


def _mk_model(strat, dist, zb, pb, g, skw=None, Z=None, mean_batch=None):
    import torch

    import gpytorch
    from vf import util

    V = gpytorch.variational
    Z = util.randn(g, *zb, M_, D) if Z is None else Z
    B = torch.Size(pb)

    class Mdl(gpytorch.models.ApproximateGP):
        def __init__(s):
            vb = torch.broadcast_shapes(B, torch.Size(zb))
            vd = getattr(V, dist)(M_, batch_shape=vb)
            vs = getattr(V, strat)(s, Z, vd, learn_inducing_locations=True, **(skw or {}))
            super().__init__(vs)
            s.mean_module = gpytorch.means.ConstantMean(batch_shape=B)
            s.covar_module = gpytorch.kernels.ScaleKernel(gpytorch.kernels.MaternKernel(nu=2.5, batch_shape=B), batch_shape=B)

        def forward(s, x):
            return gpytorch.distributions.MultivariateNormal(s.mean_module(x), s.covar_module(x))

    m = Mdl()
    util.randomize(m.mean_module, g, 0.7)
    util.randomize(m.covar_module, g, 0.4)
    vs = m.variational_strategy
    _randomize_vd(vs._variational_distribution, dist, g)
    for mod in m.modules():
        if hasattr(mod, "variational_params_initialized"):
            mod.variational_params_initialized.fill_(1)
    return m


def _pieces(m, Z, X):
    import torch

    from gpytorch import settings as S

    with torch.no_grad(), S.lazily_evaluate_kernels(False):
        k, mu = m.covar_module, m.mean_module
        return k(Z).to_dense(), k(X, Z).to_dense(), k(X).to_dense(), mu(Z), mu(X)


def _closed_form(Kzz, Kxz, Kxx, mz, mx, m_u, S_u, jit_zz, jit_xx):
    import torch

    Mn = Kzz.shape[-1]
    Kj = Kzz + jit_zz * torch.eye(Mn)
    A = torch.linalg.solve(Kj, Kxz.transpose(-1, -2)).transpose(-1, -2)
    mean = mx + (A @ (m_u - mz).unsqueeze(-1)).squeeze(-1)
    cov = Kxx + jit_xx * torch.eye(Kxx.shape[-1]) - A @ (Kj - S_u) @ A.transpose(-1, -2)
    return mean, cov


def _kl(m_u, S_u, mz, Kzz):
    import torch

    Mn = Kzz.shape[-1]
    Ki = torch.linalg.inv(Kzz)
    d = (mz - m_u).unsqueeze(-1)
    return 0.5 * ((Ki @ S_u).diagonal(dim1=-2, dim2=-1).sum(-1) + (d.transpose(-1, -2) @ Ki @ d).squeeze(-1).squeeze(-1) - Mn + torch.logdet(Kzz) - torch.logdet(S_u))


def _reduce_to(ref, shape):
    """drop leading batch dims that only come from broadcasting the data batch (a KL does not depend on the data)"""
    while ref.dim() > len(shape):
        ref = ref[0]
    return ref.expand(shape)


def run_case(case, ctx):
    from vf import util

    global M_, N_
    g = util.gen(case["seed"])
    M_, N_ = case.get("mn", [4, 6])
    try:
        return _dispatch(case, ctx, g)
    finally:
        M_, N_ = 4, 6


def _dispatch(case, ctx, g):
    return {"svgp": _svgp, "aliasing": _aliasing, "init_from_prior": _init_from_prior, "bdvs": _bdvs, "grid": _grid, "lmc": _multitask, "indep": _multitask, "lmc_latent_dim": _lmc_latent_dim, "deep_layer": _deep_layer, "identity": _identity, "same_qu": _same_qu, "orth": _orth}[case["kind"]](case, ctx, g)


def _qu_unwhitened(case_strat, dist, vs, Kzz, mz, jit):
    """q(u) in the unwhitened frame for both conventions: (with jitter in the whitening factor, without)"""
    import torch

    m_par, S_par = _expected_qu(dist, vs._variational_distribution)
    Mn = Kzz.shape[-1]
    if S_par is None:
        S_par = torch.zeros(*m_par.shape, Mn)
    if case_strat == "UnwhitenedVariationalStrategy":
        return [(m_par, S_par), (m_par, S_par)]
    outs = []
    for j in (jit, 0.0):
        if case_strat == "CiqVariationalStrategy":
            ev, U = torch.linalg.eigh(Kzz + j * torch.eye(Mn))
            L = U @ torch.diag_embed(ev.clamp_min(0).sqrt()) @ U.transpose(-1, -2)  # symmetric square root K^{1/2}
        else:
            L = torch.linalg.cholesky(Kzz + j * torch.eye(Mn))
        outs.append((mz + (L @ m_par.unsqueeze(-1)).squeeze(-1), L @ S_par @ L.transpose(-1, -2)))
    return outs


def _svgp(case, ctx, g):
    from gpytorch import settings as S

    if case.get("env_all"):
        with {"trace_mode": S.trace_mode, "debug_off": lambda: S.debug(False)}[case["env_all"]]():
            out1 = _svgp_cell(case, ctx, g)
            return out1
    return _svgp_cell(case, ctx, g)


def _svgp_cell(case, ctx, g):
    import torch

    import gpytorch
    from gpytorch import settings as S
    from vf import util

    strat, dist = case["strategy"], case["dist"]
    ciq = strat == "CiqVariationalStrategy"
    m = _mk_model(strat, dist, case["zbatch"], case["pbatch"], g)
    vs = m.variational_strategy
    if case.get("wellcond"):
        # many inducing points, but a well-conditioned K_ZZ (points spread over several lengthscales): the contour-integral
        # quadrature is accurate there, so deviations are the code's, not the approximation's
        with torch.no_grad():
            vs.inducing_points.copy_(2.5 * util.randn(g, *vs.inducing_points.shape))
            m.covar_module.base_kernel.lengthscale = 0.4
    X = util.randn(g, *case["dbatch"], N_, D)
    Z = vs.inducing_points.detach()
    if case.get("xrel"):
        # inputs that are exactly / almost / to single precision the inducing points (same shape): still their own points
        X = Z.clone()
        if case["xrel"] == "near_Z":
            X = X * (1 + 3e-6 * util.randn(g, *X.shape)) + 1e-7 * util.randn(g, *X.shape)
        elif case["xrel"] == "float_roundtrip_Z":
            X = X.float().double()
    jit = float(vs.jitter_val)
    cls = f"{strat[:6]}:{dist[:6]}" + (":" + case["xrel"] if case.get("xrel") else "")
    tol = (1e-3, 1e-3) if ciq else (1e-7, 1e-7)
    full = torch.broadcast_shapes(torch.Size(case["zbatch"]), torch.Size(case["pbatch"]), torch.Size(case["dbatch"]))
    Ze, Xe = Z.expand(*full, M_, D), X.expand(*full, N_, D)
    Kzz, Kxz, Kxx, mz, mx = _pieces(m, Ze, Xe)
    (mu_j, Su_j), (mu_0, Su_0) = _qu_unwhitened(strat, dist, vs, Kzz, mz, jit)
    ref_mean_j, ref_cov_j = _closed_form(Kzz, Kxz, Kxx, mz, mx, mu_j, Su_j, jit, jit if strat != "UnwhitenedVariationalStrategy" else 0.0)
    ref_mean_0, ref_cov_0 = _closed_form(Kzz, Kxz, Kxx, mz, mx, mu_0, Su_0, 0.0, 0.0)
    ctxs = [S.num_contour_quadrature(40), S.minres_tolerance(1e-10), S.cg_tolerance(1e-10), S.max_cg_iterations(2000)] if ciq else []
    if case.get("env") == "logprob_off_above_cholesky_size":
        ctxs = [S.fast_computations(log_prob=False), S.max_cholesky_size(3)]
    import contextlib

    with contextlib.ExitStack() as st, torch.no_grad():
        for c in ctxs:
            st.enter_context(c)
        m.eval()
        try:
            out = m(X)
            mean, cov = out.mean, out.covariance_matrix
            kl_eval = vs.kl_divergence()
            m.train()
            out_t = m(X)
            mean_t, var_t = out_t.mean, out_t.variance
            kl_train = vs.kl_divergence()
        except Exception as e:
            ctx.fail("qf_mean", f"{strat}/{dist} raised {type(e).__name__}: {str(e)[:160]}", "raise", exc=type(e).__name__, strategy=strat, dist=dist)
            ctx.cell({k: v for k, v in case.items() if k != "seed"})
            return
    ctx.close("qf_mean", mean, ref_mean_j.expand(mean.shape), tol, cls=cls + ":mean", alt=ref_mean_0.expand(mean.shape), strategy=strat, dist=dist)
    dg_ok = bool(torch.allclose(torch.diagonal(cov, dim1=-2, dim2=-1), torch.diagonal(ref_cov_j.expand(cov.shape), dim1=-2, dim2=-1), rtol=2e-3, atol=2e-3))
    off = cov - torch.diag_embed(torch.diagonal(cov, dim1=-2, dim2=-1))
    ctx.close("qf_covar", cov, ref_cov_j.expand(cov.shape), tol, cls=cls + ":cov", alt=ref_cov_0.expand(cov.shape), strategy=strat, dist=dist, diagonal_ok=dg_ok, offdiag_zero=bool((off == 0).all()))
    ctx.close("qf_train_mean", mean_t, ref_mean_j.expand(mean_t.shape), tol, cls=cls + ":train_mean", alt=ref_mean_0.expand(mean_t.shape), strategy=strat, dist=dist)
    dv_j, dv_0 = torch.diagonal(ref_cov_j, dim1=-2, dim2=-1), torch.diagonal(ref_cov_0, dim1=-2, dim2=-1)
    ctx.close("qf_train_variance", var_t, dv_j.expand(var_t.shape), tol, cls=cls + ":train_var", alt=dv_0.expand(var_t.shape), strategy=strat, dist=dist)
    with torch.no_grad():
        lam = torch.linalg.eigvalsh(0.5 * (cov + cov.transpose(-1, -2)))
        ctx.expect("qf_covar_psd", bool((lam.min(-1).values >= -1e-8 * lam.abs().max(-1).values.clamp_min(1e-12)).all()), f"q(f) covariance not PSD: lambda_min {float(lam.min()):.3e}")
    # KL
    nontriv = True
    if dist != "DeltaVariationalDistribution":
        Mn = M_
        if strat == "UnwhitenedVariationalStrategy":
            kl_ref_j = _kl(mu_j, Su_j, mz, Kzz + jit * torch.eye(Mn))
            kl_ref_0 = _kl(mu_0, Su_0, mz, Kzz)
        else:
            m_par, S_par = _expected_qu(dist, vs._variational_distribution)
            kl_ref_j = kl_ref_0 = _kl(m_par, S_par, torch.zeros_like(m_par), torch.eye(Mn).expand(*S_par.shape[:-2], Mn, Mn))
        kz = {"kl_is_zero": bool((kl_train == 0).all())}
        ctx.close("kl_closed_form", kl_train, _reduce_to(kl_ref_j, kl_train.shape), tol, **kz, cls=cls + ":kl_train", alt=_reduce_to(kl_ref_0, kl_train.shape), strategy=strat, dist=dist, mode="train")
        ctx.close("kl_closed_form_eval", kl_eval, _reduce_to(kl_ref_j, kl_eval.shape), tol, kl_is_zero=bool((kl_eval == 0).all()), cls=cls + ":kl_eval", alt=_reduce_to(kl_ref_0, kl_eval.shape), strategy=strat, dist=dist, mode="eval")
        nontriv = float(kl_ref_0.abs().max()) > 1e-3
    # the same input buffer refilled in place between two evaluation-mode calls
    if not ciq:
        with torch.no_grad():
            m.eval()
            m(X)
            Xn = util.randn(g, *X.shape)
            X.copy_(Xn)
            Xe2 = X.expand(*full, N_, D)
            Kzz_b, Kxz_b, Kxx_b, mz_b, mx_b = _pieces(m, Ze, Xe2)
            rb_j, cb_j = _closed_form(Kzz_b, Kxz_b, Kxx_b, mz_b, mx_b, mu_j, Su_j, jit, jit if strat != "UnwhitenedVariationalStrategy" else 0.0)
            rb_0, cb_0 = _closed_form(Kzz_b, Kxz_b, Kxx_b, mz_b, mx_b, mu_0, Su_0, 0.0, 0.0)
            ob = m(X)
        ctx.close("qf_mean", ob.mean, rb_j.expand(ob.mean.shape), tol, cls=cls + ":mean:refilled_buffer", alt=rb_0.expand(ob.mean.shape), strategy=strat, dist=dist)
        ctx.close("qf_covar", ob.covariance_matrix, cb_j.expand(ob.covariance_matrix.shape), tol, cls=cls + ":cov:refilled_buffer", alt=cb_0.expand(ob.covariance_matrix.shape), strategy=strat, dist=dist)
        Xe = Xe2
        ref_mean_j, ref_mean_0 = rb_j, rb_0  # X now holds the refilled values
        # the same model called with inputs of ANOTHER broadcast batch shape (one more leading dimension), then as before: each
        # element of the batched call is the un-batched answer
        if not case.get("xrel"):
            with torch.no_grad():
                try:
                    o2 = m(X.unsqueeze(0).expand(2, *X.shape))
                    o1 = m(X)
                except Exception as e:
                    ctx.info["rebatched_call_refused:" + type(e).__name__] += 1
                    o2 = None
            if o2 is not None:
                ctx.close("qf_mean", o2.mean, rb_j.expand(o2.mean.shape), tol, cls=cls + ":mean:other_batch_shape", alt=rb_0.expand(o2.mean.shape), strategy=strat, dist=dist)
                ctx.close("qf_covar", o2.covariance_matrix, cb_j.expand(o2.covariance_matrix.shape), tol, cls=cls + ":cov:other_batch_shape", alt=cb_0.expand(o2.covariance_matrix.shape), strategy=strat, dist=dist)
                ctx.close("qf_covar", o1.covariance_matrix, cb_j.expand(o1.covariance_matrix.shape), tol, cls=cls + ":cov:back_to_first_batch_shape", alt=cb_0.expand(o1.covariance_matrix.shape), strategy=strat, dist=dist)
                if not ciq:
                    ctx.close("qf_covar", o2.covariance_matrix, ob.covariance_matrix.expand(o2.covariance_matrix.shape), (1e-11, 1e-10), cls=cls + ":cov:other_batch_shape_vs_first_call", strategy=strat, dist=dist)
                    ctx.close("qf_mean", o2.mean, ob.mean.expand(o2.mean.shape), (1e-11, 1e-10), cls=cls + ":mean:other_batch_shape_vs_first_call", strategy=strat, dist=dist)
                    ctx.close("qf_covar", o1.covariance_matrix, ob.covariance_matrix, (1e-11, 1e-10), cls=cls + ":cov:back_vs_first_call", strategy=strat, dist=dist)
    # mean-only evaluation (skip_posterior_variances) before and after the parameters have moved: still the closed form
    # of the CURRENT parameters
    if not ciq:
        with torch.no_grad(), S.skip_posterior_variances(True):
            m.eval()
            ctx.close("qf_mean_skipvar", m(X).mean, ref_mean_j.expand(mean.shape), tol, cls=cls + ":mean_skipvar", alt=ref_mean_0.expand(mean.shape), strategy=strat, dist=dist)
            m.train()
            g2 = util.gen(case["seed"] + 991)
            util.randomize(m.mean_module, g2, 0.7)
            util.randomize(m.covar_module, g2, 0.4)
            _randomize_vd(vs._variational_distribution, dist, g2)
            vs.inducing_points.data = vs.inducing_points.data + 0.1 * util.randn(g2, *vs.inducing_points.shape)
            m.eval()
            Z2 = vs.inducing_points.detach()
            Kzz2, Kxz2, Kxx2, mz2, mx2 = _pieces(m, Z2.expand(*full, M_, D), Xe)
            (mu_j2, Su_j2), (mu_02, Su_02) = _qu_unwhitened(strat, dist, vs, Kzz2, mz2, jit)
            r_j, _ = _closed_form(Kzz2, Kxz2, Kxx2, mz2, mx2, mu_j2, Su_j2, jit, jit if strat != "UnwhitenedVariationalStrategy" else 0.0)
            r_0, _ = _closed_form(Kzz2, Kxz2, Kxx2, mz2, mx2, mu_02, Su_02, 0.0, 0.0)
            got2 = m(X).mean
            ctx.close("qf_mean_skipvar", got2, r_j.expand(got2.shape), tol, cls=cls + ":mean_skipvar_after_update", alt=r_0.expand(got2.shape), strategy=strat, dist=dist)
    # training mode with autograd switched off (evaluating the objective on held-out data between optimiser steps): means
    # and variances of the CURRENT parameters, before and after they move
    if not ciq and not case.get("xrel"):
        with torch.no_grad():
            m.train()
            m(X)
            g3 = util.gen(case["seed"] + 1777)
            util.randomize(m.mean_module, g3, 0.7)
            util.randomize(m.covar_module, g3, 0.4)
            _randomize_vd(vs._variational_distribution, dist, g3)
            vs.inducing_points.data = vs.inducing_points.data + 0.1 * util.randn(g3, *vs.inducing_points.shape)
            Z3 = vs.inducing_points.detach()
            Kzz3, Kxz3, Kxx3, mz3, mx3 = _pieces(m, Z3.expand(*full, M_, D), Xe)
            (mu_j3, Su_j3), (mu_03, Su_03) = _qu_unwhitened(strat, dist, vs, Kzz3, mz3, jit)
            r_j3, c_j3 = _closed_form(Kzz3, Kxz3, Kxx3, mz3, mx3, mu_j3, Su_j3, jit, jit if strat != "UnwhitenedVariationalStrategy" else 0.0)
            r_03, c_03 = _closed_form(Kzz3, Kxz3, Kxx3, mz3, mx3, mu_03, Su_03, 0.0, 0.0)
            o3 = m(X)
            kl3 = vs.kl_divergence()
        if Su_j3 is not None and float(torch.linalg.cond(Su_j3).max()) > 1e8:
            # the random update left q(u) numerically singular (natural parameters hold the precision): nothing to compare at 1e-7
            ctx.info["degenerate_random_qu_after_update"] += 1
            ctx.cell({k: v for k, v in case.items() if k != "seed"}, nontrivial=nontriv)
            return
        ctx.close("qf_train_mean", o3.mean, r_j3.expand(o3.mean.shape), tol, cls=cls + ":train_mean:no_grad_after_update", alt=r_03.expand(o3.mean.shape), strategy=strat, dist=dist)
        dj3, d03 = torch.diagonal(c_j3, dim1=-2, dim2=-1), torch.diagonal(c_03, dim1=-2, dim2=-1)
        ctx.close("qf_train_variance", o3.variance, dj3.expand(o3.variance.shape), tol, cls=cls + ":train_var:no_grad_after_update", alt=d03.expand(o3.variance.shape), strategy=strat, dist=dist)
        m.eval()
    ctx.cell({k: v for k, v in case.items() if k != "seed"}, nontrivial=nontriv)


def _aliasing(case, ctx, g):
    """the inducing points a strategy holds are its own copy of the tensor it was given: two strategies built from one tensor
    do not share them, moving one model's inducing points (in place, as an optimiser does) moves neither the other model's
    nor the caller's tensor, and the other model's q(f) stays the closed form of ITS parameters"""
    import torch

    import gpytorch
    from vf import util

    strat, dist = case["strategy"], "CholeskyVariationalDistribution"
    Zc = util.randn(g, M_, D)
    Z0 = Zc.clone()
    a = _mk_model(strat, dist, [], [], g, Z=Zc)
    b = _mk_model(strat, dist, [], [], g, Z=Zc)
    X = util.randn(g, N_, D)
    with torch.no_grad():
        b.eval()
        before = b(X)
        bm, bc = before.mean.clone(), before.covariance_matrix.clone()
        a.variational_strategy.inducing_points.add_(0.3)  # what an optimiser step on model a does
        after = b(X)
    ctx.expect("inducing_points_are_a_copy", bool(torch.equal(Zc, Z0)), "the caller's tensor changed when a model's inducing points were moved", strategy=strat)
    ctx.expect("inducing_points_are_a_copy", bool(torch.equal(b.variational_strategy.inducing_points.detach(), Z0)), "model b's inducing points moved with model a's (both were built from one tensor)", strategy=strat)
    ctx.close("inducing_points_are_a_copy", torch.cat([after.mean, after.covariance_matrix.reshape(-1)]), torch.cat([bm, bc.reshape(-1)]), (1e-12, 1e-12), cls="aliasing:" + strat[:6])
    ctx.cell({k: v for k, v in case.items() if k != "seed"})


def _init_from_prior(case, ctx, g):
    """initialize_variational_distribution(p): afterwards the distribution IS p in everything its family can represent -
    mean (plus mean_init_std noise, here 0 and a positive value with the generator replayed), full covariance (Cholesky,
    natural, tril-natural), the variances (mean-field), nothing (delta)"""
    import torch

    import gpytorch
    from gpytorch.distributions import MultivariateNormal as MVN
    from vf import util

    V = gpytorch.variational
    name, b, M = case["dist"], case["batch"], case["M"]
    A = util.randn(g, *b, M, M) * 0.5
    C = A @ A.transpose(-1, -2) + 0.3 * torch.eye(M)
    mean = util.randn(g, *b, M)
    for std in (0.0, 0.2):
        vd = getattr(V, name)(M, batch_shape=torch.Size(b), mean_init_std=std)
        torch.manual_seed(case["seed"])
        vd.initialize_variational_distribution(MVN(mean, C))
        torch.manual_seed(case["seed"])
        noise = torch.randn_like(mean) * std
        with torch.no_grad():
            q = vd()
        cls = f"init_from_prior:{name[:8]}:std{std}"
        if name in ("NaturalVariationalDistribution", "TrilNaturalVariationalDistribution") and std > 0:
            # (the natural parameterisations add the noise to the mean in expectation coordinates: mean itself is what is specified)
            ctx.expect("qu_initialised_from_prior", bool(torch.isfinite(q.mean).all()), "non-finite mean after initialisation")
        else:
            ctx.close("qu_initialised_from_prior", q.mean, mean + noise, (1e-9, 1e-9), cls=cls + ":mean")
        if name == "DeltaVariationalDistribution":
            continue
        cov = q.covariance_matrix
        if name == "MeanFieldVariationalDistribution":
            ctx.close("qu_initialised_from_prior", torch.diagonal(cov, dim1=-2, dim2=-1), torch.diagonal(C, dim1=-2, dim2=-1), (1e-9, 1e-9), cls=cls + ":variances")
        else:
            ctx.close("qu_initialised_from_prior", cov, C, (1e-8, 1e-8), cls=cls + ":cov")
    ctx.cell({k: v for k, v in case.items() if k != "seed"})


def _bdvs(case, ctx, g):
    import torch

    import gpytorch
    from vf import util

    dim = case["mean_var_batch_dim"]
    V = gpytorch.variational
    B = torch.Size([2])
    Z = util.randn(g, M_, D)

    class Mdl(gpytorch.models.ApproximateGP):
        def __init__(s):
            vd = getattr(V, case["dist"])(M_)
            vs = V.BatchDecoupledVariationalStrategy(s, Z, vd, learn_inducing_locations=True, mean_var_batch_dim=dim)
            super().__init__(vs)
            s.mean_module = gpytorch.means.ConstantMean(batch_shape=B)
            s.covar_module = gpytorch.kernels.ScaleKernel(gpytorch.kernels.RBFKernel(batch_shape=B), batch_shape=B)

        def forward(s, x):
            return gpytorch.distributions.MultivariateNormal(s.mean_module(x), s.covar_module(x))

    m = Mdl()
    util.randomize(m.mean_module, g, 0.9)
    util.randomize(m.covar_module, g, 0.4)
    vs = m.variational_strategy
    _randomize_vd(vs._variational_distribution, case["dist"], g)
    vs.variational_params_initialized.fill_(1)
    X = util.randn(g, N_, D)
    Zs = vs.inducing_points.detach()  # 2 x M x D : [0] for the mean, [1] for the variance
    jit = float(vs.jitter_val)
    m_par, S_par = _expected_qu(case["dist"], vs._variational_distribution)
    if S_par is None:
        S_par = torch.zeros(M_, M_)
    Kzz, Kxz, Kxx, mz, mx = _pieces(m, Zs, X.expand(2, N_, D))
    refs = []
    for j in (jit, 0.0):
        L0 = torch.linalg.cholesky(Kzz[0] + j * torch.eye(M_))
        L1 = torch.linalg.cholesky(Kzz[1] + j * torch.eye(M_))
        A0 = torch.linalg.solve_triangular(L0, Kxz[0].T, upper=False).T  # K_xz L^-T
        A1 = torch.linalg.solve_triangular(L1, Kxz[1].T, upper=False).T
        mean = mx[0] + A0 @ m_par
        cov = Kxx[1] + j * torch.eye(N_) + A1 @ (S_par - torch.eye(M_)) @ A1.T
        refs.append((mean, cov))
    with torch.no_grad():
        m.eval()
        out = m(X)
        m.train()
        out_t = m(X)
        kl = vs.kl_divergence()
    ctx.close("bdvs_qf", out.mean, refs[0][0], (1e-7, 1e-7), cls="bdvs:mean", alt=refs[1][0])
    ctx.close("bdvs_qf", out.covariance_matrix, refs[0][1], (1e-7, 1e-7), cls="bdvs:cov", alt=refs[1][1])
    ctx.close("bdvs_qf", out_t.variance, torch.diagonal(refs[0][1]), (1e-7, 1e-7), cls="bdvs:train_var", alt=torch.diagonal(refs[1][1]))
    # evaluation-mode calls with inputs of other broadcast batch shapes, one after the other (the cached K_ZZ factor is
    # re-derived when the shape does not fit): every element is the un-batched answer, and so is a later un-batched call
    with torch.no_grad():
        m.eval()
        m(X)
        try:
            o3 = m(X.unsqueeze(0).expand(3, N_, D))
            o1 = m(X)
        except Exception as e:
            ctx.info["bdvs_rebatched_call_refused:" + type(e).__name__] += 1
            o3 = None
    if o3 is not None:
        ctx.close("bdvs_qf", o3.mean, refs[0][0].expand(o3.mean.shape), (1e-7, 1e-7), cls="bdvs:mean:other_batch_shape", alt=refs[1][0].expand(o3.mean.shape))
        ctx.close("bdvs_qf", o3.covariance_matrix, refs[0][1].expand(o3.covariance_matrix.shape), (1e-7, 1e-7), cls="bdvs:cov:other_batch_shape", alt=refs[1][1].expand(o3.covariance_matrix.shape))
        ctx.close("bdvs_qf", o1.covariance_matrix, refs[0][1], (1e-7, 1e-7), cls="bdvs:cov:back_to_first_shape", alt=refs[1][1])
        ctx.close("bdvs_qf", o1.mean, refs[0][0], (1e-7, 1e-7), cls="bdvs:mean:back_to_first_shape", alt=refs[1][0])
        # (independent of where the jitter enters: the very same model on the very same points)
        ctx.close("bdvs_qf", o3.covariance_matrix, out.covariance_matrix.expand(o3.covariance_matrix.shape), (1e-11, 1e-10), cls="bdvs:cov:other_batch_shape_vs_first_call")
        ctx.close("bdvs_qf", o3.mean, out.mean.expand(o3.mean.shape), (1e-11, 1e-10), cls="bdvs:mean:other_batch_shape_vs_first_call")
        ctx.close("bdvs_qf", o1.covariance_matrix, out.covariance_matrix, (1e-11, 1e-10), cls="bdvs:cov:back_to_first_shape_vs_first_call")
    if case["dist"] != "DeltaVariationalDistribution":
        import math

        klr = _kl(m_par, S_par, torch.zeros(M_), torch.eye(M_))
        off_by_const = bool(abs(float(kl - klr) - 0.5 * M_ * math.log(2 * math.pi)) < 1e-7)
        ctx.close("kl_closed_form", kl, klr, (1e-7, 1e-7), cls="bdvs:kl", strategy="BatchDecoupled", dist=case["dist"], mode="train", offset_is_half_M_log_2pi=off_by_const)
    ctx.cell({k: v for k, v in case.items() if k != "seed"})


def _orth(case, ctx, g):
    """OrthogonallyDecoupledVariationalStrategy: a delta distribution a over extra inducing points Z_g on top of a base
    strategy q_b: mean = m_b(x) + Cov_b(x, Z_g) a, covariance = Cov_b(x, x), KL = KL_b + a' Cov_b(Z_g, Z_g) a / 2, with
    m_b / Cov_b the base strategy's q(f) (closed form of the statement) evaluated jointly at [x; Z_g]"""
    import torch

    import gpytorch
    from vf import util

    V = gpytorch.variational
    Zb, Zg = util.randn(g, M_, D), util.randn(g, case["mg"], D)

    class Mdl(gpytorch.models.ApproximateGP):
        def __init__(s):
            base = getattr(V, case["base"])(s, Zb, getattr(V, case["dist"])(M_), learn_inducing_locations=True)
            vs = V.OrthogonallyDecoupledVariationalStrategy(base, Zg, V.DeltaVariationalDistribution(case["mg"]))
            super().__init__(vs)
            s.mean_module = gpytorch.means.ConstantMean()
            s.covar_module = gpytorch.kernels.ScaleKernel(gpytorch.kernels.MaternKernel(nu=2.5))

        def forward(s, x):
            return gpytorch.distributions.MultivariateNormal(s.mean_module(x), s.covar_module(x))

    m = Mdl()
    util.randomize(m.mean_module, g, 0.7)
    util.randomize(m.covar_module, g, 0.4)
    vs = m.variational_strategy
    base = vs.base_variational_strategy
    _randomize_vd(base._variational_distribution, case["dist"], g)
    with torch.no_grad():
        vs._variational_distribution.variational_mean.copy_(util.randn(g, case["mg"]) * 0.5)
    for mod in m.modules():
        if hasattr(mod, "variational_params_initialized"):
            mod.variational_params_initialized.fill_(1)
    X = util.randn(g, N_, D)
    P = torch.cat([X, vs.inducing_points.detach()], -2)
    a = vs._variational_distribution.variational_mean.detach()
    jit = float(base.jitter_val)
    Kzz, Kpz, Kpp, mz, mp_ = _pieces(m, base.inducing_points.detach(), P)
    (mu_j, Su_j), (mu_0, Su_0) = _qu_unwhitened(case["base"], case["dist"], base, Kzz, mz, jit)
    refs = []
    for (mu, Su, jz, jx) in ((mu_j, Su_j, jit, jit if case["base"] != "UnwhitenedVariationalStrategy" else 0.0), (mu_0, Su_0, 0.0, 0.0)):
        mP, CP = _closed_form(Kzz, Kpz, Kpp, mz, mp_, mu, Su, jz, jx)
        mean = mP[:N_] + CP[:N_, N_:] @ a
        refs.append((mean, CP[:N_, :N_], 0.5 * a @ CP[N_:, N_:] @ a))
    with torch.no_grad():
        m.eval()
        out = m(X)
        kl_eval = vs.kl_divergence()
        kl_base_eval = base.kl_divergence()
        m.train()
        out_t = m(X)
        kl_train = vs.kl_divergence()
        kl_base = base.kl_divergence()
    tol = (1e-7, 1e-7)
    ctx.close("orth_decoupled_qf", out.mean, refs[0][0], tol, cls="orth:mean", alt=refs[1][0], base=case["base"], part="eval_mean")
    ctx.close("orth_decoupled_qf", out.covariance_matrix, refs[0][1], tol, cls="orth:cov", alt=refs[1][1], base=case["base"], part="eval_cov")
    ctx.close("orth_decoupled_qf", out_t.mean, refs[0][0], tol, cls="orth:train_mean", alt=refs[1][0], base=case["base"], part="train_mean")
    ctx.close("orth_decoupled_qf", out_t.variance, torch.diagonal(refs[0][1]), tol, cls="orth:train_var", alt=torch.diagonal(refs[1][1]), base=case["base"], part="train_var")
    # the extra KL term (base KL is decided by the base strategy's own cells); eval mode adds jitter_val to Cov_b(Z_g, Z_g)
    jv = float(vs.jitter_val)
    ctx.close("orth_decoupled_kl", kl_train - kl_base, refs[0][2], (1e-6, 1e-6), cls="orth:kl_train", alt=refs[1][2], base=case["base"], part="kl_train")
    ctx.close("orth_decoupled_kl", kl_eval - kl_base_eval, refs[0][2] + 0.5 * jv * (a @ a), (1e-6, 1e-6), cls="orth:kl_eval", alt=refs[1][2], base=case["base"], part="kl_eval")
    ctx.cell({k: v for k, v in case.items() if k != "seed"})


def _grid_nd(case, ctx, g):
    """grid-interpolation strategy on a grid of 2 / 3 dimensions with different bounds per dimension and an ARD kernel: the
    variational parameter j belongs to the inducing point in row j of `inducing_points` - q(f) interpolates from THOSE
    locations (weights computed from positions, whatever the order), and the prior of the KL term is the kernel at them"""
    import torch

    import gpytorch
    from vf import util
    from vf.oracle import interp as I

    V = gpytorch.variational
    dims, gs = case["dims"], 6 if case["dims"] == 2 else 5
    bounds = [(-1.0, 1.0), (-2.0, 3.0), (0.0, 0.5)][:dims]
    Mn = gs**dims

    class Mdl(gpytorch.models.ApproximateGP):
        def __init__(s):
            vs = V.GridInterpolationVariationalStrategy(s, grid_size=gs, grid_bounds=bounds, variational_distribution=getattr(V, case["dist"])(Mn))
            super().__init__(vs)
            s.mean_module = gpytorch.means.ConstantMean()
            s.covar_module = gpytorch.kernels.ScaleKernel(gpytorch.kernels.RBFKernel(ard_num_dims=dims))

        def forward(s, x):
            return gpytorch.distributions.MultivariateNormal(s.mean_module(x), s.covar_module(x))

    m = Mdl()
    util.randomize(m.covar_module, g, 0.5)
    vs = m.variational_strategy
    _randomize_vd(vs._variational_distribution, case["dist"], g)
    vs.variational_params_initialized.fill_(1)
    Z = vs.inducing_points.detach()
    ctx.expect("grid_inducing_points_are_the_grid", Z.shape == (Mn, dims) and len({tuple(r) for r in Z.tolist()}) == Mn, f"inducing points {tuple(Z.shape)} are not the {Mn} distinct grid nodes")
    lo, hi = torch.tensor([b_[0] for b_ in bounds]), torch.tensor([b_[1] for b_ in bounds])
    X = lo + (hi - lo) * (0.25 + 0.5 * util.rand(g, 5, dims))
    W = torch.ones(5, Mn)
    for d_ in range(dims):
        nodes = torch.unique(Z[:, d_])
        W = W * I.keys((X[:, d_ : d_ + 1] - Z[:, d_].unsqueeze(0)) / (nodes[1] - nodes[0]))
    m_par, S_par = _expected_qu(case["dist"], vs._variational_distribution)
    with torch.no_grad():
        m.eval()
        out = m(X)
        kl = vs.kl_divergence()
        Kzz = m.covar_module(Z).to_dense() + 1e-3 * torch.eye(Mn)
        mz = m.mean_module(Z)
    ctx.close("grid_interp_qf", out.mean, W @ m_par, (1e-9, 1e-9), cls=f"grid{dims}d:mean")
    ctx.close("grid_interp_qf", out.covariance_matrix, W @ S_par @ W.T, (1e-9, 1e-9), cls=f"grid{dims}d:cov")
    ctx.close("kl_closed_form", kl, _kl(m_par, S_par, mz, Kzz), (1e-6, 1e-6), cls=f"grid{dims}d:kl", strategy="GridInterpolation", dist=case["dist"], mode="eval")
    ctx.cell({k: v for k, v in case.items() if k != "seed"})


def _grid(case, ctx, g):
    import torch

    import gpytorch
    from vf import util

    V = gpytorch.variational
    if case.get("dims", 1) > 1:
        return _grid_nd(case, ctx, g)
    gs = 10

    class Mdl(gpytorch.models.ApproximateGP):
        def __init__(s):
            vd = getattr(V, case["dist"])(gs)
            vs = V.GridInterpolationVariationalStrategy(s, grid_size=gs, grid_bounds=[(-1.0, 1.0)], variational_distribution=vd)
            super().__init__(vs)
            s.mean_module = gpytorch.means.ConstantMean()
            s.covar_module = gpytorch.kernels.ScaleKernel(gpytorch.kernels.RBFKernel())

        def forward(s, x):
            return gpytorch.distributions.MultivariateNormal(s.mean_module(x), s.covar_module(x))

    m = Mdl()
    vs = m.variational_strategy
    _randomize_vd(vs._variational_distribution, case["dist"], g)
    vs.variational_params_initialized.fill_(1)
    X = util.rand(g, 5, 1) * 1.4 - 0.7
    m_par, S_par = _expected_qu(case["dist"], vs._variational_distribution)
    from vf.oracle import interp as I

    grid = vs.inducing_points.detach().reshape(-1)
    W = I.cubic_weights_1d(grid, X.reshape(-1))
    with torch.no_grad():
        m.eval()
        out = m(X)
    ctx.close("grid_interp_qf", out.mean, W @ m_par, "direct", cls="grid:mean")
    ctx.close("grid_interp_qf", out.covariance_matrix, W @ S_par @ W.T, "direct", cls="grid:cov")
    # the same input BUFFER refilled in place between two evaluation-mode calls (a data loader reusing its tensor)
    X2 = util.rand(g, 5, 1) * 1.4 - 0.7
    X.copy_(X2)
    W2 = I.cubic_weights_1d(grid, X.reshape(-1))
    with torch.no_grad():
        out2 = m(X)
    ctx.close("grid_interp_qf", out2.mean, W2 @ m_par, "direct", cls="grid:mean:refilled_buffer")
    ctx.close("grid_interp_qf", out2.covariance_matrix, W2 @ S_par @ W2.T, "direct", cls="grid:cov:refilled_buffer")
    ctx.cell({k: v for k, v in case.items() if k != "seed"})


def _multitask(case, ctx, g):
    import torch

    import gpytorch
    from vf import util

    V = gpytorch.variational
    Q, T = 3, 4
    kind = case["kind"]
    Z = util.randn(g, Q, M_, D)

    class Mdl(gpytorch.models.ApproximateGP):
        def __init__(s):
            vd = V.CholeskyVariationalDistribution(M_, batch_shape=torch.Size([Q]))
            base = V.VariationalStrategy(s, Z, vd, learn_inducing_locations=True)
            vs = V.LMCVariationalStrategy(base, num_tasks=T, num_latents=Q, latent_dim=-1) if kind == "lmc" else V.IndependentMultitaskVariationalStrategy(base, num_tasks=Q, task_dim=-1)
            super().__init__(vs)
            s.mean_module = gpytorch.means.ConstantMean(batch_shape=torch.Size([Q]))
            s.covar_module = gpytorch.kernels.ScaleKernel(gpytorch.kernels.RBFKernel(batch_shape=torch.Size([Q])), batch_shape=torch.Size([Q]))

        def forward(s, x):
            return gpytorch.distributions.MultivariateNormal(s.mean_module(x), s.covar_module(x))

    m = Mdl()
    util.randomize(m, g, 0.4)
    base = m.variational_strategy.base_variational_strategy
    _randomize_vd(base._variational_distribution, "CholeskyVariationalDistribution", g)
    for mod in m.modules():
        if hasattr(mod, "variational_params_initialized"):
            mod.variational_params_initialized.fill_(1)
    X = util.randn(g, N_, D)
    m.eval()
    with torch.no_grad():
        lat = base(X)
        lm, lc = lat.mean, lat.covariance_matrix  # Q x N, Q x N x N
        mon = "lmc_mixing" if kind == "lmc" else "indep_mixing"
        jit = float(getattr(m.variational_strategy, "jitter_val", 0.0)) if kind == "lmc" else 0.0
        if kind == "lmc":
            A = m.variational_strategy.lmc_coefficients.detach()  # Q x T
            nt = T
        else:
            A = torch.eye(Q)
            nt = Q
        if case["task_indices"]:
            ti = torch.randint(0, nt, (N_,), generator=g)
            out = m(X, task_indices=ti)
            mean = (lm * A[:, ti]).sum(0)
            C = torch.einsum("qij,qi,qj->ij", lc, A[:, ti], A[:, ti])
            ctx.close(mon, out.mean, mean, (1e-7, 1e-7), cls=kind + ":ti:mean")
            ctx.close(mon, out.covariance_matrix, C + jit * torch.eye(N_), (1e-7, 1e-7), cls=kind + ":ti:cov", alt=C)
        else:
            out = m(X)
            mean = torch.einsum("qn,qt->nt", lm, A)
            C4 = torch.einsum("qij,qa,qb->iajb", lc, A, A).reshape(N_ * nt, N_ * nt)
            got = out.covariance_matrix
            if not out._interleaved:
                got = got.reshape(nt, N_, nt, N_).permute(1, 0, 3, 2).reshape(N_ * nt, N_ * nt)
            ctx.close(mon, out.mean, mean, (1e-7, 1e-7), cls=kind + ":mean")
            ctx.close(mon, got, C4 + jit * torch.eye(N_ * nt), (1e-7, 1e-7), cls=kind + ":cov", alt=C4)
        kl = m.variational_strategy.kl_divergence()
        ctx.close(mon, kl, base.kl_divergence().sum(), (1e-9, 1e-9), cls=kind + ":kl_is_sum_over_latents")
    ctx.cell({k: v for k, v in case.items() if k != "seed"})


def _deep_layer(case, ctx, g):
    """DeepGPLayer.__call__: the h hidden GPs' q(f) at the (repeated) inputs, returned as ONE non-interleaved multitask normal
    whose covariance is block diagonal over the outputs - each block the FULL covariance of that output's q(f); deterministic
    inputs are expanded over num_likelihood_samples, sampled inputs keep their sample dimension"""
    import torch

    import gpytorch
    from gpytorch import settings as S
    from gpytorch.models.deep_gps import DeepGPLayer
    from vf import util

    V = gpytorch.variational
    h = case["h"]
    bs = torch.Size([h])
    Z = util.randn(g, h, M_, D)

    class Layer(DeepGPLayer):
        def __init__(s):
            vd = V.CholeskyVariationalDistribution(M_, batch_shape=bs)
            super().__init__(V.VariationalStrategy(s, Z, vd, learn_inducing_locations=True), D, h)
            s.mean_module = gpytorch.means.ConstantMean(batch_shape=bs)
            s.covar_module = gpytorch.kernels.ScaleKernel(gpytorch.kernels.RBFKernel(batch_shape=bs), batch_shape=bs)

        def forward(s, x):
            return gpytorch.distributions.MultivariateNormal(s.mean_module(x), s.covar_module(x))

    m = Layer()
    util.randomize(m, g, 0.4)
    _randomize_vd(m.variational_strategy._variational_distribution, "CholeskyVariationalDistribution", g)
    m.variational_strategy.variational_params_initialized.fill_(1)
    m.eval()
    ns = 3
    X = util.randn(g, ns, N_, D) if case["are_samples"] else util.randn(g, N_, D)
    with torch.no_grad(), S.num_likelihood_samples(ns):
        out = m(X, are_samples=True) if case["are_samples"] else m(X)
        rep = X.unsqueeze(-3).expand(*X.shape[:-2], h, N_, D)
        base = m.variational_strategy(rep)  # (samples x) h x N
        bm, bc = base.mean, base.covariance_matrix
        if not case["are_samples"]:
            bm, bc = bm.expand(ns, h, N_), bc.expand(ns, h, N_, N_)
        ref_mean = bm.transpose(-1, -2)  # samples x N x h
        ref_cov = torch.stack([torch.block_diag(*bc[i]) for i in range(ns)])  # task-major (non-interleaved) layout
        ctx.expect("deep_layer", tuple(out.mean.shape) == (ns, N_, h), f"output mean shape {tuple(out.mean.shape)}, expected {(ns, N_, h)}")
        got = out.covariance_matrix
        if out._interleaved:
            got = got.reshape(ns, N_, h, N_, h).permute(0, 2, 1, 4, 3).reshape(ns, N_ * h, N_ * h)
        ctx.close("deep_layer", out.mean, ref_mean, (1e-10, 1e-10), cls="deep_layer:mean:" + ("samples" if case["are_samples"] else "deterministic"))
        ctx.close("deep_layer", got, ref_cov, (1e-10, 1e-10), cls="deep_layer:cov:" + ("samples" if case["are_samples"] else "deterministic"))
        off = float((ref_cov - torch.diag_embed(torch.diagonal(ref_cov, dim1=-2, dim2=-1))).abs().max())
    ctx.cell({k: v for k, v in case.items() if k != "seed"}, nontrivial=off > 1e-3)


def _lmc_latent_dim(case, ctx, g):
    """LMCVariationalStrategy(latent_dim=-2): variational batch shape (Q, B); the output for batch element b mixes the latent
    q(f) of (q, b) over q with the coefficients A[q, b, :]"""
    import torch

    import gpytorch
    from gpytorch import settings as S
    from vf import util

    V = gpytorch.variational
    Q, B, T = case["Q"], case["B"], 3
    bs = torch.Size([Q, B])
    Z = util.randn(g, Q, B, M_, D)

    class Mdl(gpytorch.models.ApproximateGP):
        def __init__(s):
            vd = V.CholeskyVariationalDistribution(M_, batch_shape=bs)
            base = V.VariationalStrategy(s, Z, vd, learn_inducing_locations=True)
            super().__init__(V.LMCVariationalStrategy(base, num_tasks=T, num_latents=Q, latent_dim=-2))
            s.mean_module = gpytorch.means.ConstantMean(batch_shape=bs)
            s.covar_module = gpytorch.kernels.ScaleKernel(gpytorch.kernels.RBFKernel(batch_shape=bs), batch_shape=bs)

        def forward(s, x):
            return gpytorch.distributions.MultivariateNormal(s.mean_module(x), s.covar_module(x))

    m = Mdl()
    util.randomize(m, g, 0.4)
    base = m.variational_strategy.base_variational_strategy
    _randomize_vd(base._variational_distribution, "CholeskyVariationalDistribution", g)
    for mod in m.modules():
        if hasattr(mod, "variational_params_initialized"):
            mod.variational_params_initialized.fill_(1)
    X = util.randn(g, N_, D)
    m.eval()
    jit = float(m.variational_strategy.jitter_val)
    with torch.no_grad(), S.lazily_evaluate_kernels(case["lazy"]):
        with S.lazily_evaluate_kernels(False):
            lat = base(X)
            lm, lc = lat.mean.clone(), lat.covariance_matrix.clone()  # Q x B x N (x N)
        A = m.variational_strategy.lmc_coefficients.detach()  # Q x B x T
        cls = f"lmc_latent_dim:{'lazy' if case['lazy'] else 'eager'}:Q{Q}B{B}"
        try:
            if case["task_indices"]:
                ti = torch.randint(0, T, (N_,), generator=g)
                out = m(X, task_indices=ti)
                mean = torch.einsum("qbn,qbn->bn", lm, A[..., ti])
                C = torch.einsum("qbij,qbi,qbj->bij", lc, A[..., ti], A[..., ti])
                ctx.close("lmc_mixing", out.mean, mean.reshape(out.mean.shape), (1e-7, 1e-7), cls=cls + ":ti:mean")
                ctx.close("lmc_mixing", out.covariance_matrix, (C + jit * torch.eye(N_)).reshape(out.covariance_matrix.shape), (1e-7, 1e-7), cls=cls + ":ti:cov", alt=C.reshape(out.covariance_matrix.shape))
            else:
                out = m(X)
                mean = torch.einsum("qbn,qbt->bnt", lm, A)
                C4 = torch.einsum("qbij,qba,qbc->biajc", lc, A, A).reshape(B, N_ * T, N_ * T)
                got = out.covariance_matrix
                if not out._interleaved:
                    got = got.reshape(B, T, N_, T, N_).permute(0, 2, 1, 4, 3).reshape(B, N_ * T, N_ * T)
                ctx.close("lmc_mixing", out.mean, mean.reshape(out.mean.shape), (1e-7, 1e-7), cls=cls + ":mean")
                ctx.close("lmc_mixing", got, (C4 + jit * torch.eye(N_ * T)).reshape(got.shape), (1e-7, 1e-7), cls=cls + ":cov", alt=C4.reshape(got.shape))
            # KL: the latent KLs summed over the LATENT dimension (one value per remaining batch element)
            kl = m.variational_strategy.kl_divergence()
            ctx.close("lmc_mixing", kl, base.kl_divergence().sum(0).reshape(kl.shape) if kl.numel() == B else base.kl_divergence().sum(0), (1e-9, 1e-9), cls=cls + ":kl_is_sum_over_latents")
            ctx.expect("lmc_mixing", tuple(kl.shape) == (B,), f"kl_divergence() has shape {tuple(kl.shape)}, expected ({B},)")
        except Exception as e:
            ctx.fail("lmc_mixing", f"LMC(latent_dim=-2), variational batch ({Q},{B}) raised {type(e).__name__}: {str(e)[:140]}", "raise", exc=type(e).__name__, lazy=case["lazy"])
    ctx.cell({k: v for k, v in case.items() if k != "seed"})


def _identity(case, ctx, g):
    """q(u) = p(u)  =>  q(f) = prior and KL = 0"""
    import torch

    from vf import util

    strat, dist = case["strategy"], case["dist"]
    m = _mk_model(strat, dist, [], [], g)
    vs = m.variational_strategy
    vd = vs._variational_distribution
    Z = vs.inducing_points.detach()
    X = util.randn(g, N_, D)
    Kzz, Kxz, Kxx, mz, mx = _pieces(m, Z, X)
    jit = float(vs.jitter_val)
    if strat == "UnwhitenedVariationalStrategy":
        pm, pS = mz, Kzz + jit * torch.eye(M_)
    else:
        pm, pS = torch.zeros(M_), torch.eye(M_)
    with torch.no_grad():
        if dist == "CholeskyVariationalDistribution":
            vd.variational_mean.copy_(pm)
            vd.chol_variational_covar.copy_(torch.linalg.cholesky(pS))
        elif dist == "MeanFieldVariationalDistribution":
            if strat == "UnwhitenedVariationalStrategy":
                raise __import__("vf.core", fromlist=["Reject"]).Reject("a mean-field q(u) cannot equal a correlated prior")
            vd.variational_mean.copy_(pm)
            vd._variational_stddev.copy_(torch.ones(M_))
        elif dist == "NaturalVariationalDistribution":
            Pi = torch.linalg.inv(pS)
            vd.natural_vec.copy_(Pi @ pm)
            vd.natural_mat.copy_(-0.5 * Pi)
        else:
            Pi = torch.linalg.inv(pS)
            T = torch.linalg.cholesky(Pi).T  # upper; the parameter is documented lower-triangular: use L with L^T L = P
            Lw = torch.linalg.cholesky(torch.flip(Pi, [0, 1]))
            Tl = torch.flip(Lw, [0, 1]).T  # lower-triangular T with T^T T = P
            vd.natural_vec.copy_(Pi @ pm)
            vd.natural_tril_mat.copy_(Tl)
        m.eval()
        out = m(X)
        kl = vs.kl_divergence()
        m.train()
        m(X)
        kl_t = vs.kl_divergence()
    ctx.close("qu_equals_prior_gives_prior", out.mean, mx, (1e-6, 1e-6), cls="identity:mean")
    ctx.close("qu_equals_prior_gives_prior", out.covariance_matrix, Kxx, (1e-5, 1e-5), cls="identity:cov")
    ctx.close("kl_zero_for_prior", kl_t, torch.zeros_like(kl_t), (1e-7, 0.0), cls="identity:kl")
    ctx.cell({k: v for k, v in case.items() if k != "seed"})


def _same_qu(case, ctx, g):
    """whitened and unwhitened strategies describing the same q(u) give the same q(f)"""
    import torch

    from vf import util

    dist = "CholeskyVariationalDistribution"
    mw = _mk_model("VariationalStrategy", dist, [], [], g)
    mu = _mk_model("UnwhitenedVariationalStrategy", dist, [], [], util.gen(case["seed"] + 1), Z=mw.variational_strategy.inducing_points.detach().clone())
    mu.mean_module.load_state_dict(mw.mean_module.state_dict())
    mu.covar_module.load_state_dict(mw.covar_module.state_dict())
    Z = mw.variational_strategy.inducing_points.detach()
    X = util.randn(g, N_, D)
    Kzz, _, _, mz, _ = _pieces(mw, Z, X)
    jit = float(mw.variational_strategy.jitter_val)
    m_par, S_par = _expected_qu(dist, mw.variational_strategy._variational_distribution)
    L = torch.linalg.cholesky(Kzz + jit * torch.eye(M_))
    m_u, S_u = mz + L @ m_par, L @ S_par @ L.T
    with torch.no_grad():
        vdu = mu.variational_strategy._variational_distribution
        vdu.variational_mean.copy_(m_u)
        vdu.chol_variational_covar.copy_(torch.linalg.cholesky(S_u + 1e-14 * torch.eye(M_)))
        mw.eval()
        mu.eval()
        a, b = mw(X), mu(X)
    ctx.close("whitened_equals_unwhitened", b.mean, a.mean, (1e-5, 1e-5), cls="same_qu:mean")
    ctx.close("whitened_equals_unwhitened", b.covariance_matrix, a.covariance_matrix, (1e-5, 1e-5), cls="same_qu:cov")
    ctx.cell({k: v for k, v in case.items() if k != "seed"})


def _unwhitened_eval_kl(case, fl):
    """UnwhitenedVariationalStrategy.prior_distribution outside a training forward uses add_jitter() = 1e-3 on K_ZZ, so
    kl_divergence() read in EVALUATION mode deviates from the closed form (the value read right after a training forward is exact)"""
    if fl.get("strategy") != "UnwhitenedVariationalStrategy":
        return False
    # (also in training mode when the last forward took the `inputs are the inducing points` shortcut, which does not refresh the prior)
    return fl["monitor"] == "kl_closed_form_eval" or (fl["monitor"] == "kl_closed_form" and case.get("xrel") == "at_Z")


def _bdvs_const(case, fl):
    """BatchDecoupledVariationalStrategy.kl_divergence() = KL(q(u)||p(u)) + (M/2) log(2 pi): the mean part is scored as a Delta
    distribution (-log p(m)), which adds exactly that constant"""
    return fl["monitor"] == "kl_closed_form" and fl.get("strategy") == "BatchDecoupled" and fl.get("offset_is_half_M_log_2pi") is True


def _ciq_ngd(case, fl):
    """CiqVariationalStrategy with NaturalVariationalDistribution (its NGD fast path): the forward value of kl_divergence() is
    identically 0 (only its gradient is computed) and the predictive covariance is diagonal (variances only, which are right)"""
    if fl.get("strategy") != "CiqVariationalStrategy" or fl.get("dist") != "NaturalVariationalDistribution":
        return False
    if fl["monitor"] in ("kl_closed_form", "kl_closed_form_eval"):
        return fl.get("kl_is_zero") is True
    return fl["monitor"] == "qf_covar" and fl.get("diagonal_ok") is True and fl.get("offdiag_zero") is True


def _orth_unwhitened_train(case, fl):
    """OrthogonallyDecoupledVariationalStrategy over an UnwhitenedVariationalStrategy in TRAINING mode: the base strategy
    returns only a diagonal prior-conditional part in training mode, the wrapper reads its off-diagonal blocks"""
    return case.get("kind") == "orth" and fl["monitor"].startswith("orth_decoupled") and fl.get("base") == "UnwhitenedVariationalStrategy" and fl.get("part") in ("train_mean", "kl_train")


MATCHERS = {"C14-orth-decoupled-over-unwhitened-training-mode": _orth_unwhitened_train, "C14-unwhitened-eval-mode-kl-jitter": _unwhitened_eval_kl, "C14-bdvs-kl-constant-offset": _bdvs_const, "C14-ciq-ngd-kl-zero-diag-covariance": _ciq_ngd}
