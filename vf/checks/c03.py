"""C03 - evaluation-mode outputs are history independent (no stale prediction caches).

History + executable sequential model. Every public state-changing operation named in the statement is applied
through the real API; after EVERY step the history-laden object's prediction (under two settings tuples) is compared
with the sequential model: a freshly constructed model of the same class holding the same state_dict and data.
Diagnostic monitors on gpytorch.utils.memoize._add_to_cache / Module._clear_cache stamp cache events with the
history step, so a violation names the cache entries that were alive and when they were created.
"""
import itertools
import random

PROPERTY = "C03"
RULE = (
    "case = (model family, operation sequence over the family's alphabet of public state-changing operations [predict under 6 settings tuples, "
    'train()/eval(), optimiser step in training mode, set_train_data (inputs+targets / targets only), load_state_dict (perturbed / same), '
    'get_fantasy_model, prior-mode call, backward through non-detached prediction]); all sequences of length <= 2 exhaustively, length 3: all '
    'predict -> state change -> predict sandwiches plus a sample (quick) / exhaustive for the exact families (thorough), lengths 4-8 sampled; '
    "families incl. an iterative-regime exact GP (no Cholesky, rank-8 Lanczos roots); every predict operation's OWN output is compared with a "
    'fresh twin, prediction compared with a fresh model after every step; distinct = (family, sequence); non-trivial iff the sequence has a '
    'prediction before a state-changing operation and the prediction really changed (> 1e-6) somewhere along the history'
    '; pass 5: directed histories with a prediction / training step under other jitter settings, a training step with part of the model frozen, and a rough prediction (no Cholesky, eval_cg_tolerance 0.3, rank-3 LOVE) between accurate ones'
    '; pass 6: exact Kronecker multitask family; training steps whose mode switches go through the objective object; partial state dicts (strict=False)'
    "; pass 7: fantasy_train (a child trains, the parent is compared again), first prediction of a fantasy child against recomputation, set_data_refused (a strict set_train_data refused half-way, caught by the caller)"
    "; pass 8: training tensors edited in place and handed back to set_train_data (the same tensor objects)"
    "; pass 9: prior-mode calls under other jitter settings; unobserved histories (no probe prediction between the steps); fantasy self-check with autograd off (runs for KISS-GP too)"
)
REQUIRED = ["step_matches_fresh", "final_matches_fresh", "op_output_matches_fresh", "monitor:cache_add", "monitor:clear_cache"]
ASSUMPTIONS = [
    "the sequential model is a fresh model of the same class with the same state_dict, data and active settings (both sides run the same algorithm: direct tolerance)",
    "a history in which an OPERATION itself raises (e.g. second backward through a freed graph) is a rejected history, not a violation; kl_divergence() is not in the statement's alphabet",
]
ANCHOR_FILES = ["gpytorch/models/", "gpytorch/module.py", "gpytorch/utils/memoize.py", "gpytorch/variational/", "gpytorch/kernels/grid_interpolation_kernel.py", "gpytorch/kernels/inducing_point_kernel.py", "gpytorch/kernels/grid_kernel.py"]

QUICK_FAMS = ["default", "default_iterative", "batch_nan", "mt_kronecker", "hadamard_two_inputs", "ski", "ski_dynamic_grid", "sgpr", "batch", "svgp_whitened", "svgp_unwhitened", "lmc_multitask"]
ALL_FAMS = ["default", "default_iterative", "batch", "batch_nan", "mt_kronecker", "hadamard_two_inputs", "ski", "ski_dynamic_grid", "sgpr", "svgp_whitened", "svgp_unwhitened", "svgp_meanfield", "svgp_batch_decoupled", "lmc_multitask"]
STATE_CHANGING = {"train_step", "train_step_frozen", "train_step_jitter", "train_step_via_mll", "load_sd_partial", "set_data", "set_targets", "set_targets_strict", "load_sd"}
EXACT_ALPHA = ["pred", "pred_fpv", "pred_nodetach", "pred_skipvar", "pred_eager", "pred_batch", "train_step", "set_data", "set_targets", "set_targets_strict", "load_sd", "load_sd_same", "fantasy", "prior", "backward", "train_eval"]
VAR_ALPHA = ["pred", "pred_batch", "pred_skipvar", "pred_eager", "train_step", "load_sd", "load_sd_same", "prior", "backward", "train_eval"]
VAR_FAMS = {"svgp_whitened", "svgp_unwhitened", "svgp_meanfield", "svgp_batch_decoupled", "lmc_multitask"}


VAR_FANTASY_FAMS = {"svgp_whitened", "svgp_unwhitened"}


def _alpha(fam):
    if fam in VAR_FANTASY_FAMS:
        return VAR_ALPHA + ["var_fantasy"]
    if fam == "batch_nan":
        return ["pred", "pred_fill", "pred_fpv", "pred_nodetach", "pred_eager", "train_step", "set_targets", "set_targets_strict", "load_sd", "load_sd_same", "prior", "train_eval"]
    if fam == "lmc_multitask":
        return [o for o in VAR_ALPHA if o != "pred_batch"]  # LMC latents do not broadcast against an extra input batch (explicit error)
    return VAR_ALPHA if fam in VAR_FAMS else EXACT_ALPHA


def cases(tier, seed):
    rnd = random.Random(3000 + seed)
    fams = QUICK_FAMS if tier == "quick" else ALL_FAMS
    for fam in fams:
        ops = _alpha(fam)
        for L in (1, 2):
            for seq in itertools.product(ops, repeat=L):
                yield {"family": fam, "seq": list(seq), "mseed": rnd.randrange(1000)}
        all3 = list(itertools.product(ops, repeat=3))
        if tier == "quick":
            # directed: predict -> state change -> (anything); plus a random sample
            directed = [s for s in all3 if s[0].startswith("pred") and s[1] in STATE_CHANGING]
            # sandwiches: predict under one settings tuple, change the state, predict under another (all pairs)
            sandwich = [s for s in directed if s[2].startswith("pred")]
            rest = [s for s in directed if not s[2].startswith("pred")]
            pick = sandwich + rnd.sample(rest, min(len(rest), 40)) + rnd.sample(all3, 60)
        elif fam in ("default", "sgpr", "ski"):
            pick = all3
        else:
            pick = rnd.sample(all3, min(len(all3), 700))
        for seq in pick:
            yield {"family": fam, "seq": list(seq), "mseed": rnd.randrange(1000)}
        # other numerical settings at one call / a training step with part of the model frozen or under other settings
        for new in ("pred_jitter", "train_step_frozen", "train_step_jitter", "pred_loose", "train_step_via_mll", "load_sd_partial", "fantasy_selfcheck", "fantasy_train", "set_data_refused", "set_data_inplace"):
            if new in ("fantasy_selfcheck", "fantasy_train") and (fam in VAR_FAMS or fam in ("sgpr", "batch_nan", "default_iterative")):
                continue
            if new in ("set_data_refused", "set_data_inplace") and (fam in VAR_FAMS or fam in ("hadamard_two_inputs", "modellist")):
                continue
            if fam == "batch_nan" and new == "pred_jitter":
                continue
            if new == "pred_loose" and fam in VAR_FAMS:
                continue
            ext = [[new], [new, "pred"], ["pred", new, "pred"], [new, "train_eval", "pred"], [new, "load_sd_same", "pred"], ["pred", "train_step", new, "pred"]]
            if tier != "quick":
                ext += [[new, o] for o in ops] + [[o, new] for o in ops] + [[o, new, "pred"] for o in ops]
            for seq in ext:
                yield {"family": fam, "seq": seq, "mseed": rnd.randrange(1000)}
        # a prior-mode call under other jitter settings between two predictions (the second one under those settings)
        if fam != "batch_nan":
            for seq in (["pred", "prior_jitter", "pred_jitter"], ["pred_jitter", "prior", "pred"], ["pred", "prior_jitter", "pred"]):
                yield {"family": fam, "seq": seq, "mseed": rnd.randrange(1000)}
                yield {"family": fam, "seq": seq, "mseed": rnd.randrange(1000), "unobserved": True}
        # the same directed sandwiches WITHOUT the probe prediction after every step (the probe is an operation too and can
        # repair what the history broke): only the operations' own outputs and the final state are compared
        for seq in pick[: (40 if tier == "quick" else 400)]:
            yield {"family": fam, "seq": list(seq), "mseed": rnd.randrange(1000), "unobserved": True}
        nlong = 25 if tier == "quick" else 400
        for _ in range(nlong):
            L = rnd.randint(4, 8)
            yield {"family": fam, "seq": [rnd.choice(ops) for _ in range(L)], "mseed": rnd.randrange(1000), "hostile": L >= 7}


_ST = {"step": -1, "events": []}


def setup(ctx):
    import gpytorch
    import gpytorch.utils.memoize as memo
    from vf import attach

    _ST["ctx"] = ctx

    def on_add(a, k):
        ctx.hit("monitor:cache_add")
        if _ST["step"] >= -1 and len(_ST["events"]) < 400:
            obj, name = a[0], a[1]
            _ST["events"].append((_ST["step"], "add", type(obj).__name__, str(name)))

    attach.wrap(memo, "_add_to_cache", before=on_add)

    def on_clear(a, k):
        ctx.hit("monitor:clear_cache")
        if len(_ST["events"]) < 400:
            _ST["events"].append((_ST["step"], "clear", type(a[0]).__name__, ""))

    seen = set()
    for cls in _all_module_classes(gpytorch):
        f = cls.__dict__.get("_clear_cache")
        if f is not None and cls not in seen:
            seen.add(cls)
            attach.wrap(cls, "_clear_cache", before=on_clear)
    ctx.notes["clear_cache_classes_hooked"] = sorted(c.__name__ for c in seen)


def _all_module_classes(gpytorch):
    out, stack = [], [gpytorch.Module]
    while stack:
        c = stack.pop()
        out.append(c)
        stack.extend(c.__subclasses__())
    return out


def run_case(case, ctx):
    from vf import history as H

    fam = H.FAMILIES[case["family"]](case["mseed"])
    with fam.context():
        return _run_case(case, ctx, fam)


def _run_case(case, ctx, fam):
    import torch

    from vf import history as H

    state = {"fam": fam}
    m = fam.make()
    _ST["events"] = []
    _ST["step"] = -1
    cfgs = [(False, True, False, True), (True, True, False, True)] if fam.exact and fam.compare_fpv else [(False, True, False, True)]
    preds = []
    saw_pred_before_change = False
    had_pred = False
    for i, op in enumerate(case["seq"]):
        _ST["step"] = i
        twin = H.fresh_like(state, m) if op.startswith("pred") else None
        ctx.info[f"attempted:{case['family']}:{op}"] += 1
        try:
            out = H.apply_op(case["family"], m, op, state)
        except Exception as e:
            if op in ("load_sd", "load_sd_same", "load_sd_partial"):
                # loading (all or part of) a state dict the model itself produced is never refused
                ctx.fail("load_state_dict_accepted", f"{op} raised {type(e).__name__}: {str(e)[:140]} ({case['family']}, step {i} of {case['seq']})", "raise", exc=type(e).__name__, op=op, family=case["family"])
                return
            ctx.reject(f"operation raised: {case['family']}:{op}: {type(e).__name__}: {str(e)[:60]}")
            ctx.info["rejected_history:" + type(e).__name__] += 1
            ctx.info[f"raised:{case['family']}:{op}:{type(e).__name__}"] += 1  # (an operation that ALWAYS raises for a family is a blind spot: tools/blindspots.py)
            return
        if not all(bool(__import__("torch").isfinite(p_).all()) for p_ in m.parameters()):
            ctx.reject(f"operation produced non-finite parameters: {case['family']}:{op}")
            return
        if op in ("var_fantasy", "fantasy_selfcheck") and out is not None:
            ctx.close("variational_fantasy_first_prediction_matches_recomputed" if op == "var_fantasy" else "fantasy_first_prediction_matches_recomputed", torch.cat([out[1][0].reshape(-1), out[1][1].reshape(-1)]),
                      torch.cat([out[2][0].reshape(-1), out[2][1].reshape(-1)]), (1e-6, 1e-6) if op == "var_fantasy" else (1e-5, 1e-5),
                      cls=case["family"] + ":" + op, step=i, op=op, prefix=case["seq"][: i + 1])
        if op.startswith("pred"):
            had_pred = True
            # the operation's own output, under the operation's own settings, against a fresh model in the same state
            try:
                ref_out = H.apply_op(case["family"], twin, op, state)
            except Exception:
                ref_out = None
            if ref_out is not None and out is not None and (fam.compare_fpv or op != "pred_fpv"):
                alive = [e for e in _ST["events"] if e[1] == "add"][-12:]
                ok = ctx.close("op_output_matches_fresh", torch.cat([out[0].reshape(-1), out[1].reshape(-1)]), torch.cat([ref_out[0].reshape(-1), ref_out[1].reshape(-1)]), fam.tol,
                               cls=case["family"] + ":" + op, step=i, op=op, prefix=case["seq"][: i + 1], cache_events=[list(map(str, e)) for e in alive], detail=f"output of step {i} ({op}) of {case['seq']}")
                if not ok:
                    return
        if op in STATE_CHANGING and had_pred:
            saw_pred_before_change = True
        _ST["step"] = i + 0.5
        last = i == len(case["seq"]) - 1
        if case.get("unobserved") and not last:
            continue  # (the probe prediction after every step is itself an operation: these histories are only looked at through their own operations and at the end)
        mon = "final_matches_fresh" if last else "step_matches_fresh"
        fresh = H.fresh_like(state, m)
        for cfg in cfgs:
            try:
                got = H.predict(m, fam.xs, cfg)
            except Exception as e:
                try:
                    H.predict(fresh, fam.xs, cfg)
                except Exception:
                    # the fresh model cannot predict from this state either (e.g. an optimiser step drove the parameters
                    # to a numerically singular state): not a property of the history
                    ctx.reject(f"state not predictable even by a fresh model: {case['family']}:{op}: {type(e).__name__}")
                    return
                ctx.fail(mon, f"prediction after step {i} ({op}) raised {type(e).__name__}: {str(e)[:140]}", "raise", exc=type(e).__name__, step=i, op=op, seq=case["seq"][: i + 1])
                return
            ref = H.predict(fresh, fam.xs, cfg)
            alive = [e for e in _ST["events"] if e[1] == "add"][-12:]
            ok = ctx.close(mon, torch.cat([got[0].reshape(-1), got[1].reshape(-1)]), torch.cat([ref[0].reshape(-1), ref[1].reshape(-1)]), fam.tol, cls=case["family"] + (":fpv" if cfg[0] else ""),
                           step=i, op=op, prefix=case["seq"][: i + 1], cache_events=[list(map(str, e)) for e in alive], detail=f"after step {i} ({op}) of {case['seq']}")
            if not ok:
                return
        preds.append(got[0])
    changed = any(float((a - b).abs().max()) > 1e-6 for a, b in zip(preds, preds[1:]) if a.shape == b.shape)
    ctx.cell({"family": case["family"], "seq": case["seq"]}, nontrivial=saw_pred_before_change and changed)


def _sgpr_eager(case, fl):
    """SGPR prediction strategy built (or used) under lazily_evaluate_kernels(False)"""
    return case["family"] == "sgpr" and "pred_eager" in (fl.get("prefix") or [])


def _ski_dyn_fantasy(case, fl):
    """KISS-GP with a data-dependent grid: the fantasy child's caches sit on the parent's grid, its recomputation on a new one"""
    return case["family"] == "ski_dynamic_grid" and fl.get("monitor") == "fantasy_first_prediction_matches_recomputed" and fl.get("op") == "fantasy_selfcheck"


def _ski_dyn_eager(case, fl):
    """KISS-GP with a data-dependent grid (grid_bounds=None): the grid is re-derived from the inputs of each kernel call, so a
    prediction under lazily_evaluate_kernels(False) (different order / grouping of kernel calls) differs from the lazy one and
    the strategy built then keeps serving later predictions"""
    return case["family"] == "ski_dynamic_grid" and "pred_eager" in (fl.get("prefix") or [])


def _loose_caches(case, fl):
    """exact-GP prediction caches are not keyed by the numerical settings (CG tolerance, Cholesky size threshold, Lanczos rank)
    they were computed under: a history with a rough prediction (pred_loose) and predictions under other settings"""
    return case["family"] not in VAR_FAMS and "pred_loose" in (fl.get("prefix") or [])


MATCHERS = {"C03-ski-dynamic-grid-fantasy": _ski_dyn_fantasy, "C03-sgpr-eager-kernel-evaluation": _sgpr_eager, "C03-ski-dynamic-grid-eager": _ski_dyn_eager, "C03-exact-caches-ignore-numerical-settings": _loose_caches}
