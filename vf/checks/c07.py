"""C07 - every covariance handed out is a valid covariance.

Invariant hooks on the real functions that hand covariances out: Kernel.__call__ (Gram matrices: one argument or the same
tensor twice), ExactGP.__call__, _VariationalStrategy.__call__, Likelihood.marginal (prior, posterior, variational,
marginal covariances), MultivariateNormal.variance / stddev (real, >= configured minimum), the noise modules (>= the
constraint's lower bound / min_fixed_noise).  Oracle = inequalities with a calibrated rounding allowance:
symmetric to 1e-10 relative, lambda_min >= -1e-9 * lambda_max; prior - posterior PSD; variance with nested data X u X'
<= variance with X.
"""
import itertools
import random

PROPERTY = "C07"
RULE = (
    'case kinds: (gram) kernel (20 PD kernels on their documented domain, composed, derivative) x geometry in {random, exact duplicates, pairs at '
    '1e-9..1e-3, collinear, tight cluster + far outlier, n=1, large common offset} x lengthscale in {1e-2,1,1e2} x d; (model) exact GP: '
    'prior/posterior/marginal covariances, prior-posterior PSD, nested-data variance monotonicity, variance floor under raised min_variance, '
    'fast_pred_var on/off; (svgp) q(f); (noise) likelihood noise floors incl. fantasy likelihoods; (history) covariance invariants along '
    'C03-style operation histories; distinct = cell without seed; non-trivial iff n >= 2'
    '; pass 5: exact Kronecker multitask models (rank 0/1 task noise) and exact models with NaN targets under mask / fill: PSD, prior-posterior PSD, nested-data monotonicity, variance floors'
    '; pass 6: per-dtype variance / noise floors under a block that overrides the other dtype only'
    "; pass 8: fantasy children (tight cluster away from the data, points inside it) under both variance paths; training tensors edited in place and handed back"
    "; pass 9: multitask kernels over a scaled data kernel (prior / lazy-joint variances and the kernel's diag path against the covariance diagonal); heteroskedastic noise (with noise_indices) at least the constraint's lower bound"
)
REQUIRED = ["gram_symmetric", "gram_psd", "hook:exact_gp_covariance_psd", "hook:marginal_covariance_psd", "hook:variational_covariance_psd", "prior_minus_posterior_psd", "nested_data_variance_monotone", "variance_floor", "noise_floor"]
ASSUMPTIONS = ["rounding allowance lambda_min >= -1e-9*lambda_max in float64 (calibrated: worst legitimate case -3.3e-12, cancellation in the quadratic expansion of squared distances)",
               "GaussianSymmetrizedKLKernel excluded (not PD in general); CosineKernel only d=1; CylindricalKernel inside the unit ball; Hamming on one-hot inputs"]
ANCHOR_FILES = ["gpytorch/kernels/", "gpytorch/distributions/multivariate_normal.py", "gpytorch/models/exact_prediction_strategies.py", "gpytorch/likelihoods/noise_models.py", "gpytorch/variational/"]

KERNELS = ["rbf", "rbf_ard", "matern0.5", "matern1.5", "matern2.5", "rq", "periodic", "linear", "poly2", "pp0", "pp1", "pp2", "pp3", "sm", "cosine", "constant", "scale_rbf", "sum", "prod",
           "cylindrical", "hamming", "rbfgrad", "m52grad", "rbfgradgrad", "multitask", "additive_structure", "rff", "spectral_delta", "arc", "polygrad",
           "rbfgrad_ard", "m52grad_ard", "rbfgradgrad_ard", "matern2.5_ard"]
GEOMS = ["random", "dups", "near1e-9", "near1e-6", "near1e-3", "collinear", "cluster_far", "single", "offset1e6"]
LS = [1e-2, 1.0, 1e2]


def cases(tier, seed):
    rnd = random.Random(7000 + seed)
    combos = list(itertools.product(KERNELS, GEOMS, LS, [1, 2, 3]))
    if tier == "quick":
        combos = [c for c in combos if rnd.random() < 0.22 or (c[1] in ("offset1e6", "cluster_far") and c[2] == 1.0 and c[3] == 2)]
    for k, geo, ls, d in combos:
        yield {"kind": "gram", "kernel": k, "geom": geo, "ls": ls, "d": d, "seed": rnd.randrange(10**6), "hostile": geo != "random"}
    reps = 1 if tier == "quick" else 40
    for _ in range(reps):
        for kern, geo, fpv, b in itertools.product(["rbf", "matern0.5", "matern2.5", "rq", "sum"], ["random", "dups", "near1e-6", "cluster_far"], [False, True], [[], [2]]):
            yield {"kind": "model", "kernel": kern, "geom": geo, "fast_pred_var": fpv, "batch": b, "noise": rnd.choice([1e-4, 1e-2, 0.3]), "seed": rnd.randrange(10**6)}
        for strat, dist in itertools.product(["VariationalStrategy", "UnwhitenedVariationalStrategy"], ["CholeskyVariationalDistribution", "MeanFieldVariationalDistribution", "NaturalVariationalDistribution"]):
            yield {"kind": "svgp", "strategy": strat, "dist": dist, "seed": rnd.randrange(10**6)}
        for wrapper in ("indep", "lmc"):
            yield {"kind": "svgp_mt", "wrapper": wrapper, "seed": rnd.randrange(10**6)}
        for lk in ("gauss", "fixed", "fixed+learn", "mt", "hetero", "hetero_indices"):
            yield {"kind": "noise", "lik": lk, "seed": rnd.randrange(10**6)}
        for over, obj, val in itertools.product(["double", "float"], ["float64", "float32"], [1e-2, 0.5]):
            yield {"kind": "dtype_floor", "override": over, "object": obj if obj == "float32" else "double", "value": val, "seed": rnd.randrange(10**6)}
        # exact multitask models (Kronecker) and exact models with missing observations under both NaN policies
        for rank, fpv, geo in itertools.product([0, 1], [False, True], ["random", "dups"]):
            yield {"kind": "mt_model", "rank": rank, "fast_pred_var": fpv, "geom": geo, "noise": rnd.choice([1e-4, 1e-2, 0.3]), "seed": rnd.randrange(10**6)}
        for pol, kern, fpv in itertools.product(["mask", "fill"], ["rbf", "matern2.5"], [False, True]):
            yield {"kind": "nan_model", "policy": pol, "kernel": kern, "fast_pred_var": fpv, "noise": rnd.choice([1e-4, 1e-2, 0.3]), "seed": rnd.randrange(10**6)}
        # covariance invariants along histories of state-changing operations (shared driver with C03): the hooks see every
        # covariance handed out after train steps, load_state_dict, set_train_data, fantasies ...
        for fam in ("default", "batch", "sgpr", "svgp_whitened", "svgp_unwhitened", "svgp_meanfield"):
            for _ in range(4 if tier == "quick" else 150):
                yield {"kind": "history", "family": fam, "length": rnd.randint(3, 6), "seed": rnd.randrange(10**6)}
            for directed in (["pred", "load_sd", "pred"], ["pred_eager", "load_sd", "load_sd", "pred"], ["pred", "set_data", "pred"], ["pred", "load_sd", "pred_batch"], ["pred_fpv", "set_data_inplace", "pred_fpv"], ["pred", "fantasy_selfcheck"], ["pred_fpv", "train_step", "fantasy_selfcheck"], ["pred", "train_step", "set_data_inplace", "pred_fpv"]):
                yield {"kind": "history", "family": fam, "seq": directed, "seed": rnd.randrange(10**6)}


_ST = {}
SYM_TOL, PSD_TOL = 1e-10, 1e-9


def _psd_report(ctx, monitor, C, what, **kw):
    """symmetric to 1e-10 relative and lambda_min >= -1e-9 lambda_max (batch-wise); C dense"""
    import torch

    if C.shape[-1] > 120 or C.numel() == 0:
        return
    C = C.detach().to(torch.float64)
    if not bool(torch.isfinite(C).all()):
        ctx.expect(monitor, False, f"{what}: non-finite entries", **kw)
        return
    scale = C.abs().amax((-1, -2)).clamp_min(1e-300)
    asym = ((C - C.transpose(-1, -2)).abs().amax((-1, -2)) / scale).max()
    ev = torch.linalg.eigvalsh(0.5 * (C + C.transpose(-1, -2)))
    rel = (ev.min(-1).values / ev.abs().max(-1).values.clamp_min(1e-300)).min()
    key = monitor.replace("hook:", "")
    ctx.worst[key + ":asym/1e-10"] = max(ctx.worst.get(key + ":asym/1e-10", 0.0), float(asym) / SYM_TOL)
    ctx.worst[key + ":neg_eig/1e-9"] = max(ctx.worst.get(key + ":neg_eig/1e-9", 0.0), max(0.0, -float(rel)) / PSD_TOL)
    ctx.expect(monitor, float(asym) <= SYM_TOL and float(rel) >= -PSD_TOL, f"{what}: asymmetry {float(asym):.2e}, lambda_min/lambda_max {float(rel):.3e}", rel_min_eig=float(rel), asym=float(asym), **kw)


def setup(ctx):
    import torch

    import gpytorch
    from gpytorch import settings as S
    from vf import attach

    _ST["ctx"] = ctx

    def mvn_hook(monitor, label):
        def after(a, k, out, tok):
            if ctx._case is None or not hasattr(out, "lazy_covariance_matrix"):
                return
            if S.skip_posterior_variances.on():
                return
            with torch.no_grad():
                C = out.covariance_matrix
            _psd_report(ctx, monitor, C, label)

        return after

    attach.wrap(gpytorch.models.ExactGP, "__call__", after=mvn_hook("hook:exact_gp_covariance_psd", "ExactGP.__call__ output"))
    attach.wrap(gpytorch.variational._VariationalStrategy, "__call__", after=mvn_hook("hook:variational_covariance_psd", "variational strategy output"))
    attach.wrap(gpytorch.likelihoods.gaussian_likelihood._GaussianLikelihoodBase, "marginal", after=mvn_hook("hook:marginal_covariance_psd", "likelihood.marginal output"))

    def var_hook(a, k, out, tok):
        if ctx._case is None:
            return
        mv = S.min_variance.value(out.dtype)
        ctx.expect("hook:variance_real_and_floored", bool(torch.isfinite(out).all()) and bool((out >= mv).all()), f"variance below the configured minimum {mv}: min {float(out.min()):.3e}")

    attach.wrap(gpytorch.distributions.MultivariateNormal, "variance", after=var_hook)


def _geom(name, g, n, d):
    import torch

    from vf import util

    base = util.randn(g, n, d)
    if name == "random":
        return base
    if name == "dups":
        return torch.cat([base[: n // 2], base[: n // 2]])
    if name.startswith("near"):
        eps = float(name[4:])
        return torch.cat([base[: n // 2], base[: n // 2] + eps * util.randn(g, n // 2, d)])
    if name == "collinear":
        t = util.randn(g, n, 1)
        return t * util.randn(g, 1, d) + util.randn(g, 1, d)
    if name == "cluster_far":
        return torch.cat([1e-3 * util.randn(g, n - 1, d), 50 * torch.ones(1, d)])
    if name == "single":
        return base[:1]
    if name == "offset1e6":
        return base + 1e6
    raise ValueError(name)


def _mk_kernel(name, d, ls):
    import torch

    import gpytorch

    K = gpytorch.kernels
    mk = {
        "rbf": lambda: K.RBFKernel(), "rbf_ard": lambda: K.RBFKernel(ard_num_dims=d), "matern0.5": lambda: K.MaternKernel(nu=0.5), "matern1.5": lambda: K.MaternKernel(nu=1.5),
        "matern2.5": lambda: K.MaternKernel(nu=2.5), "rq": lambda: K.RQKernel(), "periodic": lambda: K.PeriodicKernel(), "linear": lambda: K.LinearKernel(), "poly2": lambda: K.PolynomialKernel(power=2),
        "pp0": lambda: K.PiecewisePolynomialKernel(q=0), "pp1": lambda: K.PiecewisePolynomialKernel(q=1), "pp2": lambda: K.PiecewisePolynomialKernel(q=2), "pp3": lambda: K.PiecewisePolynomialKernel(q=3),
        "sm": lambda: K.SpectralMixtureKernel(num_mixtures=2, ard_num_dims=d), "cosine": lambda: K.CosineKernel(), "constant": lambda: K.ConstantKernel(),
        "scale_rbf": lambda: K.ScaleKernel(K.RBFKernel()), "sum": lambda: K.ScaleKernel(K.MaternKernel(nu=1.5)) + K.LinearKernel(), "prod": lambda: K.RBFKernel() * K.PeriodicKernel(),
        "cylindrical": lambda: K.CylindricalKernel(3, K.MaternKernel(nu=2.5)), "hamming": lambda: K.HammingIMQKernel(vocab_size=3),
        "rbfgrad_ard": lambda: K.RBFKernelGrad(ard_num_dims=d), "m52grad_ard": lambda: K.Matern52KernelGrad(ard_num_dims=d), "rbfgradgrad_ard": lambda: K.RBFKernelGradGrad(ard_num_dims=d),
        "matern2.5_ard": lambda: K.MaternKernel(nu=2.5, ard_num_dims=d),
        "rbfgrad": lambda: K.RBFKernelGrad(), "m52grad": lambda: K.Matern52KernelGrad(), "rbfgradgrad": lambda: K.RBFKernelGradGrad(), "polygrad": lambda: K.PolynomialKernelGrad(power=2),
        "multitask": lambda: K.MultitaskKernel(K.RBFKernel(), num_tasks=2, rank=1), "additive_structure": lambda: K.AdditiveStructureKernel(K.RBFKernel(), num_dims=d),
        "rff": lambda: K.RFFKernel(num_samples=5, num_dims=d), "spectral_delta": lambda: K.SpectralDeltaKernel(num_dims=d, num_deltas=6), "arc": lambda: K.ArcKernel(K.MaternKernel(nu=2.5)),
    }
    k = mk[name]()
    for mod in k.modules():
        if getattr(mod, "has_lengthscale", False) and not isinstance(mod, gpytorch.kernels.ArcKernel):
            try:
                # ARD kernels get clearly different lengthscales per input dimension
                mod.lengthscale = ls * torch.linspace(0.6, 1.7, mod.ard_num_dims) if getattr(mod, "ard_num_dims", None) and mod.ard_num_dims > 1 else ls
            except Exception:
                pass
    return k


def run_case(case, ctx):
    from vf import util

    g = util.gen(case["seed"])
    return {"gram": _gram, "model": _model, "svgp": _svgp, "svgp_mt": _svgp_multitask, "mt_model": _mt_model, "nan_model": _nan_model, "dtype_floor": _dtype_floor, "noise": _noise, "history": _history}[case["kind"]](case, ctx, g)


def _history(case, ctx, g):
    import random as _r

    import torch

    from vf import history as H

    rnd = _r.Random(case["seed"])
    fam = H.FAMILIES[case["family"]](case["seed"] % 1000)
    ops = [o for o in H.ops_for(case["family"]) if o != "backward" and not (case["family"] == "sgpr" and o in ("fantasy", "pred_eager"))]
    if "seq" in case:
        seq = [o for o in case["seq"] if o in H.ops_for(case["family"]) or (o in ("set_data_inplace", "fantasy_selfcheck") and fam.exact and case["family"] not in ("hadamard_two_inputs", "sgpr"))]
    else:
        seq = ["pred"] + [rnd.choice(ops) for _ in range(case["length"])] + [rnd.choice(["pred", "pred_fpv" if fam.exact else "pred", "pred_eager"])]
    state = {"fam": fam}
    m = fam.make()
    def degenerate():
        """the state itself is numerically dead (an optimiser step drove a constrained value to 0 / inf): a fresh model
        holding the same parameters and data cannot predict either - not a property of any covariance handed out"""
        try:
            fr = H.fresh_like(state, m)
            o = H.predict(fr, fam.xs)
            return not (bool(torch.isfinite(o[0]).all()) and bool(torch.isfinite(o[1]).all()))
        except Exception:
            return True

    for op in seq:
        mark = len(ctx._fail)
        try:
            out = H.apply_op(case["family"], m, op, state)
        except Exception as e:
            if degenerate():
                del ctx._fail[mark:]
            ctx.reject(f"operation raised: {case['family']}:{op}: {type(e).__name__}")
            return
        if len(ctx._fail) > mark and any("non-finite" in f_.get("detail", "") for f_ in ctx._fail[mark:]) and degenerate():
            del ctx._fail[mark:]
            ctx.reject(f"numerically dead state after {op}: {case['family']}")
            return
        if out is not None and op not in ("pred_skipvar", "fantasy_selfcheck"):
            _psd_report(ctx, "history_covariance_psd", out[1], f"prediction ({op}) after {seq}", family=case["family"], op=op)
            ctx.expect("history_variance_nonnegative", bool((torch.diagonal(out[1], dim1=-2, dim2=-1) >= -1e-9).all()), f"negative predictive variance after {seq}", family=case["family"])
    ctx.cell({"family": case["family"], "seq": seq})


def _gram(case, ctx, g):
    import torch

    from gpytorch import settings as S
    from vf import util

    name, d = case["kernel"], case["d"]
    if name == "cosine" and d != 1:
        d = 1
    x = _geom(case["geom"], g, 8, d)
    if name == "cylindrical":
        x = x - x.mean(0) if case["geom"] == "offset1e6" else x
        x = x / (x.norm(dim=-1).max() * 1.2 + 1e-12) * 0.9  # inside the unit ball
    if name == "hamming":
        c = torch.randint(0, 3, (x.shape[0], 2), generator=g)
        if case["geom"] == "dups":
            c[x.shape[0] // 2 :] = c[: x.shape[0] // 2]
        x = torch.nn.functional.one_hot(c, 3).reshape(x.shape[0], -1).double()
    if name == "arc" and case["geom"] == "offset1e6":
        x = x - 1e6
    kern = _mk_kernel(name, x.shape[-1], case["ls"])
    try:
        with torch.no_grad():
            K1 = kern(x).to_dense()
            with S.lazily_evaluate_kernels(False):
                K2 = kern(x, x).to_dense()
    except Exception as e:
        ctx.reject(f"kernel raised on this geometry: {name}: {type(e).__name__}")
        return
    kw = {"kernel": name, "geom": case["geom"], "ls": case["ls"]}
    C = K1
    scale = C.abs().max().clamp_min(1e-300)
    asym = float((C - C.T).abs().max() / scale)
    ctx.expect("gram_symmetric", asym <= SYM_TOL, f"{name} Gram asymmetry {asym:.2e} ({case['geom']}, ls={case['ls']})", **kw)
    ev = torch.linalg.eigvalsh(0.5 * (C + C.T))
    rel = float(ev.min() / ev.abs().max().clamp_min(1e-300))
    ctx.worst["gram:" + name] = max(ctx.worst.get("gram:" + name, 0.0), max(0.0, -rel) / PSD_TOL)
    ctx.expect("gram_psd", rel >= -PSD_TOL, f"{name} Gram matrix lambda_min/lambda_max = {rel:.3e} ({case['geom']}, ls={case['ls']}, d={d})", rel_min_eig=rel, **kw)
    ctx.close("gram_one_arg_equals_two_args", K1, K2, (1e-9, 1e-9), cls="gram:" + name)
    # the variance a distribution REPORTS for this covariance (computed through the kernel's diag path while the covariance
    # is still lazy) is the diagonal of the covariance it hands out
    try:
        import gpytorch

        with torch.no_grad():
            rep = gpytorch.distributions.MultivariateNormal(torch.zeros(K1.shape[-1]), kern(x)).variance
        floor = S.min_variance.value(torch.double)
        ctx.close("reported_variance_is_covariance_diagonal", rep, torch.diagonal(K1).clamp_min(floor), (1e-8, 1e-8), cls="gram_var:" + name, **kw)
    except NotImplementedError:
        pass
    dg = torch.diagonal(K1)
    ctx.expect("gram_diag_nonnegative", bool((dg >= -1e-12 * dg.abs().max().clamp_min(1e-300)).all()), f"{name}: negative diagonal entry {float(dg.min()):.3e}", **kw)
    ctx.cell({k: v for k, v in case.items() if k != "seed"}, nontrivial=x.shape[0] >= 2)


def _exact(kernel, X, y, noise, batch, g):
    import torch

    import gpytorch
    from vf import util

    K = gpytorch.kernels
    B = torch.Size(batch)
    base = {"rbf": lambda: K.RBFKernel(batch_shape=B), "matern0.5": lambda: K.MaternKernel(nu=0.5, batch_shape=B), "matern2.5": lambda: K.MaternKernel(nu=2.5, batch_shape=B), "rq": lambda: K.RQKernel(batch_shape=B),
            "sum": lambda: K.RBFKernel(batch_shape=B) + K.LinearKernel(batch_shape=B)}[kernel]()
    lik = gpytorch.likelihoods.GaussianLikelihood(batch_shape=B, noise_constraint=gpytorch.constraints.GreaterThan(1e-6))
    m = util.GP(X, y, lik, gpytorch.means.ConstantMean(batch_shape=B), K.ScaleKernel(base, batch_shape=B))
    util.randomize(m, g, 0.4)
    lik.noise = noise
    return m.eval(), lik.eval()


def _model(case, ctx, g):
    import torch

    from gpytorch import settings as S
    from vf import util

    b = case["batch"]
    n, d = 10, 2
    X = _geom(case["geom"], g, n, d)
    y = torch.sin(X.sum(-1)) + 0.1 * util.randn(g, n)
    xs = torch.cat([util.randn(g, 4, d), X[:3]])  # also AT training points (tiny posterior variance)
    if b:
        X, y, xs = X.expand(*b, n, d).contiguous(), y.expand(*b, n).contiguous(), xs
    m, lik = _exact(case["kernel"], X, y, case["noise"], b, util.gen(case["seed"] + 1))
    # the joint train+test covariance stays lazy (the default only from 512 points on) for half of the cases
    eager = S.max_eager_kernel_size(1 if case["seed"] % 2 else 512)
    with torch.no_grad(), S.fast_pred_var(case["fast_pred_var"]), eager:
        with S.prior_mode(True):
            prior = m(xs)
            Cp = prior.covariance_matrix
        post = m(xs)
        Cq, vq = post.covariance_matrix, post.variance
        marg = lik(post)
        _ = marg.variance
        tol_rel = 1e-6 if case["fast_pred_var"] else PSD_TOL
        Dm = Cp - Cq
        ev = torch.linalg.eigvalsh(0.5 * (Dm + Dm.transpose(-1, -2)))
        rel = float((ev.min(-1).values / Cp.abs().amax((-1, -2)).clamp_min(1e-300)).min())
        ctx.expect("prior_minus_posterior_psd", rel >= -max(tol_rel, 1e-8), f"prior - posterior covariance has lambda_min/|prior| = {rel:.3e}", rel_min_eig=rel, kernel=case["kernel"], geom=case["geom"])
        # adding observations never increases a posterior variance (nested training sets)
        half = n // 2
        Xh, yh = X[..., :half, :], y[..., :half]
        mh, _ = _exact(case["kernel"], Xh, yh, case["noise"], b, util.gen(case["seed"] + 1))
        mh.load_state_dict(m.state_dict())
        vh = mh(xs).variance
        slack = 1e-8 * vh.abs().max() + (1e-6 if case["fast_pred_var"] else 1e-10)
        ctx.expect("nested_data_variance_monotone", bool((vq <= vh + slack).all()), f"variance with all {n} points exceeds variance with the first {half}: max excess {float((vq - vh).max()):.3e}", kernel=case["kernel"], geom=case["geom"])
        # reported variances/stddevs are real and at least the configured minimum, also when it is raised and no entry is negative
        for mv in (1e-10, 1e-3):
            with S.min_variance(double_value=mv):
                v2, s2 = m(xs).variance, m(xs).stddev
                ctx.expect("variance_floor", bool((v2 >= mv).all()) and bool((s2 >= mv**0.5 * (1 - 1e-12)).all()) and bool(torch.isfinite(s2).all()),
                           f"variance {float(v2.min()):.3e} / stddev {float(s2.min()):.3e} below min_variance {mv}", min_variance=mv)
                lo, hi = m(xs).confidence_region()
                ctx.expect("variance_floor", bool((hi - lo >= 4 * mv**0.5 * (1 - 1e-9)).all()), f"confidence region narrower than 4*sqrt(min_variance={mv})", min_variance=mv)
        # fantasy children (their covariance comes from updated, not recomputed, roots): a tight cluster of new observations
        # away from the data, and new observations inside it; looked at where the cluster sits
        if not b and case["geom"] in ("random", "dups"):
            for tag, Xf in (("cluster_outside", X.mean(-2, keepdim=True) + 6.0 + 0.02 * util.randn(g, 3, d)), ("inside", X[:2] + 0.3 * util.randn(g, 2, d))):
                try:
                    fm = m.get_fantasy_model(Xf, torch.sin(Xf.sum(-1)))
                except Exception:
                    ctx.info["fantasy_refused"] += 1
                    continue
                xq = torch.cat([Xf + 0.01 * util.randn(g, *Xf.shape), xs[:3]])
                pf = fm(xq)
                _psd_report(ctx, "fantasy_covariance_psd", pf.covariance_matrix, f"fantasy model ({tag}) posterior", kernel=case["kernel"], geom=case["geom"], fast_pred_var=case["fast_pred_var"], where=tag)
                vf_ = torch.diagonal(pf.covariance_matrix, dim1=-2, dim2=-1)
                # conditioning on more data never raises a variance: below the source's variance at the same points
                vs_ = torch.diagonal(m(xq).covariance_matrix, dim1=-2, dim2=-1)
                ctx.expect("nested_data_variance_monotone", bool((vf_ <= vs_ + 1e-6 * vs_.abs().max() + (1e-5 if case["fast_pred_var"] else 1e-7)).all()), f"fantasy model ({tag}) variance exceeds its source's: max excess {float((vf_ - vs_).max()):.3e}", where=tag)
    ctx.cell({k: v for k, v in case.items() if k != "seed"})


def _dtype_floor(case, ctx, g):
    """the configured minimum for ONE dtype is overridden in a block: objects of the OTHER dtype keep their own configured
    minimum (variance floor of distributions, noise floor of fixed-noise likelihoods)"""
    import warnings

    import torch

    import gpytorch
    from gpytorch import settings as S

    over, obj = case["override"], case["object"]
    odt = torch.float32 if obj in ("float32", "float") else torch.float64
    obj = "float" if odt == torch.float32 else "double"
    kw = {("double_value" if over == "double" else "float_value"): case["value"]}
    floor_v = S.min_variance.value(odt) if over != obj else case["value"]
    floor_n = S.min_fixed_noise.value(odt) if over != obj else case["value"]
    with S.min_variance(**kw), warnings.catch_warnings():
        warnings.simplefilter("ignore")
        d = gpytorch.distributions.MultivariateNormal(torch.zeros(4, dtype=odt), (1e-3 * floor_v) * torch.eye(4, dtype=odt))
        v, sd = d.variance, d.stddev
        ctx.expect("variance_floor", bool((v >= floor_v * (1 - 1e-6)).all()) and bool((sd >= floor_v**0.5 * (1 - 1e-6)).all()),
                   f"{obj} distribution inside min_variance({kw}) reports variance {float(v.min()):.3e}; its configured minimum is {floor_v:.1e}", min_variance=floor_v, other_dtype=over != obj)
        mt = gpytorch.distributions.MultitaskMultivariateNormal(torch.zeros(2, 2, dtype=odt), (1e-3 * floor_v) * torch.eye(4, dtype=odt))
        ctx.expect("variance_floor", bool((mt.variance >= floor_v * (1 - 1e-6)).all()), f"{obj} multitask distribution inside min_variance({kw}) reports variance {float(mt.variance.min()):.3e} < {floor_v:.1e}",
                   min_variance=floor_v, multitask=True, other_dtype=over != obj)
    with S.min_fixed_noise(**kw), warnings.catch_warnings():
        warnings.simplefilter("ignore")
        lik = gpytorch.likelihoods.FixedNoiseGaussianLikelihood(noise=torch.full((3,), 1e-3 * floor_n, dtype=odt))
        base = gpytorch.distributions.MultivariateNormal(torch.zeros(3, dtype=odt), torch.eye(3, dtype=odt))
        added = torch.diagonal(lik(base).covariance_matrix) - 1.0
        ctx.expect("noise_at_least_lower_bound", bool((lik.noise >= floor_n * (1 - 1e-6)).all()) and bool((added >= floor_n * (1 - 1e-3) - (1e-6 if odt == torch.float32 else 0)).all()),
                   f"{obj} fixed-noise likelihood built inside min_fixed_noise({kw}) keeps noise {float(lik.noise.min()):.3e}; its configured minimum is {floor_n:.1e}", other_dtype=over != obj)
    ctx.cell({k: v_ for k, v_ in case.items() if k != "seed"})


def _mt_model(case, ctx, g):
    """exact multitask GP (Kronecker kernel, multitask likelihood): posterior / marginal covariances PSD, conditioning does not
    add uncertainty, reported variances at least the configured minimum"""
    import torch

    import gpytorch
    from gpytorch import settings as S
    from vf import util

    n, d, T = 8, 2, 2
    X = _geom(case["geom"], g, n, d)
    Y = torch.stack([torch.sin(X.sum(-1)), torch.cos(X[:, 0])], -1) + 0.1 * util.randn(g, n, T)
    xs = torch.cat([util.randn(g, 3, d), X[:2]])

    class MT(gpytorch.models.ExactGP):
        def __init__(s, X_, Y_, lik):
            super().__init__(X_, Y_, lik)
            s.mean_module = gpytorch.means.MultitaskMean(gpytorch.means.ConstantMean(), num_tasks=T)
            base_ = gpytorch.kernels.MaternKernel(nu=2.5)
            if case["seed"] % 2:
                base_ = gpytorch.kernels.ScaleKernel(base_)  # (a data kernel whose variance is not 1)
            s.covar_module = gpytorch.kernels.MultitaskKernel(base_, num_tasks=T, rank=1)

        def forward(s, x):
            return gpytorch.distributions.MultitaskMultivariateNormal(s.mean_module(x), s.covar_module(x))

    def build(X_, Y_):
        lik = gpytorch.likelihoods.MultitaskGaussianLikelihood(num_tasks=T, rank=case["rank"], noise_constraint=gpytorch.constraints.GreaterThan(1e-6))
        m = MT(X_, Y_, lik)
        util.randomize(m, util.gen(case["seed"] + 1), 0.4)
        lik.noise = case["noise"]
        return m.eval(), lik.eval()

    m, lik = build(X, Y)
    kw = dict(rank=case["rank"], fast_pred_var=case["fast_pred_var"], geom=case["geom"])
    with torch.no_grad(), S.fast_pred_var(case["fast_pred_var"]):
        with S.prior_mode(True):
            Cp = m(xs).covariance_matrix
        post = m(xs)
        Cq = post.covariance_matrix
        _psd_report(ctx, "multitask_posterior_psd", Cq, "exact multitask posterior covariance", **kw)
        _psd_report(ctx, "multitask_posterior_psd", lik(post).covariance_matrix, "exact multitask marginal covariance", **kw)
        Dm = Cp - Cq
        ev = torch.linalg.eigvalsh(0.5 * (Dm + Dm.T))
        rel = float(ev.min() / Cp.abs().max().clamp_min(1e-300))
        ctx.expect("prior_minus_posterior_psd", rel >= -max(1e-6 if case["fast_pred_var"] else PSD_TOL, 1e-8), f"multitask prior - posterior covariance has lambda_min/|prior| = {rel:.3e}", rel_min_eig=rel, **kw)
        mh, _ = build(X[:3], Y[:3])
        mh.load_state_dict(m.state_dict())
        vh, vq = mh(xs).variance, post.variance
        slack = 1e-8 * vh.abs().max() + (1e-6 if case["fast_pred_var"] else 1e-10)
        ctx.expect("nested_data_variance_monotone", bool((vq <= vh + slack).all()), f"multitask variance with all {n} points exceeds variance with the first 3: max excess {float((vq - vh).max()):.3e}", **kw)
        ctx.close("reported_variance_is_covariance_diagonal", vq, torch.diagonal(Cq).reshape(vq.shape).clamp_min(S.min_variance.value(torch.double)), (1e-8, 1e-8), cls="mt_model:variance")
        # the PRIOR's variances (taken through the kernels' diagonal path while the joint covariance stays lazy) are the diagonal
        # of the prior covariance; likewise the posterior's when the joint train+test covariance stays lazy (small eager limit)
        with S.prior_mode(True):
            pr_ = m(xs)
            ctx.close("reported_variance_is_covariance_diagonal", pr_.variance, torch.diagonal(pr_.covariance_matrix).reshape(pr_.variance.shape), (1e-8, 1e-8), cls="mt_model:prior_variance")
            ctx.close("reported_variance_is_covariance_diagonal", m.covar_module(xs, diag=True).reshape(-1), torch.diagonal(m.covar_module(xs).to_dense()), (1e-10, 1e-10), cls="mt_model:kernel_diag")
        with S.max_eager_kernel_size(1):
            m.prediction_strategy = None
            pz_ = m(xs)
            ctx.close("reported_variance_is_covariance_diagonal", pz_.variance, torch.diagonal(pz_.covariance_matrix).reshape(pz_.variance.shape).clamp_min(S.min_variance.value(torch.double)), (1e-8, 1e-8), cls="mt_model:lazy_joint_variance")
        for mv in (1e-10, 1e-3, 0.5):
            with S.min_variance(double_value=mv):
                o = m(xs)
                v2, s2 = o.variance, o.stddev
                ctx.expect("variance_floor", bool((v2 >= mv).all()) and bool((s2 >= mv**0.5 * (1 - 1e-12)).all()) and bool(torch.isfinite(s2).all()),
                           f"multitask variance {float(v2.min()):.3e} / stddev {float(s2.min()):.3e} below min_variance {mv}", min_variance=mv, multitask=True)
                lo, hi = o.confidence_region()
                ctx.expect("variance_floor", bool((hi - lo >= 4 * mv**0.5 * (1 - 1e-9)).all()), f"multitask confidence region narrower than 4*sqrt(min_variance={mv})", min_variance=mv, multitask=True)
                # a distribution object built directly, with a variance below the floor
                tiny = gpytorch.distributions.MultitaskMultivariateNormal(torch.zeros(3, T), 1e-3 * mv * torch.eye(3 * T))
                ctx.expect("variance_floor", bool((tiny.variance >= mv).all()) and bool((tiny.stddev >= mv**0.5 * (1 - 1e-12)).all()), f"multitask distribution reports variance {float(tiny.variance.min()):.3e} below min_variance {mv}", min_variance=mv, multitask=True)
    ctx.cell({k: v for k, v in case.items() if k != "seed"})


def _nan_model(case, ctx, g):
    """exact GP whose targets contain NaN, under observation_nan_policy mask / fill: the covariance handed out is a valid
    covariance, conditioning on the observed part does not add uncertainty, and observing less never lowers a variance"""
    import torch

    from gpytorch import settings as S
    from vf import util

    n, d = 9, 2
    X = util.randn(g, n, d)
    y_full = torch.sin(X.sum(-1)) + 0.1 * util.randn(g, n)
    y = y_full.clone()
    miss = torch.randperm(n, generator=g)[: 1 + case["seed"] % 4]
    y[miss] = float("nan")
    xs = torch.cat([util.randn(g, 4, d), X[miss][:1], X[:2]])
    m, lik = _exact(case["kernel"], X, y, case["noise"], [], util.gen(case["seed"] + 1))
    mf, _ = _exact(case["kernel"], X, y_full, case["noise"], [], util.gen(case["seed"] + 1))
    mf.load_state_dict(m.state_dict())
    kw = dict(policy=case["policy"], fast_pred_var=case["fast_pred_var"], kernel=case["kernel"])
    with torch.no_grad(), S.fast_pred_var(case["fast_pred_var"]):
        with S.prior_mode(True):
            Cp = m(xs).covariance_matrix
        with S.observation_nan_policy(case["policy"]):
            try:
                post = m(xs)
                Cq, vq = post.covariance_matrix, post.variance
                Cm = lik(post).covariance_matrix
            except Exception as e:
                ctx.fail("nan_policy_posterior_psd", f"prediction under policy {case['policy']} raised {type(e).__name__}: {str(e)[:140]}", "raise", exc=type(e).__name__, **kw)
                ctx.cell({k: v for k, v in case.items() if k != "seed"})
                return
        vfull = mf(xs).variance
    _psd_report(ctx, "nan_policy_posterior_psd", Cq, f"posterior covariance under NaN policy {case['policy']}", **kw)
    _psd_report(ctx, "nan_policy_posterior_psd", Cm, f"marginal covariance under NaN policy {case['policy']}", **kw)
    Dm = Cp - Cq
    ev = torch.linalg.eigvalsh(0.5 * (Dm + Dm.T))
    rel = float(ev.min() / Cp.abs().max().clamp_min(1e-300))
    ctx.expect("prior_minus_posterior_psd", rel >= -max(1e-6 if case["fast_pred_var"] else PSD_TOL, 1e-8), f"prior - posterior covariance (policy {case['policy']}) has lambda_min/|prior| = {rel:.3e}", rel_min_eig=rel, **kw)
    slack = 1e-8 * vq.abs().max() + (1e-6 if case["fast_pred_var"] else 1e-10)
    ctx.expect("nested_data_variance_monotone", bool((vfull <= vq + slack).all()), f"variance with all {n} targets observed exceeds the variance with {len(miss)} of them missing (policy {case['policy']}): max excess {float((vfull - vq).max()):.3e}", **kw)
    ctx.cell({k: v for k, v in case.items() if k != "seed"})


def _svgp(case, ctx, g):
    import torch

    from vf import util
    from vf.checks import c14

    m = c14._mk_model(case["strategy"], case["dist"], [], [], g)
    X = torch.cat([util.randn(g, 5, 2), util.randn(g, 1, 2).expand(2, 2)])  # a duplicated input row
    with torch.no_grad():
        m.eval()
        out = m(X)
        _ = out.variance
        m.train()
        _ = m(X).variance
    ctx.cell({k: v for k, v in case.items() if k != "seed"})


def _svgp_multitask(case, ctx, g):
    """multi-output variational models: the covariance handed out for inputs assigned to tasks (task_indices) and for the
    full multitask output is symmetric PSD"""
    import torch

    import gpytorch
    from vf import util
    from vf.checks import c14

    V = gpytorch.variational
    T, Lat = 3, (3 if case["wrapper"] == "indep" else 2)
    Z = util.randn(g, Lat, 4, 2)

    class Mdl(gpytorch.models.ApproximateGP):
        def __init__(s):
            vd = V.CholeskyVariationalDistribution(4, batch_shape=torch.Size([Lat]))
            base = V.VariationalStrategy(s, Z, vd, learn_inducing_locations=True)
            vs = V.IndependentMultitaskVariationalStrategy(base, num_tasks=T) if case["wrapper"] == "indep" else V.LMCVariationalStrategy(base, num_tasks=T, num_latents=Lat, latent_dim=-1)
            super().__init__(vs)
            s.mean_module = gpytorch.means.ConstantMean(batch_shape=torch.Size([Lat]))
            s.covar_module = gpytorch.kernels.ScaleKernel(gpytorch.kernels.RBFKernel(batch_shape=torch.Size([Lat])), batch_shape=torch.Size([Lat]))

        def forward(s, x):
            return gpytorch.distributions.MultivariateNormal(s.mean_module(x), s.covar_module(x))

    m = Mdl()
    util.randomize(m.mean_module, g, 0.7)
    util.randomize(m.covar_module, g, 0.8)  # clearly different GPs per latent
    c14._randomize_vd(m.variational_strategy.base_variational_strategy._variational_distribution, "CholeskyVariationalDistribution", g)
    for mod in m.modules():
        if hasattr(mod, "variational_params_initialized"):
            mod.variational_params_initialized.fill_(1)
    X = util.randn(g, 6, 2)
    ti = torch.tensor([0, 2, 1, 1, 0, 2])
    with torch.no_grad():
        for mode in ("eval", "train"):
            getattr(m, mode)()
            full = m(X)
            _psd_report(ctx, "multitask_variational_covariance_psd", full.covariance_matrix, f"{case['wrapper']} multitask q(f), {mode} mode", wrapper=case["wrapper"], mode=mode)
            sub = m(X, task_indices=ti)
            _psd_report(ctx, "multitask_variational_covariance_psd", sub.covariance_matrix, f"{case['wrapper']} q(f) with task_indices, {mode} mode", wrapper=case["wrapper"], mode=mode, task_indices=True)
            ctx.expect("history_variance_nonnegative", bool((sub.variance >= 0).all()), "negative variance with task_indices")
    ctx.cell({k: v for k, v in case.items() if k != "seed"})


def _noise(case, ctx, g):
    import torch

    import gpytorch
    from gpytorch import settings as S
    from gpytorch.distributions import MultivariateNormal as MVN
    from vf import util

    L = gpytorch.likelihoods
    n = 5
    d = MVN(torch.zeros(n), torch.eye(n))
    if case["lik"] == "gauss":
        lik = L.GaussianLikelihood()
        with torch.no_grad():
            lik.raw_noise.fill_(-60.0)  # far below: the constraint's lower bound must still hold
        lb = float(lik.noise_covar.raw_noise_constraint.lower_bound)
        add = torch.diagonal(lik(d).covariance_matrix - d.covariance_matrix)
        ctx.expect("noise_floor", bool((add >= lb * (1 - 1e-6)).all()) and bool((lik.noise >= lb * (1 - 1e-12)).all()), f"noise {float(add.min()):.3e} below the constraint's lower bound {lb}")
    elif case["lik"] in ("hetero", "hetero_indices"):
        # noise predicted by a GP (its posterior mean is negative here): what is added is the constrained value (>= 1e-4), with
        # and without the documented `noise_indices` selection
        Xh = util.randn(g, n, 2)
        nm = util.GP(Xh, torch.full((n,), -3.0) + 0.1 * util.randn(g, n), L.GaussianLikelihood(), util.build_mean("constant", 2), util.build_kernel({"k": "rbf"}, 2))
        idx = torch.arange(n).flip(0) if case["lik"] == "hetero_indices" else None
        lik = L.gaussian_likelihood._GaussianLikelihoodBase(L.noise_models.HeteroskedasticNoise(nm, noise_indices=idx))
        with torch.no_grad():
            out = lik(d, Xh)
            add = torch.diagonal(out.covariance_matrix - d.covariance_matrix)
            nm.eval()
            raw = nm(Xh).mean
        ctx.expect("noise_floor", bool((add >= 1e-4 * (1 - 1e-6)).all()), f"heteroskedastic noise {float(add.min()):.3e} below the constraint's lower bound 1e-4 (raw noise-GP mean {float(raw.min()):.2f})", where=case["lik"])
        ref = torch.nn.functional.softplus(raw if idx is None else raw[idx]) + 1e-4
        ctx.close("noise_floor", add, ref, (1e-9, 1e-9), cls="hetero:" + case["lik"])
        _psd_report(ctx, "marginal_psd", out.covariance_matrix, "marginal covariance under heteroskedastic noise", lik=case["lik"])
    elif case["lik"] in ("fixed", "fixed+learn"):
        tiny = torch.full((n,), 1e-12)
        lik = L.FixedNoiseGaussianLikelihood(noise=tiny, learn_additional_noise=case["lik"] == "fixed+learn")
        mfn = S.min_fixed_noise.value(torch.double)
        add = torch.diagonal(lik(d).covariance_matrix - d.covariance_matrix)
        ctx.expect("noise_floor", bool((add >= mfn * (1 - 1e-6)).all()), f"fixed noise {float(add.min()):.3e} below min_fixed_noise {mfn}")
        # the likelihood of a fantasy model carries the fantasy noise: same floor
        fl = lik.get_fantasy_likelihood(noise=torch.tensor([0.0, 1e-12, 0.3]))
        d8 = MVN(torch.zeros(n + 3), torch.eye(n + 3))
        addf = torch.diagonal(fl(d8).covariance_matrix - d8.covariance_matrix)
        ctx.expect("noise_floor", bool((addf >= mfn * (1 - 1e-6)).all()), f"fantasy-likelihood noise {float(addf.min()):.3e} below min_fixed_noise {mfn}", where="fantasy_likelihood")
        Xf, yf = util.randn(g, n, 2), util.randn(g, n)
        gp = util.GP(Xf, yf, L.FixedNoiseGaussianLikelihood(noise=torch.full((n,), 0.1)), util.build_mean("zero", 2), util.build_kernel({"k": "rbf"}, 2))
        gp.eval()
        with torch.no_grad():
            gp(Xf[:2])
            fm = gp.get_fantasy_model(util.randn(g, 2, 2), util.randn(g, 2), noise=torch.tensor([0.0, 1e-13]))
            addm = fm.likelihood.noise
        ctx.expect("noise_floor", bool((addm >= mfn * (1 - 1e-6)).all()), f"fantasy model's likelihood noise {float(addm.min()):.3e} below min_fixed_noise {mfn}", where="fantasy_model")
        with S.min_fixed_noise(double_value=1e-2):
            lik2 = L.FixedNoiseGaussianLikelihood(noise=tiny)
            add2 = torch.diagonal(lik2(d).covariance_matrix - d.covariance_matrix)
            ctx.expect("noise_floor", bool((add2 >= 1e-2 * (1 - 1e-6)).all()), f"fixed noise {float(add2.min()):.3e} below raised min_fixed_noise 1e-2")
    else:
        from gpytorch.distributions import MultitaskMultivariateNormal as MT

        lik = L.MultitaskGaussianLikelihood(num_tasks=2, rank=1)
        util.randomize(lik, g, 2.0)
        dm = MT(torch.zeros(n, 2), torch.eye(2 * n))
        R = lik(dm).covariance_matrix - dm.covariance_matrix
        _psd_report(ctx, "noise_floor", R, "multitask noise operator")
        lb = float(lik.raw_noise_constraint.lower_bound)
        ctx.expect("noise_floor", bool((torch.linalg.eigvalsh(R).min() >= lb * (1 - 1e-9))), "multitask noise smaller than the global noise lower bound")
    ctx.cell({k: v for k, v in case.items() if k != "seed"})
