"""C19 - hand-written derivatives are the true derivatives.

Monitors wrap the real forward/backward of RBFCovariance, MaternCovariance, LogNormalCDF, _NaturalToMuVarSqrt,
_TrilNaturalToMuVarSqrt and _NgdInterpTerms: inputs, upstream gradients and RETURNED gradients are recorded at the autograd
boundary and compared with (i) autograd through an independent re-implementation (the C05 oracle kernels; mpmath/torch
log_ndtr; the explicit expectation-parameter map for the natural parameterisations = the natural gradient), (ii) float64
central finite differences of the recorded forward, (iii) the generic autograd path of the same kernel.  Anomaly detection
is on during every backward pass.
"""
import itertools
import random

PROPERTY = "C19"
RULE = (
    'case kinds: (kernel) RBF / Matern nu in {.5,1.5,2.5} x batch shape x lengthscale regime x coincident rows yes/no x random upstream gradient; '
    '(logcdf) z chunks incl. both branch borders and tails; (natural / trilnatural) batch shape x M x random upstream; (ciq) _NgdInterpTerms x '
    'batch; (kernel_xgrad) d K(x1,x2)/d x1 for x2 in {other tensor, same object, equal copy} x {lazy, eager, trace}; (testgrad) exact GP / SVGP '
    'posterior mean+variance w.r.t. test inputs vs finite differences; distinct = cell without seed; non-trivial iff the reference gradient is > '
    '1e-8 somewhere'
    '; pass 5: every hand-written backward must leave its upstream gradient untouched; lengthscales below eps; sums / products of fast-path kernels and caller-owned grad_outputs'
    "; pass 6: far lower tail of log Phi in float64 (to -1e6) and float32 (to -3e3); tril-natural states with negative factor diagonals, gradients on the returned factor's branch"
    "; pass 8: test-input gradients under fast_pred_var (cold and warm caches, covariance term) and for a Matern kernel whose nu was reassigned after construction"
    "; pass 10: lengthscales of order 1e6 (gradients compared relatively); inputs that are different views of one buffer"
)
REQUIRED = ["input_gradient_matches_oracle", "fast_backward_matches_oracle", "fast_equals_generic", "fast_backward_matches_fd", "logcdf_backward", "natural_backward_is_natural_gradient", "tril_natural_backward", "ciq_ngd_backward", "test_input_gradient", "monitor:RBFCovariance.backward", "monitor:MaternCovariance.backward"]
ASSUMPTIONS = ["at coincident points (r = 0) Matern-1/2 is not differentiable: the generic path's sub-gradient convention (0 contribution) is the reference there", "finite differences: central, step 1e-6, compared at 1e-5 relative"]
ANCHOR_FILES = ["gpytorch/functions/", "gpytorch/variational/natural_variational_distribution.py", "gpytorch/variational/tril_natural_variational_distribution.py", "gpytorch/variational/ciq_variational_strategy.py", "gpytorch/kernels/rbf_kernel.py", "gpytorch/kernels/matern_kernel.py"]


def cases(tier, seed):
    rnd = random.Random(19000 + seed)
    reps = 2 if tier == "quick" else 100
    for _ in range(reps):
        for kern, b, regime, coinc in itertools.product(["rbf", "matern0.5", "matern1.5", "matern2.5"], [[], [2], [3, 2]], ["mid", "small", "large"], [False, True]):
            yield {"kind": "kernel", "kernel": kern, "batch": b, "regime": regime, "coincident": coinc, "seed": rnd.randrange(10**6)}
        # lengthscales below the kernels' `eps` (1e-6), inputs on that scale: still the same formula
        for kern, b in itertools.product(["rbf", "matern0.5", "matern1.5", "matern2.5"], [[], [2]]):
            yield {"kind": "kernel", "kernel": kern, "batch": b, "regime": "below_eps", "coincident": False, "seed": rnd.randrange(10**6)}
        # lengthscales that dwarf the data spread (k close to 1 everywhere), and inputs that are DIFFERENT VIEWS of one buffer
        # (same first element, other strides / extents): the same formulas
        for kern, b in itertools.product(["rbf", "matern0.5", "matern1.5", "matern2.5"], [[], [2]]):
            yield {"kind": "kernel", "kernel": kern, "batch": b, "regime": "huge", "coincident": False, "seed": rnd.randrange(10**6)}
            for views in ("step_vs_prefix", "transposed_square", "expanded_row"):
                yield {"kind": "kernel", "kernel": kern, "batch": b, "regime": "mid", "coincident": False, "views": views, "seed": rnd.randrange(10**6)}
        # sums / products of fast-path kernels: one upstream gradient tensor reaches several hand-written backward functions
        for combo, how in itertools.product([["rbf", "matern2.5"], ["matern1.5", "rbf"], ["matern2.5", "matern0.5", "rbf"], ["rbf", "rbf"]], ["sum", "prod", "grad_outputs"]):
            yield {"kind": "kernel_combo", "parts": combo, "how": how, "seed": rnd.randrange(10**6)}
        for kern, rel, b in itertools.product(["rbf", "matern1.5", "matern2.5", "rq", "periodic", "scale_matern2.5"], ["diff", "same_object", "equal_copy", "equal_copy_both_grad"], [[], [2]]):
            yield {"kind": "kernel_xgrad", "kernel": kern, "rel": rel, "batch": b, "seed": rnd.randrange(10**6)}
        for c in range(3):
            yield {"kind": "logcdf", "chunk": c, "seed": rnd.randrange(10**6)}
        for b, M in itertools.product([[], [2], [3, 2]], [1, 3, 5]):
            yield {"kind": "natural", "batch": b, "M": M, "seed": rnd.randrange(10**6)}
            yield {"kind": "trilnatural", "batch": b, "M": M, "seed": rnd.randrange(10**6)}
        for b in ([], [2]):
            yield {"kind": "ciq", "batch": b, "seed": rnd.randrange(10**6)}
        for model in ("exact_rbf", "exact_matern", "svgp"):
            yield {"kind": "testgrad", "model": model, "seed": rnd.randrange(10**6)}
        # the same under fast predictive variances (cold and warm caches), and for a Matern kernel whose smoothness was
        # reassigned after construction (`nu` is a public attribute; the no-grad forward takes the hand-written path)
        for model, warm in itertools.product(("exact_rbf", "exact_matern"), (False, True)):
            yield {"kind": "testgrad", "model": model, "fast_pred_var": True, "warm": warm, "seed": rnd.randrange(10**6)}
        for nu0, nu1 in ((2.5, 1.5), (1.5, 2.5), (2.5, 0.5)):
            yield {"kind": "testgrad", "model": "exact_matern", "nu": [nu0, nu1], "fast_pred_var": rnd.random() < 0.5, "seed": rnd.randrange(10**6)}


_ST = {"rec": None}


def setup(ctx):
    import gpytorch
    from gpytorch.functions import MaternCovariance, RBFCovariance
    from gpytorch.functions._log_normal_cdf import LogNormalCDF
    from gpytorch.variational.ciq_variational_strategy import _NgdInterpTerms
    from gpytorch.variational.natural_variational_distribution import _NaturalToMuVarSqrt
    from gpytorch.variational.tril_natural_variational_distribution import _TrilNaturalToMuVarSqrt
    from vf import attach

    _ST["ctx"] = ctx
    for cls in (RBFCovariance, MaternCovariance, LogNormalCDF, _NaturalToMuVarSqrt, _TrilNaturalToMuVarSqrt, _NgdInterpTerms):
        name = cls.__name__

        def mk(name):
            def after(a, k, out, tok):
                ctx.hit(f"monitor:{name}.backward")
                if _ST["rec"] is not None:
                    ups = [x.detach().clone() if hasattr(x, "detach") else x for x in a[1:]]
                    outs = [x.detach().clone() if hasattr(x, "detach") else x for x in (out if isinstance(out, tuple) else (out,))]
                    _ST["rec"].append((name, ups, outs))

            return after

        def mkb(name):
            def before(a, k):
                return [(x, x.detach().clone()) for x in a[1:] if hasattr(x, "detach")]

            return before

        def mka(name, inner):
            def after(a, k, out, tok):
                for x, snap in tok or []:
                    ctx.expect("backward_keeps_upstream_gradient", bool(__import__("torch").equal(x.detach(), snap)), f"{name}.backward changed the upstream gradient tensor it was given in place", function=name)
                inner(a, k, out, tok)

            return after

        attach.wrap(cls, "backward", before=mkb(name), after=mka(name, mk(name)))
        attach.count(cls, "forward", ctx, f"monitor:{name}.forward")


def run_case(case, ctx):
    from vf import util

    g = util.gen(case["seed"])
    return {"kernel": _kernel, "kernel_xgrad": _kernel_xgrad, "kernel_combo": _kernel_combo, "logcdf": _logcdf, "natural": _natural, "trilnatural": _tril, "ciq": _ciq, "testgrad": _testgrad}[case["kind"]](case, ctx, g)


def _kernel(case, ctx, g):
    import torch

    import gpytorch
    from gpytorch import settings as S
    from vf import util
    from vf.oracle import kernels as O

    b = case["batch"]
    name = case["kernel"]
    K = gpytorch.kernels
    kern = K.RBFKernel(batch_shape=torch.Size(b)) if name == "rbf" else K.MaternKernel(nu=float(name[6:]), batch_shape=torch.Size(b))
    ls = {"mid": 0.7, "small": 0.08, "large": 6.0, "below_eps": 4e-7, "huge": 3e6}[case["regime"]] * (1 + util.rand(g, *b, 1, 1))
    kern.lengthscale = ls
    n1, n2, d = 5, 4, 3
    x1 = util.randn(g, *b, n1, d)
    x2 = util.randn(g, *b, n2, d)
    if case["regime"] == "below_eps":
        x1, x2 = x1 * 4e-7, x2 * 4e-7
    if case.get("views") == "step_vs_prefix":
        base = util.randn(g, *b, 2 * n1, d)
        x1, x2 = base[..., ::2, :], base[..., :n2, :]  # same first row, other strides
    elif case.get("views") == "transposed_square":
        base = util.randn(g, *b, d, d)
        x1, x2 = base, base.transpose(-1, -2)  # a square block and its transpose: one storage, one data pointer
        n1 = n2 = d
    elif case.get("views") == "expanded_row":
        row = util.randn(g, *b, 1, d)
        x1, x2 = row.expand(*b, n1, d), torch.cat([row, util.randn(g, *b, n2 - 1, d)], -2)
    if case["coincident"]:
        x2 = torch.cat([x1[..., :2, :], x2[..., 2:, :]], -2)  # two exactly coincident pairs (r = 0)
    G = util.randn(g, *b, n1, n2)
    raw = kern.raw_lengthscale
    cls = f"{name}:{case['regime']}{':r0' if case['coincident'] else ''}"
    _ST["rec"] = []
    with S.lazily_evaluate_kernels(False), torch.autograd.set_detect_anomaly(True):
        out_fast = kern(x1, x2).to_dense()
        (g_fast,) = torch.autograd.grad((out_fast * G).sum(), raw, retain_graph=True)
        (g_again,) = torch.autograd.grad((out_fast * G).sum(), raw)
        ctx.expect("backward_repeatable", bool(torch.equal(g_fast, g_again)), f"{name}: a second backward through the same graph returned another gradient", function="kernel")
        rec = _ST["rec"]
        _ST["rec"] = None
        with S.trace_mode(True):
            out_gen = kern(x1, x2).to_dense()
            (g_gen,) = torch.autograd.grad((out_gen * G).sum(), raw)
    ctx.expect("fast_path_taken", len(rec) == 2, f"hand-written backward ran {len(rec)} times on the fast path (two backward passes were requested)")
    ctx.close("fast_equals_generic", out_fast, out_gen, (1e-12, 1e-12), cls=cls + ":value")
    # (with a huge lengthscale the gradient itself is of order r^2 / l^3: compared relatively)
    ctx.close("fast_equals_generic", g_fast, g_gen, (1e-9, 1e-9) if case["regime"] != "huge" else (1e-40, 1e-6), cls=cls + ":grad")
    # independent re-implementation (C05 oracle formula) differentiated by autograd
    raw2 = raw.detach().clone().requires_grad_(True)

    class Shim:
        pass

    sh = Shim()
    sh.lengthscale = kern.raw_lengthscale_constraint.transform(raw2)
    sh.nu = getattr(kern, "nu", None)

    class Det:
        def __init__(s, t):
            s.t = t

        def detach(s):
            return s.t

    sh.lengthscale = Det(sh.lengthscale)
    if name == "rbf":
        ref = O.rbf(sh, x1, x2)
    else:
        import math

        # Matern written in r with a sqrt that is safe at r = 0 (sub-gradient 0 there, the generic path's convention)
        r2 = O._r2(sh, x1, x2)
        pos = r2 > 0
        r = torch.where(pos, torch.where(pos, r2, torch.ones_like(r2)).sqrt(), torch.zeros_like(r2))
        s_ = math.sqrt(2 * sh.nu) * r
        ref = {0.5: torch.exp(-s_), 1.5: (1 + s_) * torch.exp(-s_), 2.5: (1 + s_ + s_**2 / 3) * torch.exp(-s_)}[sh.nu]
    (g_ref,) = torch.autograd.grad((ref * G).sum(), raw2)
    tolg = (1e-8, 1e-8) if name != "matern0.5" else (1e-6, 1e-7)
    ctx.close("fast_backward_matches_oracle", g_fast, g_ref, tolg, cls=cls)
    ctx.close("fast_value_matches_oracle", out_fast, ref, (1e-7, 1e-7) if name == "matern0.5" else (1e-9, 1e-9), cls=cls)
    # central finite differences of the library forward (per batch element of the raw parameter)
    with torch.no_grad(), S.lazily_evaluate_kernels(False):
        fd = torch.zeros_like(raw)
        h = 1e-6
        flat = raw.detach().clone().reshape(-1)
        for i in range(flat.numel()):
            for sgn in (1, -1):
                p = flat.clone()
                p[i] += sgn * h
                kern.raw_lengthscale.copy_(p.reshape(raw.shape))
                val = (kern(x1, x2).to_dense() * G).sum()
                fd.reshape(-1)[i] += sgn * val / (2 * h)
        kern.raw_lengthscale.copy_(flat.reshape(raw.shape))
    ctx.close("fast_backward_matches_fd", g_fast, fd, (1e-5, 1e-5) if not (name == "matern0.5" and case["coincident"]) else (1e-3, 1e-3), cls=cls)
    ctx.cell({k: v for k, v in case.items() if k != "seed"}, nontrivial=float(g_ref.abs().max()) > 1e-8)


def _kernel_combo(case, ctx, g):
    """several fast-path kernels fed by ONE upstream gradient (sum), by each other's values (product), or by a gradient
    tensor the caller owns (grad_outputs=W): every parameter's gradient equals the generic autograd path's, W is left alone"""
    import torch

    import gpytorch
    from gpytorch import settings as S
    from vf import util

    K = gpytorch.kernels
    parts = [K.RBFKernel() if p == "rbf" else K.MaternKernel(nu=float(p[6:])) for p in case["parts"]]
    for k_ in parts:
        k_.lengthscale = 0.4 + float(util.rand(g, 1)) * 1.5
    kern = parts[0]
    for k_ in parts[1:]:
        kern = (kern * k_) if case["how"] == "prod" else (kern + k_)
    x1, x2 = util.randn(g, 5, 2), util.randn(g, 4, 2)
    W = util.randn(g, 5, 4)
    W0 = W.clone()
    params = [k_.raw_lengthscale for k_ in parts]
    cls = "+".join(case["parts"]) + ":" + case["how"]

    def grads(trace):
        with S.lazily_evaluate_kernels(False), S.trace_mode(trace), torch.autograd.set_detect_anomaly(True):
            out = kern(x1, x2).to_dense()
            if case["how"] == "grad_outputs":
                g1 = torch.autograd.grad(out, params, grad_outputs=W, retain_graph=True)
                g2 = torch.autograd.grad(out, params, grad_outputs=W)
                return out.detach(), g1, g2
            g1 = torch.autograd.grad((out * W).sum(), params, retain_graph=True)
            g2 = torch.autograd.grad((out * W).sum(), params)
            return out.detach(), g1, g2

    of, gf, gf2 = grads(False)
    og, gg, _ = grads(True)
    ctx.expect("backward_keeps_upstream_gradient", bool(torch.equal(W, W0)), f"{cls}: the caller's grad_outputs tensor was modified by a backward pass", function="kernel_combo")
    ctx.close("fast_equals_generic", of, og, (1e-12, 1e-12), cls="combo:" + cls + ":value")
    for i, (a_, b_, c_) in enumerate(zip(gf, gg, gf2)):
        ctx.close("fast_equals_generic", a_, b_, (1e-9, 1e-9), cls="combo:" + cls + ":grad", part=case["parts"][i])
        ctx.expect("backward_repeatable", bool(torch.equal(a_, c_)), f"{cls}: a second backward through the same graph returned another gradient for part {i}", function="kernel_combo")
    ctx.cell({k: v for k, v in case.items() if k != "seed"})


def _kernel_xgrad(case, ctx, g):
    """gradient of a kernel matrix with respect to its FIRST argument (test inputs, learnable inducing points), when the
    second argument is another tensor, the same tensor object, or a distinct tensor holding equal values (then only the
    first role moves). Reference: autograd through the C05 oracle formulas."""
    import torch

    import gpytorch
    from gpytorch import settings as S
    from vf import util
    from vf.oracle import kernels as O

    K = gpytorch.kernels
    b, name = case["batch"], case["kernel"]
    B = torch.Size(b)
    kern = {"rbf": lambda: K.RBFKernel(batch_shape=B), "matern1.5": lambda: K.MaternKernel(nu=1.5, batch_shape=B), "matern2.5": lambda: K.MaternKernel(nu=2.5, batch_shape=B),
            "rq": lambda: K.RQKernel(batch_shape=B), "periodic": lambda: K.PeriodicKernel(batch_shape=B), "scale_matern2.5": lambda: K.ScaleKernel(K.MaternKernel(nu=2.5, batch_shape=B), batch_shape=B)}[name]()
    util.randomize(kern, g, 0.4)
    n, d = 4, 2
    x1 = util.randn(g, *b, n, d).requires_grad_(True)
    rel = case["rel"]
    if rel == "diff":
        x2 = util.randn(g, *b, 3, d)
    elif rel == "same_object":
        x2 = x1
    else:
        x2 = x1.detach().clone().requires_grad_(rel == "equal_copy_both_grad")
    G = util.randn(g, *b, n, x2.shape[-2])

    def safe_matern(k_, a, c):
        import math

        r2 = O._r2(k_, a, c)
        pos = r2 > 0
        r = torch.where(pos, torch.where(pos, r2, torch.ones_like(r2)).sqrt(), torch.zeros_like(r2))
        s_ = math.sqrt(2 * k_.nu) * r
        return {1.5: (1 + s_) * torch.exp(-s_), 2.5: (1 + s_ + s_**2 / 3) * torch.exp(-s_)}[k_.nu]

    def oracle(a, c):
        if name.startswith("matern"):
            return safe_matern(kern, a, c)
        if name == "scale_matern2.5":
            o = kern.outputscale.detach()
            return o.reshape(*o.shape, 1, 1) * safe_matern(kern.base_kernel, a, c)
        return O.dense(kern, a, c)

    a = x1.detach().clone().requires_grad_(True)
    c = a if rel == "same_object" else x2.detach().clone()
    (g_ref,) = torch.autograd.grad((oracle(a, c) * G).sum(), a)
    for mode, ctxs in (("lazy", [S.lazily_evaluate_kernels(True)]), ("eager", [S.lazily_evaluate_kernels(False)]), ("trace", [S.trace_mode(True)])):
        import contextlib

        with contextlib.ExitStack() as st:
            for c_ in ctxs:
                st.enter_context(c_)
            out = kern(x1, x2).to_dense()
            (g_got,) = torch.autograd.grad((out * G).sum(), x1, allow_unused=True)
        g_got = torch.zeros_like(x1) if g_got is None else g_got
        ctx.close("input_gradient_matches_oracle", g_got, g_ref, (1e-7, 1e-7), cls=f"{name}:{rel}:{mode}", rel=rel, mode=mode, kernel=name)
    ctx.cell({k: v for k, v in case.items() if k != "seed"})


def _logcdf(case, ctx, g):
    import mpmath as mp
    import torch

    from gpytorch.functions import log_normal_cdf
    from vf import util

    mp.mp.dps = 30
    base = [torch.linspace(-30, -1.0001, 60), torch.linspace(-0.9999, -0.2001, 40), torch.linspace(-0.1999, 0.1999, 40), torch.linspace(0.2001, 9, 40)]
    z = torch.cat(base)[case["chunk"] :: 3].clone()
    z = torch.cat([z, torch.tensor([-1.0, -0.2, 0.2, 0.0, -1.0 - 1e-12, -1.0 + 1e-12])]).requires_grad_(True)
    up = util.randn(g, z.numel())
    _ST["rec"] = []
    with torch.autograd.set_detect_anomaly(True):
        out = log_normal_cdf(z)
        (gr,) = torch.autograd.grad(out, z, up, retain_graph=True)
        (gr2,) = torch.autograd.grad(out, z, up, retain_graph=True)
        (gr3,) = torch.autograd.grad(out, z, 2 * up)
        ctx.expect("backward_repeatable", bool(torch.equal(gr, gr2)) and bool(torch.allclose(gr3, 2 * gr, rtol=1e-12, atol=0)), "LogNormalCDF: a second / third backward through the same graph returned another gradient", function="LogNormalCDF")
    _ST["rec"] = None
    ref = torch.tensor([float(mp.npdf(mp.mpf(t)) / mp.ncdf(mp.mpf(t))) for t in z.detach().tolist()]) * up
    rel = ((gr - ref).abs() / (ref.abs() + 1e-300)).max()
    ctx.expect("logcdf_backward", bool(rel <= 2e-3), f"max relative error of the delivered gradient vs phi/Phi: {float(rel):.3e}")
    hi = z.detach() >= -1
    relhi = ((gr - ref).abs()[hi] / (ref.abs()[hi] + 1e-300)).max()
    ctx.expect("logcdf_backward", bool(relhi <= 1e-9), f"z>=-1: max relative error {float(relhi):.3e}", region="z>=-1")
    # derivative of the function ACTUALLY computed in the forward pass: finite differences of the forward, away from the branch borders
    zz = z.detach()
    away = ((zz + 1).abs() > 1e-3) & ((zz.abs() - 0.2).abs() > 1e-3)
    h = 1e-6
    with torch.no_grad():
        fd = (log_normal_cdf(zz + h) - log_normal_cdf(zz - h)) / (2 * h) * up
    relfd = ((gr - fd).abs()[away] / (2e-3 * fd.abs()[away] + 1e-6)).max()
    ctx.expect("logcdf_backward_fd", bool(relfd <= 1), f"gradient vs finite differences of the forward: max error / (2e-3 |fd| + 1e-6) = {float(relfd):.3e}")
    # far lower tail, double and single precision: the derivative phi/Phi ~ -z there; its relative accuracy is the statement's
    # 2e-3 whatever the magnitude of z and the dtype (nothing may cancel catastrophically)
    for dt, zmax in ((torch.float64, 1e6), (torch.float32, 3e3)):
        zt = (-torch.logspace(1.5, float(torch.log10(torch.tensor(zmax))), 25, dtype=torch.float64)).to(dt).requires_grad_(True)
        ot = log_normal_cdf(zt)
        (gt,) = torch.autograd.grad(ot.sum(), zt)
        reft = torch.tensor([float(mp.npdf(mp.mpf(float(t))) / mp.ncdf(mp.mpf(float(t)))) for t in zt.detach().double().tolist()])
        relt = ((gt.double() - reft).abs() / reft.abs()).max()
        ctx.expect("logcdf_backward", bool(torch.isfinite(gt).all()) and bool(relt <= 2e-3), f"far tail ({str(dt)[6:]}, z down to {-zmax:g}): max relative error of the gradient {float(relt):.3e}", region="far_tail", dtype=str(dt))
        reff = torch.tensor([float(mp.log(mp.ncdf(mp.mpf(float(t))))) for t in zt.detach().double().tolist()])
        ctx.expect("logcdf_value_far_tail", bool(((ot.double().detach() - reff).abs() <= 2e-3 + 2e-6 * reff.abs() * (1 if dt == torch.float32 else 1e-3)).all()), f"far tail ({str(dt)[6:]}): log Phi deviates by {float((ot.double().detach() - reff).abs().max()):.3e}", region="far_tail", dtype=str(dt))
    ctx.cell({k: v for k, v in case.items() if k != "seed"})


def _natural(case, ctx, g):
    import torch

    from gpytorch.variational.natural_variational_distribution import _NaturalToMuVarSqrt
    from vf import util

    b, M = case["batch"], case["M"]
    A = util.randn(g, *b, M, M)
    P = A @ A.transpose(-1, -2) + M * torch.eye(M)
    th1 = util.randn(g, *b, M).requires_grad_(True)
    th2 = (-0.5 * P).requires_grad_(True)
    with torch.autograd.set_detect_anomaly(True):
        mu, L = _NaturalToMuVarSqrt.apply(th1, th2)
        Sref = torch.linalg.inv(P)
        ctx.close("natural_forward", mu, (Sref @ th1.detach().unsqueeze(-1)).squeeze(-1), (1e-9, 1e-9))
        ctx.close("natural_forward", L @ L.transpose(-1, -2), Sref, (1e-9, 1e-9))
        g_mu, g_L = util.randn(g, *b, M), torch.tril(util.randn(g, *b, M, M))
        d1, d2 = torch.autograd.grad([mu, L], [th1, th2], [g_mu, g_L], retain_graph=True)
        e1, e2 = torch.autograd.grad([mu, L], [th1, th2], [g_mu, g_L])
        ctx.expect("backward_repeatable", bool(torch.equal(d1, e1)) and bool(torch.equal(d2, e2)), "_NaturalToMuVarSqrt: a second backward through the same graph returned another gradient", function="natural")
    r1, r2 = _expectation_grad(mu.detach(), Sref, g_mu, g_L)
    ctx.close("natural_backward_is_natural_gradient", d1, r1, (1e-8, 1e-8), cls="natural:eta1", batch=b)
    ctx.close("natural_backward_is_natural_gradient", d2, r2, (1e-8, 1e-8), cls="natural:eta2", batch=b)
    # objectives that use only ONE of the two outputs (a predictive variance depends on q(u) through its covariance
    # alone), and one of the two parameters frozen: still the natural gradient of that objective
    for which in ("only_L", "only_mu", "frozen_mat", "frozen_vec"):
        a1 = th1.detach().clone().requires_grad_(which != "frozen_vec")
        a2 = th2.detach().clone().requires_grad_(which != "frozen_mat")
        mu_, L_ = _NaturalToMuVarSqrt.apply(a1, a2)
        gm_ = None if which == "only_L" else g_mu
        gL_ = None if which == "only_mu" else g_L
        obj_ = (0 if gm_ is None else (mu_ * gm_).sum()) + (0 if gL_ is None else (L_ * gL_).sum())
        ins = [t_ for t_ in (a1, a2) if t_.requires_grad]
        got_ = torch.autograd.grad(obj_, ins, allow_unused=True)
        q1, q2 = _expectation_grad(mu.detach(), Sref, torch.zeros_like(g_mu) if gm_ is None else gm_, torch.zeros_like(g_L) if gL_ is None else gL_)
        want_ = [q_ for q_, t_ in ((q1, a1), (q2, a2)) if t_.requires_grad]
        for gi, wi, nm in zip(got_, want_, [n_ for n_, t_ in (("eta1", a1), ("eta2", a2)) if t_.requires_grad]):
            gi = torch.zeros_like(wi) if gi is None else gi
            ctx.close("natural_backward_is_natural_gradient", gi, wi, (1e-8, 1e-8), cls=f"natural:{nm}:{which}", batch=b, variant=which)
    ctx.cell({k: v for k, v in case.items() if k != "seed"})


def _expectation_grad(mu, S, g_mu, g_L, colsign=None):
    """gradient of <g_mu, mu(eta)> + <g_L, L(eta)> w.r.t. the expectation parameters eta1 = mu, eta2 = S + mu mu^T (eta2-gradient
    symmetrised). L(eta) is the lower-triangular factor of S on the branch of the current state: the Cholesky factor with its
    columns multiplied by `colsign` (+-1; all +1 when the factor has a positive diagonal)"""
    import torch

    eta1 = mu.clone().requires_grad_(True)
    eta2 = (S + mu.unsqueeze(-1) * mu.unsqueeze(-2)).clone().requires_grad_(True)
    S_e = eta2 - eta1.unsqueeze(-1) * eta1.unsqueeze(-2)
    L_e = torch.linalg.cholesky((S_e + S_e.transpose(-1, -2)) / 2)
    if colsign is not None:
        L_e = L_e * colsign.unsqueeze(-2)
    r1, r2 = torch.autograd.grad([eta1, L_e], [eta1, eta2], [g_mu, g_L])
    return r1, (r2 + r2.transpose(-1, -2)) / 2


def _tril(case, ctx, g):
    import torch

    from gpytorch.variational.tril_natural_variational_distribution import _TrilNaturalToMuVarSqrt
    from vf import util

    b, M = case["batch"], case["M"]
    # (a factor with negative diagonal entries is a valid state: the precision is T^T T; the library's own test builds such states)
    sg = (util.rand(g, *b, M) < (0.4 if case["seed"] % 2 else 0.0)).double() * -2 + 1
    T = (torch.tril(util.randn(g, *b, M, M)) * 0.4 + torch.diag_embed(2 * sg)).requires_grad_(True)
    t1 = util.randn(g, *b, M).requires_grad_(True)
    with torch.autograd.set_detect_anomaly(True):
        mu, L = _TrilNaturalToMuVarSqrt.apply(t1, T)
        Lref = torch.linalg.inv(T.detach())
        Sref = Lref @ Lref.transpose(-1, -2)
        # (any lower-triangular factor of S = (T^T T)^-1 is a correct forward value; the gradients below are those of the factor returned)
        ctx.close("tril_natural_forward", L @ L.transpose(-1, -2), Sref, (1e-9, 1e-9))
        ctx.expect("tril_natural_forward", bool((L.detach().triu(1) == 0).all()), "returned factor is not lower triangular")
        sg = torch.sign(torch.diagonal(L.detach(), dim1=-2, dim2=-1))
        ctx.close("tril_natural_forward", mu, (Sref @ t1.detach().unsqueeze(-1)).squeeze(-1), (1e-9, 1e-9))
        g_mu, g_L = util.randn(g, *b, M), torch.tril(util.randn(g, *b, M, M))
        d1, dT = torch.autograd.grad([mu, L], [t1, T], [g_mu, g_L], retain_graph=True)
        e1, eT = torch.autograd.grad([mu, L], [t1, T], [g_mu, g_L])
        ctx.expect("backward_repeatable", bool(torch.equal(d1, e1)) and bool(torch.equal(dT, eT)), "_TrilNaturalToMuVarSqrt: a second backward through the same graph returned another gradient", function="trilnatural")
    r1, r2 = _expectation_grad(mu.detach(), Sref, g_mu, g_L, colsign=sg)
    ctx.close("tril_natural_backward", d1, r1, (1e-8, 1e-8), cls="tril:eta1", batch=b)
    # the matrix part: the natural-gradient direction r2 (a perturbation of theta_mat = -1/2 T^T T) pushed forward through the chart
    # T(theta) = inv(chol(inv(-2 theta)))  (documented in the backward's docstring): directional derivative by autograd jvp
    theta = (-0.5 * T.detach().transpose(-1, -2) @ T.detach())

    def chart(th):
        Bm = torch.linalg.inv(-2.0 * th)
        # (branch of the current state: rows of the positive-diagonal factor carry the signs of the state's diagonal)
        return sg.unsqueeze(-1) * torch.linalg.inv(torch.linalg.cholesky((Bm + Bm.transpose(-1, -2)) / 2))

    _, jv = torch.autograd.functional.jvp(chart, (theta,), (r2,))
    ctx.close("tril_natural_backward", dT, jv, (1e-7, 1e-7), cls="tril:tril_mat", batch=b)
    # only one output used / the matrix parameter frozen: the vector part is still the natural gradient of that objective
    for which in ("only_L", "only_mu", "frozen_mat"):
        b1 = t1.detach().clone().requires_grad_(True)
        bT = T.detach().clone().requires_grad_(which != "frozen_mat")
        mu_, L_ = _TrilNaturalToMuVarSqrt.apply(b1, bT)
        gm_ = None if which == "only_L" else g_mu
        gL_ = None if which == "only_mu" else g_L
        obj_ = (0 if gm_ is None else (mu_ * gm_).sum()) + (0 if gL_ is None else (L_ * gL_).sum())
        (gv_,) = torch.autograd.grad(obj_, [b1], allow_unused=True)
        q1, _ = _expectation_grad(mu.detach(), Sref, torch.zeros_like(g_mu) if gm_ is None else gm_, torch.zeros_like(g_L) if gL_ is None else gL_, colsign=sg)
        ctx.close("tril_natural_backward", torch.zeros_like(q1) if gv_ is None else gv_, q1, (1e-8, 1e-8), cls=f"tril:eta1:{which}", batch=b, variant=which)
    ctx.cell({k: v for k, v in case.items() if k != "seed"})


def _ciq(case, ctx, g):
    import torch

    from gpytorch import settings as S
    from gpytorch.variational.ciq_variational_strategy import _NgdInterpTerms
    from vf import util

    b = case["batch"]
    M, N = 4, 3
    A = util.randn(g, *b, M, M)
    P = A @ A.transpose(-1, -2) + M * torch.eye(M)
    nat_vec = util.randn(g, *b, M).requires_grad_(True)
    nat_mat = (-0.5 * P).requires_grad_(True)
    t = util.randn(g, *b, M, N).requires_grad_(True)
    up_m, up_v, up_k = util.randn(g, *b, N), util.randn(g, *b, N), util.randn(g, *b) if b else util.randn(g, 1).squeeze(0)
    with S.cg_tolerance(1e-12), S.eval_cg_tolerance(1e-12), S.max_cg_iterations(500), torch.autograd.set_detect_anomaly(True):
        im, iv, kl = _NgdInterpTerms.apply(t, nat_vec, nat_mat)
        Sm = torch.linalg.inv(P)
        m = (Sm @ nat_vec.detach().unsqueeze(-1)).squeeze(-1)
        # forward and backward both solve with linear_operator's CG (accuracy floor ~1e-5, the "iter" tier of DESIGN section 3)
        ctx.close("ciq_forward", im, (t.detach().transpose(-1, -2) @ m.unsqueeze(-1)).squeeze(-1), (1e-4, 1e-4))
        ctx.close("ciq_forward", iv, (t.detach() * (Sm @ t.detach())).sum(-2), (1e-4, 1e-4))
        dt, d1, d2 = torch.autograd.grad([im, iv, kl], [t, nat_vec, nat_mat], [up_m, up_v, up_k], retain_graph=True)
        et, e1, e2 = torch.autograd.grad([im, iv, kl], [t, nat_vec, nat_mat], [up_m, up_v, up_k])
        ctx.expect("backward_repeatable", all(bool(torch.allclose(a_, b_, rtol=1e-9, atol=1e-12)) for a_, b_ in ((dt, et), (d1, e1), (d2, e2))), "_NgdInterpTerms: a second backward through the same graph returned another gradient", function="ciq")
    # oracle: the same three outputs as explicit functions of the expectation parameters (eta1 = m, eta2 = S + m m^T) and of t
    eta1 = m.clone().requires_grad_(True)
    eta2 = (Sm + m.unsqueeze(-1) * m.unsqueeze(-2)).clone().requires_grad_(True)
    t2 = t.detach().clone().requires_grad_(True)
    S_e = eta2 - eta1.unsqueeze(-1) * eta1.unsqueeze(-2)
    im_r = (t2.transpose(-1, -2) @ eta1.unsqueeze(-1)).squeeze(-1)
    iv_r = (t2 * (S_e @ t2)).sum(-2)
    kl_r = 0.5 * (-torch.logdet(S_e) + S_e.diagonal(dim1=-2, dim2=-1).sum(-1) + (eta1 * eta1).sum(-1) - M)
    rt, r1, r2 = torch.autograd.grad([im_r, iv_r, kl_r], [t2, eta1, eta2], [up_m, up_v, up_k])
    r2 = (r2 + r2.transpose(-1, -2)) / 2
    # the forward/backward solve with conjugate gradients: linear_operator's CG has an accuracy floor of ~1e-5 relative to the
    # right-hand side whatever cg_tolerance is (DESIGN section 3, "iter" tier); observed worst 6.4e-6 over 2000 cases
    tolc = (1e-4, 1e-4)
    ctx.close("ciq_ngd_backward", dt, rt, tolc, cls="ciq:interp_term", batch=b)
    ctx.close("ciq_ngd_backward", d1, r1, tolc, cls="ciq:eta1", batch=b)
    ctx.close("ciq_ngd_backward", (d2 + d2.transpose(-1, -2)) / 2, r2, tolc, cls="ciq:eta2", batch=b)
    ctx.cell({k: v for k, v in case.items() if k != "seed"})


def _testgrad(case, ctx, g):
    import torch

    import gpytorch
    from vf import history as H
    from vf import util

    if case["model"] == "svgp":
        fam = H.FAMILIES["svgp_whitened"](case["seed"] % 1000)
        m = fam.make()
    else:
        fam = H.FAMILIES["default"](case["seed"] % 1000)
        if case["model"] == "exact_matern":
            lik = gpytorch.likelihoods.GaussianLikelihood()
            nu0, nu1 = case.get("nu", [2.5, 2.5])
            m = util.GP(fam.X, fam.y, lik, gpytorch.means.ConstantMean(), gpytorch.kernels.ScaleKernel(gpytorch.kernels.MaternKernel(nu=nu0)))
            util.randomize(m, util.gen(case["seed"]), 0.4)
            m.covar_module.base_kernel.nu = nu1
            m.eval()
        else:
            m = fam.make()
    xs = util.randn(g, 3, H.D)
    wm, wv = util.randn(g, 3), util.randn(g, 3)

    W2 = util.randn(g, 3, 3)

    def f(x):
        with gpytorch.settings.fast_pred_var(bool(case.get("fast_pred_var"))):
            o = m(x)
            return (o.mean * wm).sum() + (o.variance * wv).sum() + ((o.covariance_matrix * W2).sum() if case.get("fast_pred_var") else 0.0)

    if case.get("warm"):
        with torch.no_grad():
            f(util.randn(g, 3, H.D))
    x = xs.clone().requires_grad_(True)
    with torch.autograd.set_detect_anomaly(True):
        (gr,) = torch.autograd.grad(f(x), x)
    fd = torch.zeros_like(xs)
    h = 1e-6
    with torch.no_grad():
        for i in range(xs.numel()):
            for sgn in (1, -1):
                p = xs.clone().reshape(-1)
                p[i] += sgn * h
                fd.reshape(-1)[i] += sgn * float(f(p.reshape(xs.shape))) / (2 * h)
    ctx.close("test_input_gradient", gr, fd, (1e-5, 1e-5), cls="testgrad:" + case["model"])
    ctx.cell({k: v for k, v in case.items() if k != "seed"})
