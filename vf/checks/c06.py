"""C06 - diag / transpose / lazy evaluation / indexing of a kernel all agree (metamorphic oracle).

The dense side is computed once per case: D = kernel(x1, x2) evaluated eagerly (lazily_evaluate_kernels(False)), itself
tied to the documented formulas by C05. Monitors then compare every other way of requesting the same entries:
lazy.to_dense(), lazy[idx] for enumerated index expressions, transpose, repeat, diag=True, K(x2,x1), blocks of
K([x1;x2]), kernel[i](x1[i],x2[i]), expand_batch, all also with active_dims (permuted input columns) and for
multi-output kernels (num_outputs_per_input > 1).  Witnesses count LazyEvaluatedKernelTensor._getitem / evaluate_kernel.
"""
import itertools
import math
import random

PROPERTY = "C06"
RULE = (
    'case = (kernel spec, parameter batch x input batch pattern, n1, n2, chunk of index expressions); index expressions = product of '
    'per-dimension candidate sets (ints +/-, slices over start/stop in {None,0,1,-1,-2,n,n+5} x steps {None,1,2,3}, index tensors '
    "sorted/unsorted/repeated) over the operator's shape, at most one index tensor, plus Ellipsis placements; relational cells: diag, transpose, "
    'repeat, stacked blocks, kernel[i], expand_batch, active_dims vs a twin kernel on hand-picked columns, kernel batch size == n; kernel batch '
    'shapes of lower rank / size 1 against the input batch; distinct = (kernel, batch pattern, index kinds); non-trivial iff the expression '
    'selects >=1 and fewer than all entries (relational cells always)'
    '; pass 5: RFF / index / product-with-index kernels; index-then-operation chains (transpose, diagonal, matmul, second index) on 8x8 operators over 9 slices per side, views of one tensor as the two inputs; lazy diagonal for two inputs'
    '; pass 6: index tensors on batch dimensions; periodic / piecewise-polynomial / cosine kernels; far-from-origin few-against-many rows; index tensors must not be mutated'
    "; pass 8: every kernel evaluated once in evaluation mode, then its parameters moved in place: all access paths against a freshly built kernel holding the same state"
    "; pass 9: a user-defined kernel with a call-time keyword (every derived lazy tensor keeps it); kernels with a non-default eps and a lengthscale below it"
)
REQUIRED = ["lazy_equals_eager", "lazy_index", "index_then", "diag_equals_diagonal", "transpose", "stacked_blocks", "kernel_getitem", "expand_batch", "path:lazy_getitem"]
ASSUMPTIONS = ["torch dense indexing D[idx] is the reference semantics of an index expression"]
ANCHOR_FILES = ["gpytorch/lazy/lazy_evaluated_kernel_tensor.py", "gpytorch/kernels/kernel.py", "gpytorch/kernels/"]

KERNELS = {
    "rbf": {"k": "rbf"},
    "rbf_eps": {"k": "rbf_eps"},  # the documented `eps` constructor option at a non-default value, lengthscale below it
    "scale_matern_eps": {"k": "scale_matern_eps"},
    "scale_matern_ard": {"k": "scale", "base": {"k": "matern", "nu": 1.5, "ard": True}},
    "sum": {"k": "sum", "parts": [{"k": "rbf"}, {"k": "linear"}]},
    "prod_active": {"k": "prod", "parts": [{"k": "rbf", "active_dims": [0]}, {"k": "periodic", "active_dims": [2]}]},
    "rbf_active_perm": {"k": "rbf", "active_dims": [2, 0], "ard": True},
    "scale_active": {"k": "scale", "base": {"k": "matern", "nu": 2.5, "active_dims": [1, 2]}},
    "rq": {"k": "rq"},
    "periodic": {"k": "periodic"},
    "pp": {"k": "pp", "q": 2},
    "cosine": {"k": "cosine"},
    "rff": {"k": "rff", "samples": 5},
    "rbf_times_index": {"k": "prod", "parts": [{"k": "rbf", "active_dims": [0, 1]}, {"k": "index", "tasks": 3, "active_dims": [2]}]},
    "index_col": {"k": "index", "tasks": 4, "rank": 2, "active_dims": [2]},
    "poly": {"k": "poly", "power": 2},
    "multitask": {"k": "multitask", "tasks": 2, "rank": 1},
    "rbfgrad": {"k": "rbfgrad"},
    "lcm": {"k": "lcm"},
    "cylindrical": {"k": "cylindrical"},
    "rbfgrad_ard": {"k": "gradk", "cls": "RBFKernelGrad", "ard": True},
    "m52grad_ard": {"k": "gradk", "cls": "Matern52KernelGrad", "ard": True},
    "rbfgradgrad_ard": {"k": "gradk", "cls": "RBFKernelGradGrad", "ard": True},
    "polygrad": {"k": "gradk", "cls": "PolynomialKernelGrad", "ard": False},
    "matern_active_desc_ard": {"k": "matern", "nu": 2.5, "active_dims": [2, 1, 0], "ard": True},
    "sum_active_unsorted": {"k": "sum", "parts": [{"k": "rq", "active_dims": [1, 0], "ard": True}, {"k": "scale", "base": {"k": "rbf", "active_dims": [2, 0], "ard": True}}]},
}
GRADLIKE = ("rbfgrad", "rbfgrad_ard", "m52grad_ard", "rbfgradgrad_ard", "polygrad")
PATTERNS = [([], []), ([2], [2]), ([], [2]), ([2], []), ([3, 2], [2]), ([3, 2], [3, 2]), ([2], [3, 2]), ([3, 1], [3, 2]), ([1], [2])]
# asymmetric input batches: (parameter batch, x1 batch, x2 batch)
ASYM = [([], [2], []), ([], [], [2]), ([], [2], [1]), ([2], [2], []), ([], [3, 2], [2]), ([2], [1], [2])]
D_IN = 3


def _build(name, pb):
    import torch

    import gpytorch
    from vf import util

    spec = KERNELS[name]
    bs = torch.Size(pb)
    K = gpytorch.kernels
    if spec["k"] == "rbf_eps":
        return K.RBFKernel(eps=0.5, batch_shape=bs)
    if spec["k"] == "scale_matern_eps":
        return K.ScaleKernel(K.MaternKernel(nu=2.5, eps=0.5, batch_shape=bs), batch_shape=bs)
    if spec["k"] == "multitask":
        return K.MultitaskKernel(K.RBFKernel(batch_shape=bs), num_tasks=spec["tasks"], rank=spec["rank"], batch_shape=bs)
    if spec["k"] == "rbfgrad":
        return K.RBFKernelGrad(batch_shape=bs)
    if spec["k"] == "cylindrical":
        return K.ScaleKernel(K.CylindricalKernel(3, K.MaternKernel(nu=2.5, batch_shape=bs), batch_shape=bs), batch_shape=bs)
    if spec["k"] == "gradk":
        kw = {"power": 2} if spec["cls"] == "PolynomialKernelGrad" else {}
        if spec["ard"]:
            kw["ard_num_dims"] = D_IN
        return getattr(K, spec["cls"])(batch_shape=bs, **kw)
    if spec["k"] == "lcm":
        return K.LCMKernel([K.RBFKernel(), K.MaternKernel(nu=1.5)], num_tasks=2, rank=1)
    return util.build_kernel(spec, D_IN, pb)


def _nout(name):
    return {"multitask": 2, "lcm": 2, "rbfgrad": D_IN + 1, "rbfgrad_ard": D_IN + 1, "m52grad_ard": D_IN + 1, "polygrad": D_IN + 1, "rbfgradgrad_ard": 2 * D_IN + 1}.get(name, 1)


def cases(tier, seed):
    from vf.gen import index as IX

    rnd = random.Random(6000 + seed)
    names = list(KERNELS)
    for name in names:
        for pb, xb, xb2 in [(p_, x_, None) for p_, x_ in PATTERNS] + ASYM:
            if name == "lcm" and pb:
                continue
            if tier == "quick" and name in ("rff", "rbf_times_index", "index_col", "periodic", "pp", "cosine") and (xb2 is not None or (pb, xb) not in (([], []), ([2], [2]), ([], [2]), ([2], []))):
                continue
            if xb2 is not None and (name in GRADLIKE + ("lcm", "multitask") or (tier == "quick" and name not in ("rbf", "scale_active", "sum"))):
                continue
            if name in GRADLIKE and pb != xb:
                continue  # derivative kernels do not broadcast parameters against differently batched data (crash cells, C08)
            n1, n2 = (3, 2) if _nout(name) > 1 else (5, 4)
            if (pb, xb, xb2) == ([], [], None) and name not in GRADLIKE + ("lcm",):
                # a kernel batch size equal to the number of points, inputs without that batch dimension: diagonals and
                # full matrices have look-alike shapes
                yield {"kind": "relations", "kernel": name, "pbatch": [n1], "xbatch": [], "n1": n1, "n2": n2, "seed": rnd.randrange(10**6)}
                yield {"kind": "relations", "kernel": name, "pbatch": [n1], "xbatch": [2, 1], "n1": n1, "n2": n2, "seed": rnd.randrange(10**6)}
            if xb2 is None:
                yield {"kind": "relations", "kernel": name, "pbatch": pb, "xbatch": xb, "n1": n1, "n2": n2, "seed": rnd.randrange(10**6)}
            # index expressions over the operator's shape
            batch = list(_bshape(pb, xb)) if xb2 is None else list(__import__("torch").broadcast_shapes(tuple(pb), tuple(xb), tuple(xb2)))
            shape = batch + [n1 * _nout(name), n2 * _nout(name)]
            rich = tier == "thorough"
            per_dim = [IX.dim_candidates(s, rich=rich or i >= len(batch)) for i, s in enumerate(shape)]
            if len(batch) >= 1:
                # batch dimensions: ints and slices, plus index tensors (a permutation of the whole batch, a repeated element, a
                # shorter selection): the kernel's batched parameters have to follow the same index
                def _bc(s_):
                    c_ = IX.dim_candidates(s_, rich=False)
                    return c_[:8] + [e for e in c_ if isinstance(e, list) and e[0] == "t"][1:4]

                per_dim[: len(batch)] = [_bc(s) for s in batch]
            _one_t = lambda c: sum(1 for e in c if isinstance(e, list) and e[0] == "t") <= 1
            cap = (150 if tier == "quick" else 2500)
            if math.prod(len(p_) for p_ in per_dim) <= 4000:
                combos = [list(c) for c in itertools.product(*per_dim) if _one_t(c)]
            else:
                # too many to enumerate in every shard (the generator runs in each): draw the sample directly
                seen_, combos = set(), []
                for _ in range(40 * cap):
                    c = tuple(rnd.randrange(len(p_)) for p_ in per_dim)
                    cc = [p_[i_] for p_, i_ in zip(per_dim, c)]
                    if c not in seen_ and _one_t(cc):
                        seen_.add(c)
                        combos.append(cc)
                        if len(combos) >= cap:
                            break
            extra = []
            if len(per_dim[-2]) * len(per_dim[-1]) <= 4000:
                extra = [["..."] + list(c) for c in itertools.product(*per_dim[-2:]) if _one_t(c)]
            else:
                seen_ = set()
                for _ in range(40 * cap):
                    c = (rnd.randrange(len(per_dim[-2])), rnd.randrange(len(per_dim[-1])))
                    cc = [per_dim[-2][c[0]], per_dim[-1][c[1]]]
                    if c not in seen_ and _one_t(cc):
                        seen_.add(c)
                        extra.append(["..."] + cc)
                        if len(extra) >= cap // 2:
                            break
            for c in per_dim[0][:6] + ([e for e in per_dim[0] if isinstance(e, list) and e[0] == "t"] if len(batch) >= 1 else []):
                extra.append([c])
                extra.append([c, "..."])
            if len(combos) > cap:
                combos = rnd.sample(combos, cap)
            if len(extra) > cap // 2:
                extra = rnd.sample(extra, cap // 2)
            allx = combos + extra
            for i in range(0, len(allx), 125):
                c = {"kind": "index", "kernel": name, "pbatch": pb, "xbatch": xb, "n1": n1, "n2": n2, "idxs": allx[i : i + 125], "seed": rnd.randrange(10**6)}
                if xb2 is not None:
                    c["xbatch2"] = xb2
                yield c
    # far from the origin with a few rows against many (above the 25-row switch of the pairwise-distance routine on one side
    # only): direct, swapped, lazy and stacked evaluations still agree
    for name in ("rbf", "matern", "rq", "periodic", "pp", "cosine", "scale_active", "sum"):
        if name not in KERNELS:
            continue
        for n1_, n2_ in ((3, 31), (31, 2), (1, 40)):
            yield {"kind": "relations", "kernel": name, "pbatch": [], "xbatch": rnd.choice([[], [2]]), "n1": n1_, "n2": n2_, "far": rnd.choice([3e3, 3e4]), "seed": rnd.randrange(10**6)}
    # derivative kernels over other input dimensions in the same process, with block sizes n*(d+1) that coincide across
    # dimensions (6 x 2 = 4 x 3 = 3 x 4 = 12; 4 x 2 = 2 x 4 = 8): anything memoised per size instead of per (n, d) shows
    for rep_ in range(2):
        for name in GRADLIKE:
            if name == "rbfgradgrad_ard":
                continue
            for d_in, n1_, n2_ in ((1, 6, 4), (2, 4, 4), (3, 3, 2), (2, 4, 1), (1, 6, 6)):
                yield {"kind": "relations", "kernel": name, "pbatch": [], "xbatch": [], "n1": n1_, "n2": n2_, "d_in": d_in, "seed": rnd.randrange(10**6)}
    # evaluation mode, autograd off, one evaluation, then the parameters move in place (an optimiser step / a setter, no train()):
    # every access path answers with the CURRENT parameters (anchor: a freshly built kernel loaded with the same state)
    for name in KERNELS:
        pb = [2] if name not in GRADLIKE + ("lcm",) and rnd.random() < 0.5 else []
        n1, n2 = (3, 2) if _nout(name) > 1 else (5, 4)
        yield {"kind": "relations", "kernel": name, "pbatch": pb, "xbatch": pb, "n1": n1, "n2": n2, "moved_in_eval": True, "seed": rnd.randrange(10**6)}
    # a (user-defined) kernel whose forward takes a call-time keyword: every object derived from the lazy tensor (index,
    # transpose, repeat, expand, unsqueeze, diagonal) evaluates with the SAME keyword
    for xb in ([], [2]):
        for val in (0.3, 2.5):
            yield {"kind": "call_kw", "xbatch": xb, "value": val, "n1": 5, "n2": 4, "seed": rnd.randrange(10**6)}
    yield from _chain_cases(tier, rnd)


SLICES = [[0, 8, 2], [0, 4, 1], [4, 8, 1], [1, 5, 1], [1, 8, 2], [2, 6, 1], [0, 8, 1], [0, 8, 3], [0, 3, 1]]


def _chain_cases(tier, rnd):
    """an index expression followed by another operation on the result (transpose, diagonal, a second index): the
    sliced operator's inputs are views of the original inputs - same storage, other strides"""
    for name in KERNELS:
        if _nout(name) > 1 or name == "lcm":
            continue
        for pb, xb in [([], []), ([2], [2]), ([2], [])]:
            if tier == "quick" and (pb or xb) and rnd.random() < 0.6:
                continue
            for same in (True, False):
                yield {"kind": "chain", "kernel": name, "pbatch": pb, "xbatch": xb, "n1": 8, "n2": 8, "same": same, "seed": rnd.randrange(10**6)}


def _bshape(pb, xb):
    import torch

    return torch.broadcast_shapes(torch.Size(pb), torch.Size(xb))


def setup(ctx):
    from gpytorch.lazy import LazyEvaluatedKernelTensor as LEKT
    from vf import attach

    attach.count(LEKT, "_getitem", ctx, "path:lazy_getitem")
    attach.count(LEKT, "evaluate_kernel", ctx, "path:lazy_evaluate_kernel")
    attach.count(LEKT, "_diagonal", ctx, "path:lazy_diagonal")
    attach.count(LEKT, "_transpose_nonbatch", ctx, "path:lazy_transpose")


def _fix_index_col(name, x, g):
    """kernels whose last input column holds task indices: make it valid indices again after the inputs were moved"""
    import torch

    if name in ("rbf_times_index", "index_col"):
        x = x.clone()
        x[..., 2] = torch.randint(0, 3, x.shape[:-1], generator=g).to(x.dtype)
    return x


def _data(case, g):
    from vf import util

    xb = case["xbatch"]
    x1 = util.randn(g, *xb, case["n1"], D_IN)
    x2 = util.randn(g, *case.get("xbatch2", xb), case["n2"], D_IN)
    if case["kernel"] == "cylindrical":
        # documented domain: the unit ball; one row is exactly the origin (the kernel treats it specially)
        x1 = x1 / x1.norm(dim=-1, keepdim=True) * (0.1 + 0.8 * util.rand(g, *x1.shape[:-1], 1))
        x2 = x2 / x2.norm(dim=-1, keepdim=True) * (0.1 + 0.8 * util.rand(g, *x2.shape[:-1], 1))
        x1[..., 0, :] = 0.0
        x2[..., -1, :] = 0.0
    if case.get("far"):
        off = case["far"] * (1 + util.rand(g, D_IN))
        x1, x2 = x1 + off, x2 + off
    if case["kernel"] in ("rbf_times_index", "index_col"):
        # the last column holds task indices
        import torch

        x1[..., 2] = torch.randint(0, 3, x1.shape[:-1], generator=g).to(x1.dtype)
        x2[..., 2] = torch.randint(0, 3, x2.shape[:-1], generator=g).to(x2.dtype)
    if case.get("same"):
        x2 = x1
    return x1, x2


class _KwKernel(__import__("gpytorch").kernels.Kernel):
    """exp(-power * |x - z|^2 / lengthscale^2) with `power` given at call time (default 1)"""

    has_lengthscale = True

    def forward(self, x1, x2, diag=False, power=1.0, **params):
        d2 = self.covar_dist(x1.div(self.lengthscale), x2.div(self.lengthscale), square_dist=True, diag=diag, **params)
        return d2.mul(-power).exp()


def _call_kw(case, ctx):
    import torch

    from gpytorch import settings as S
    from vf import util

    g = util.gen(case["seed"])
    xb = case["xbatch"]
    k = _KwKernel()
    k.lengthscale = 0.8 + float(util.rand(g, 1))
    x1, x2 = util.randn(g, *xb, case["n1"], 2), util.randn(g, *xb, case["n2"], 2)
    pw = case["value"]
    with torch.no_grad():
        with S.lazily_evaluate_kernels(False):
            D = k(x1, x2, power=pw).to_dense()
            Dd = k(x1, x2).to_dense()
        ctx.expect("call_kw_nontrivial", float((D - Dd).abs().max()) > 1e-3, "harness: the keyword has no effect")
        L = k(x1, x2, power=pw)
        ctx.expect("lazy_is_lazy", type(L).__name__ == "LazyEvaluatedKernelTensor", type(L).__name__)
        nb = len(xb)
        derived = {
            "to_dense": (L.to_dense(), D),
            "transpose": (L.transpose(-1, -2).to_dense(), D.transpose(-1, -2)),
            "rows": (L[..., 1:4, :].to_dense(), D[..., 1:4, :]),
            "index_tensor": (L[..., torch.tensor([0, 2, 2]), :][..., :, torch.tensor([1, 3])].to_dense(), D[..., torch.tensor([0, 2, 2]), :][..., :, torch.tensor([1, 3])]),
            "repeat": (L.repeat(*([1] * nb), 2, 3).to_dense(), D.repeat(*([1] * nb), 2, 3)),
            "repeat_then_index": (L.repeat(*([1] * nb), 2, 1)[..., 6:9, :].to_dense(), D.repeat(*([1] * nb), 2, 1)[..., 6:9, :]),
            "expand": (L.expand(3, *L.shape).to_dense(), D.expand(3, *D.shape)),
            "unsqueeze": (L.unsqueeze(0).to_dense(), D.unsqueeze(0)),
            "diag_kw": (k(x1[..., :4, :], x2, diag=True, power=pw), torch.diagonal(D[..., :4, :], dim1=-2, dim2=-1)),
            "lazy_diagonal": (k(x1[..., :4, :], x2, power=pw).diagonal(dim1=-2, dim2=-1), torch.diagonal(D[..., :4, :], dim1=-2, dim2=-1)),
        }
        if nb:
            derived["batch_index"] = (L[1].to_dense(), D[1])
        for tag, (got, ref) in derived.items():
            got = got.to_dense() if hasattr(got, "to_dense") else got
            ctx.close("call_time_keyword_kept", got, ref, (1e-12, 1e-12), cls="call_kw:" + tag, op=tag)
    ctx.cell({k_: v_ for k_, v_ in case.items() if k_ != "seed"}, nontrivial=True)


def run_case(case, ctx):
    if case.get("kind") == "call_kw":
        return _call_kw(case, ctx)
    global D_IN
    D_IN = case.get("d_in", 3)
    try:
        return _run_case(case, ctx)
    finally:
        D_IN = 3


def _run_case(case, ctx):
    import torch

    from gpytorch import settings as S
    from vf import util

    g = util.gen(case["seed"])
    name = case["kernel"]
    kern = _build(name, case["pbatch"])
    util.randomize(kern, g, 0.5)
    if name.endswith("_eps"):
        for mod_ in kern.modules():
            if getattr(mod_, "has_lengthscale", False):
                mod_.lengthscale = 0.1 + 0.25 * util.rand(g, *mod_.lengthscale.shape)  # below eps = 0.5
    x1, x2 = _data(case, g)
    b1, b2 = x1.clone(), x2.clone()
    fresh = None
    if case.get("moved_in_eval"):
        kern.eval()
        with torch.no_grad():
            kern(x1, x2).to_dense()
            kern(x1, x2).diagonal(dim1=-2, dim2=-1) if x1.shape == x2.shape else None
            for n_, p_ in kern.named_parameters():
                if "angle" not in n_:
                    p_.add_(0.3 * util.randn(g, *p_.shape))
        fresh = _build(name, case["pbatch"])
        fresh.load_state_dict(kern.state_dict())
        fresh.eval()
    try:
        with torch.no_grad():
            with S.lazily_evaluate_kernels(False):
                D = (fresh if fresh is not None else kern)(x1, x2).to_dense()
            if case["kind"] == "chain":
                return _chain(case, ctx, kern, x1, x2, D, g)
            if case["kind"] == "index":
                return _index(case, ctx, kern, x1, x2, D)
            return _relations(case, ctx, kern, x1, x2, D, g)
    finally:
        ctx.expect("inputs_not_mutated", bool(torch.equal(x1, b1)) and bool(torch.equal(x2, b2)), f"{case['kernel']}: evaluating / indexing the kernel changed its input tensors in place")


def _dense(o):
    return o.to_dense() if hasattr(o, "to_dense") else o


def _index(case, ctx, kern, x1, x2, D):
    import torch

    from vf.gen import index as IX

    lazy = kern(x1, x2)
    ctx.expect("lazy_is_lazy", type(lazy).__name__ == "LazyEvaluatedKernelTensor", type(lazy).__name__)
    ctx.close("lazy_equals_eager", lazy.to_dense(), D, "direct", cls=case["kernel"])
    total = D.numel()
    for expr in case["idxs"]:
        idx = IX.decode_index(expr)
        idx_arg = idx if len(idx) != 1 else idx[0]
        try:
            ref = D[idx_arg]
        except IndexError:
            ctx.reject("index invalid for the shape")
            continue
        if ref.numel() == 0:
            ctx.reject("selects nothing")
            continue
        kinds = [IX.kind(e) for e in expr]
        negint = any(isinstance(e, int) and e < 0 for e in expr[-2:]) if len(expr) >= 2 and expr[0] != "..." or (expr and expr[0] == "..." and any(isinstance(e, int) and e < 0 for e in expr[1:])) else False
        fresh = kern(x1, x2)  # a fresh lazy tensor per expression: no evaluated-kernel cache carried over
        try:
            _before = [(e, e.clone()) for e in idx if torch.is_tensor(e)]
            got = _dense(fresh[idx_arg])
            ctx.expect("index_tensors_not_mutated", all(torch.equal(e, c_) for e, c_ in _before), f"lazy[{expr}] changed the caller's index tensor in place")
        except Exception as e:
            ctx.fail("lazy_index", f"lazy[{expr}] raised {type(e).__name__}: {str(e)[:120]}", "raise", exc=type(e).__name__, idx=expr, kinds=kinds, negint=negint)
            continue
        ctx.close("lazy_index", got, ref, "direct", cls=case["kernel"], idx=expr, kinds=kinds, negint=negint, detail=f"idx={expr}")
        ctx.cell({"kernel": case["kernel"], "pb": case["pbatch"], "xb": case["xbatch"], "xb2": case.get("xbatch2"), "kinds": kinds}, nontrivial=0 < ref.numel() < total or ref.dim() < D.dim())


def _chain(case, ctx, kern, x1, x2, D, g):
    import itertools

    import torch

    name = case["kernel"]
    mk = (lambda: kern(x1)) if case["same"] and case["seed"] % 2 else (lambda: kern(x1, x2))
    tag = name + (":same" if case["same"] else ":two_inputs")
    pairs = list(itertools.product(SLICES, SLICES))
    if ctx.tier == "quick":
        pairs = [pairs[i] for i in torch.randperm(len(pairs), generator=g)[:14].tolist()] + [([0, 8, 2], [0, 4, 1]), ([0, 4, 1], [0, 8, 2])]
    for r, c in pairs:
        rs, cs = slice(*r), slice(*c)
        ref = D[..., rs, cs]
        square = ref.shape[-1] == ref.shape[-2]
        try:
            sub = mk()[..., rs, cs]
            ctx.close("index_then", _dense(sub.mT if hasattr(sub, "mT") else sub.transpose(-1, -2)), ref.transpose(-1, -2), "direct", cls=tag + ":transpose", idx=[r, c])
            ctx.close("index_then", _dense(mk()[..., rs, cs].transpose(-1, -2)[..., 1:, :]), ref.transpose(-1, -2)[..., 1:, :], "direct", cls=tag + ":transpose_index", idx=[r, c])
            if square:
                ctx.close("index_then", _dense(mk()[..., rs, cs].diagonal(dim1=-1, dim2=-2)), torch.diagonal(ref, dim1=-2, dim2=-1), (1e-7, 1e-7), cls=tag + ":diagonal", idx=[r, c])
                ctx.close("index_then", _dense(mk()[..., rs, cs].transpose(-1, -2).diagonal(dim1=-1, dim2=-2)), torch.diagonal(ref, dim1=-2, dim2=-1), (1e-7, 1e-7), cls=tag + ":transpose_diagonal", idx=[r, c])
            v = torch.linspace(-1.0, 1.0, ref.shape[-1], dtype=ref.dtype).unsqueeze(-1)
            ctx.close("index_then", mk()[..., rs, cs] @ v, ref @ v, (1e-7, 1e-7), cls=tag + ":matmul", idx=[r, c])
            ctx.close("index_then", _dense(mk()[..., rs, cs][..., ::2, 1:]), ref[..., ::2, 1:], "direct", cls=tag + ":index", idx=[r, c])
        except Exception as e:
            ctx.fail("index_then", f"lazy[..., {r}, {c}] followed by an operation raised {type(e).__name__}: {str(e)[:120]}", "raise", exc=type(e).__name__, idx=[r, c])
    # the same thing asked of the kernel directly: views of one tensor as the two inputs
    vp = list(itertools.product(SLICES[:5], SLICES[:5]))
    if ctx.tier == "quick":
        vp = [vp[i] for i in torch.randperm(len(vp), generator=g)[:8].tolist()] + [([0, 8, 2], [0, 4, 1])]
    for r, c in vp:
        a_, b_ = x1[..., slice(*r), :], x2[..., slice(*c), :]
        ref = D[..., slice(*r), slice(*c)]
        ctx.close("index_then", kern(a_, b_).to_dense(), ref, (1e-7, 1e-7), cls=tag + ":views_as_inputs", idx=[r, c])
        ctx.close("index_then", kern(a_, b_).transpose(-1, -2).to_dense(), ref.transpose(-1, -2), (1e-7, 1e-7), cls=tag + ":views_as_inputs:transpose", idx=[r, c])
        if ref.shape[-1] == ref.shape[-2]:
            ctx.close("index_then", _dense(kern(a_, b_).diagonal(dim1=-1, dim2=-2)), torch.diagonal(ref, dim1=-2, dim2=-1), (1e-7, 1e-7), cls=tag + ":views_as_inputs:diagonal", idx=[r, c])
    ctx.cell({"kind": "chain", "kernel": name, "pb": case["pbatch"], "xb": case["xbatch"], "same": case["same"]})


def _relations(case, ctx, kern, x1, x2, D, g):
    import torch

    from gpytorch import settings as S
    from vf import util

    name = case["kernel"]
    cls = name
    n1, n2 = case["n1"], case["n2"]
    no = _nout(name)
    lazy = kern(x1, x2)
    ctx.close("lazy_equals_eager", lazy.to_dense(), D, "direct", cls=cls)
    ctx.expect("lazy_shape", tuple(lazy.shape) == tuple(D.shape), f"{tuple(lazy.shape)} vs {tuple(D.shape)}")
    # transpose
    ctx.close("transpose", kern(x1, x2).transpose(-1, -2).to_dense(), D.transpose(-1, -2), "direct", cls=cls)
    with S.lazily_evaluate_kernels(False):
        ctx.close("transpose", kern(x2, x1).to_dense(), D.transpose(-1, -2), (1e-7, 1e-7), cls=cls + ":swap_args")
    ctx.close("transpose", kern(x2, x1).to_dense(), D.transpose(-1, -2), (1e-7, 1e-7), cls=cls + ":swap_args_lazy")
    # repeat on the lazy tensor (matrix dimensions, and a new / existing batch dimension)
    def rep_chk(tag, reps):
        try:
            got = kern(x1, x2).repeat(*reps).to_dense()
        except Exception as e:
            ctx.fail("repeat", f"lazy.repeat{reps} raised {type(e).__name__}: {str(e)[:120]}", "raise", exc=type(e).__name__, pbatch=case["pbatch"], reps=list(reps))
            return
        ctx.close("repeat", got, D.repeat(*reps), "direct", cls=cls + ":" + tag, pbatch=case["pbatch"], reps=list(reps))

    nb = D.dim() - 2
    rep_chk("matrix", tuple([1] * nb + [2, 3]))
    rep_chk("batch", tuple([2] + [1] * (nb - 1) + [1, 1]) if nb else (2, 1, 1))
    # diag=True vs diagonal of the full matrix (needs equal sizes: use x1 with itself and with a same-sized x2)
    with S.lazily_evaluate_kernels(False):
        Dxx = kern(x1).to_dense()
    try:
        dg = _dense(kern(x1, diag=True))
        refd = torch.diagonal(Dxx, dim1=-2, dim2=-1)
        if dg.shape != refd.shape:
            dg, refd = torch.broadcast_tensors(dg, refd)
        ctx.close("diag_equals_diagonal", dg, refd, (1e-7, 1e-7), cls=cls)
        ctx.close("diag_equals_diagonal", kern(x1).diagonal(dim1=-1, dim2=-2), torch.diagonal(Dxx, dim1=-2, dim2=-1), (1e-7, 1e-7), cls=cls + ":lazy.diagonal")
    except NotImplementedError:
        ctx.reject("diag not implemented")
    if name not in GRADLIKE and name != "cylindrical":
        x3 = _fix_index_col(name, x2[..., :1, :].expand(*x2.shape[:-2], n1, D_IN) + util.randn(g, *x2.shape[:-2], n1, D_IN), g)
        with S.lazily_evaluate_kernels(False):
            D13 = kern(x1, x3).to_dense()
        dg = _dense(kern(x1, x3, diag=True))
        refd = torch.diagonal(D13, dim1=-2, dim2=-1)
        if dg.shape != refd.shape:
            dg, refd = torch.broadcast_tensors(dg, refd)
        ctx.close("diag_equals_diagonal", dg, refd, (1e-7, 1e-7), cls=cls + ":x1!=x2")
        ctx.close("diag_equals_diagonal", _dense(kern(x1, x3).diagonal(dim1=-1, dim2=-2)), torch.diagonal(D13, dim1=-2, dim2=-1), (1e-7, 1e-7), cls=cls + ":x1!=x2:lazy.diagonal")
    # active_dims restricts a kernel to exactly those input columns: the same kernel class without active_dims, carrying the
    # same parameters, on the columns picked by hand
    spec = KERNELS[name]
    if _uses_active(spec):
        with S.lazily_evaluate_kernels(False):
            ref = _no_active_ref(spec, kern, x1, x2)
        ctx.close("active_dims_select_columns", D, ref.expand(D.shape), "direct", cls=cls)
    # a second point set that almost coincides with the first (another tensor, differences ~1e-6): still its own points - the
    # cross block of the stacked evaluation, the swapped call and the lazy tensor all agree with the eager cross matrix
    if name not in GRADLIKE + ("cylindrical", "multitask", "lcm"):
        xn = x1 + 3e-6 * util.randn(g, *x1.shape)
        if name in ("rbf_times_index", "index_col"):
            xn[..., 2] = x1[..., 2]
        with S.lazily_evaluate_kernels(False):
            Dn = kern(x1, xn).to_dense()
        Jn = kern(torch.cat([x1, xn], -2)).to_dense()
        ctx.close("near_coincident_blocks", Jn[..., :n1, n1:], Dn, (1e-9, 1e-9), cls=cls + ":near:stacked")
        ctx.close("near_coincident_blocks", kern(x1, xn).to_dense(), Dn, (1e-9, 1e-9), cls=cls + ":near:lazy")
        with S.lazily_evaluate_kernels(False):
            ctx.close("near_coincident_blocks", kern(xn, x1).to_dense().transpose(-1, -2), Dn, (1e-9, 1e-9), cls=cls + ":near:swapped")
    # blocks of K on stacked inputs
    xx = torch.cat([x1, x2], -2)
    J = kern(xx)
    a, b = n1 * no, n2 * no
    if no == 1 or name in ("multitask", "lcm"):
        # interleaved per point: the first n1*no rows/cols are exactly x1's block
        ctx.close("stacked_blocks", _dense(J[..., :a, a:]), D, (1e-7, 1e-7), cls=cls + ":lazy_slice")
        ctx.close("stacked_blocks", J.to_dense()[..., :a, a:], D, (1e-7, 1e-7), cls=cls + ":dense_slice")
        with S.lazily_evaluate_kernels(False):
            ctx.close("stacked_blocks", _dense(J[..., a:, a:]), kern(x2).to_dense(), (1e-7, 1e-7), cls=cls + ":x2x2")
    else:
        ctx.close("stacked_blocks", _dense(J[..., :a, a:]), D, (1e-7, 1e-7), cls=cls + ":lazy_slice")
    # kernel[i] and expand_batch
    pb = case["pbatch"]
    if pb and name not in ("lcm",):
        full = list(_bshape(pb, case["xbatch"]))
        x1e, x2e = x1.expand(*full, *x1.shape[-2:]), x2.expand(*full, *x2.shape[-2:])
        De = D.expand(*full, *D.shape[-2:])
        for bi in itertools.product(*[range(s) for s in pb]):
            # index of the parameter batch; data index = trailing part of the broadcast batch
            pidx = bi if len(bi) > 1 else bi[0]
            try:
                sub = kern[pidx]
                sub(x1e[(0,) * (len(full) - len(pb)) + bi], x2e[(0,) * (len(full) - len(pb)) + bi]).to_dense()
            except Exception as e:
                ctx.fail("kernel_getitem", f"kernel[{pidx}](...) raised {type(e).__name__}: {str(e)[:140]}", "raise", exc=type(e).__name__, kernel=name, own_params=len(list(kern.named_parameters(recurse=False))))
                break
            lead = len(full) - len(pb)
            for li in itertools.product(*[range(s) for s in full[:lead]]):
                fi = li + bi
                got = sub(x1e[fi], x2e[fi]).to_dense()
                ctx.close("kernel_getitem", got, De[fi], (1e-7, 1e-7), cls=cls, bidx=list(fi))
        if len(pb) == 2:
            sub = kern[1]  # partial index: remaining batch shape pb[1:]
            got = sub(x1e[(0,) * (len(full) - 2) + (1,)] if len(full) > 2 else x1e[1], x2e[(0,) * (len(full) - 2) + (1,)] if len(full) > 2 else x2e[1]).to_dense()
            ctx.close("kernel_getitem", got, De[(0,) * (len(full) - 2) + (1,)] if len(full) > 2 else De[1], (1e-7, 1e-7), cls=cls + ":partial")
    else:
        ctx.hit("kernel_getitem", 0)
    if name not in ("lcm",):
        newb = [4] + list(_bshape(pb, case["xbatch"]))
        try:
            big = kern.expand_batch(torch.Size(newb))
            xb1 = x1.expand(*torch.broadcast_shapes(torch.Size(newb), x1.shape[:-2]), *x1.shape[-2:])
            xb2 = x2.expand(*torch.broadcast_shapes(torch.Size(newb), x2.shape[:-2]), *x2.shape[-2:])
            got = big(xb1, xb2).to_dense()
            ctx.close("expand_batch", got, D.expand(got.shape), (1e-7, 1e-7), cls=cls)
            ctx.expect("expand_batch_shape", tuple(big.batch_shape) == tuple(newb), f"{tuple(big.batch_shape)}")
        except Exception as e:
            ctx.fail("expand_batch", f"expand_batch({newb}) raised {type(e).__name__}: {str(e)[:140]}", "raise", exc=type(e).__name__, kernel=name)
    ctx.cell({k: v for k, v in case.items() if k != "seed"})


def _uses_active(spec):
    return "active_dims" in spec or any(_uses_active(p) for p in spec.get("parts", [])) or ("base" in spec and isinstance(spec["base"], dict) and _uses_active(spec["base"]))


def _no_active_ref(spec, kern, x1, x2):
    """evaluate the spec tree with every leaf replaced by an active_dims-free twin (same parameters) on hand-picked columns"""
    import torch

    from vf import util

    k = spec["k"]
    if k == "scale":
        o = kern.outputscale
        ad = spec["base"].get("active_dims")
        # ScaleKernel adopts its base kernel's active_dims: the columns are picked once
        return o.reshape(*o.shape, 1, 1) * _no_active_ref(spec["base"], kern.base_kernel, x1, x2)
    if k in ("sum", "prod"):
        outs = [_no_active_ref(p_, kk, x1, x2) for p_, kk in zip(spec["parts"], kern.kernels)]
        out = outs[0]
        for o_ in outs[1:]:
            out = out + o_ if k == "sum" else out * o_
        return out
    ad = spec.get("active_dims")
    if ad is None:
        return kern(x1, x2).to_dense()
    twin = util.build_kernel({kk: v for kk, v in spec.items() if kk != "active_dims"}, len(ad), tuple(kern.batch_shape))
    sd = {n_: v for n_, v in kern.state_dict().items() if n_ != "active_dims"}
    twin.load_state_dict(sd, strict=False)
    return twin(x1[..., ad], x2[..., ad]).to_dense()


def _repeat_batched_kernel(case, fl):
    """LazyEvaluatedKernelTensor.repeat repeats x1/x2 only: repeating a BATCH dimension of a kernel tensor whose kernel
    has its own batch shape gives the wrong batch shape (un-batched inputs) or raises (batched inputs)."""
    return fl["monitor"] == "repeat" and bool(fl.get("pbatch")) and any(r > 1 for r in fl.get("reps", [])[:-2]) and fl.get("mechanism") in ("shape", "raise")


def _getitem_parameterless(case, fl):
    """kernel[i] on a batched kernel that owns no parameters itself (MultitaskKernel(batch_shape=b)): batch_shape is only
    updated while looping over own parameters/buffers, so the indexed kernel keeps the old batch_shape and the lazy tensor's
    size check raises."""
    return fl["monitor"] == "kernel_getitem" and fl.get("mechanism") == "raise" and fl.get("own_params") == 0


MATCHERS = {"C06-lazy-repeat-batched-kernel": _repeat_batched_kernel}
