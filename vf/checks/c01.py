"""C01 - exact GP posterior equals the closed-form Gaussian conditional on every settings-selectable path.

Monitor: post-condition on the real ExactGP.__call__ (posterior branch). From the captured model and inputs the
oracle evaluates the model's own prior pieces eagerly and separately (Kxx, K*x, K**, mx, m*), the noise S the
likelihood adds on the training inputs, and the dense Cholesky conditional; the returned distribution (mean,
covariance, variance) and the strategy's caches (mean_cache, covar_cache) are compared with it.
Path witnesses count which branches (CG, Lanczos, lazy/eager, LOVE) actually ran.
"""
import itertools
import random

PROPERTY = "C01"
RULE = (
    "case = (kernel spec, mean, likelihood, n, d, n*, parameter/train/test batch shapes, settings combination, seed); all 2^5 "
    "combinations of {lazily_evaluate_kernels, max_eager_kernel_size above/below, max_cholesky_size 800/0, fast_pred_var, "
    "detach_test_caches} plus skip_posterior_variances / fast_computations triples / memory_efficient / trace_mode / pivoted-Cholesky-preconditioned CG (min_preconditioning_size 1), directed large-n CG cases (n = 120, 200: tolerance-limited solves), crossed pairwise-randomly with kernels x means "
    "x likelihoods x shapes x batch patterns (+ Kronecker multitask models); hyper-parameters drawn per batch element; distinct = "
    "distinct cell (everything but the seed); non-trivial iff posterior differs from the prior by > 1e-3 in mean or covariance"
    '; pass 5: cases under default dtype float32 (model moved with .double()) and under no_grad / inference_mode'
    '; pass 6: max_cholesky_size exactly at / one below the train, test and joint sizes, max_eager_kernel_size == joint size; exact GPs with two input tensors (Hadamard multitask); only the prediction-time CG tolerance is tightened'
    '; pass 7: models obtained through get_fantasy_model (caches updated, not recomputed) decided by the same post-condition for THEIR training data and likelihood; the models as members of an IndependentModelList with per-member call-time noise (None entries in every position)'
    "; pass 8: float32 test points handed to float64 models"
    "; pass 9: the call-time noise= keyword with the homoskedastic likelihood (values down to 1e-8)"
)
REQUIRED = ["posterior_mean", "posterior_covar", "likelihood_adds_noise", "mean_cache", "path:linear_cg", "path:exact_predictive_covar"]
ASSUMPTIONS = [
    "iterative paths run at cg_tolerance=eval_cg_tolerance=1e-10, max_cg_iterations=4000, root/lanczos sizes >= 2n and are compared at 1e-5; direct paths at 1e-8",
    "oracle inputs are the model's own kernel/mean/likelihood evaluated eagerly in prior mode (their formulas are C05/C12's business)",
]
ANCHOR_FILES = ["gpytorch/models/exact_gp.py", "gpytorch/models/exact_prediction_strategies.py", "gpytorch/lazy/", "gpytorch/likelihoods/gaussian_likelihood.py"]

KERNELS = [
    {"k": "scale", "base": {"k": "rbf"}},
    {"k": "scale", "base": {"k": "matern", "nu": 0.5, "ard": True}},
    {"k": "scale", "base": {"k": "matern", "nu": 1.5}},
    {"k": "matern", "nu": 2.5, "ard": True},
    {"k": "scale", "base": {"k": "rq"}},
    {"k": "scale", "base": {"k": "periodic"}},
    {"k": "sum", "parts": [{"k": "linear"}, {"k": "scale", "base": {"k": "rbf", "ard": True}}]},
    {"k": "prod", "parts": [{"k": "rbf"}, {"k": "scale", "base": {"k": "matern", "nu": 1.5}}]},
    {"k": "sum", "parts": [{"k": "poly", "power": 2}, {"k": "rbf"}]},
    {"k": "scale", "base": {"k": "rbf", "active_dims": [0, 2]}, "needs_d": 3},
    {"k": "rbf"},
    {"k": "scale", "base": {"k": "rff", "samples": 6}},  # selects the random-Fourier-feature prediction strategy
]
MEANS = ["zero", "constant", "linear", "linear_nobias", "constant_constrained"]
LIKS = ["gauss", "fixed", "fixed+learn"]
# (parameter batch, train-x batch, test-x batch)
BATCHES = [
    ([], [], []),
    ([2], [], []),
    ([], [2], []),
    ([], [], [2]),
    ([2], [2], [2]),
    ([2], [], [2]),
    ([], [], [3, 1]),
    ([2], [], [3, 1]),
    ([3, 2], [], []),
    ([], [3, 2], [2]),
    ([1, 2], [3, 1], []),
]
SHAPES = [(1, 1, 1), (2, 1, 5), (7, 3, 5), (7, 1, 1), (20, 3, 5), (12, 2, 3), (1, 3, 5)]


def _settings_grid():
    out = []
    for lazy, eager, chol, fpv, det in itertools.product([True, False], ["above", "below"], [800, 0], [False, True], [True, False]):
        out.append({"lazily_evaluate_kernels": lazy, "max_eager_kernel_size": eager, "max_cholesky_size": chol, "fast_pred_var": fpv, "detach_test_caches": det})
    return out


def cases(tier, seed):
    rnd = random.Random(1000 + seed)
    grid = _settings_grid()
    reps = 8 if tier == "quick" else 220
    i = 0
    for rep in range(reps):
        for sd in grid:
            sd = dict(sd)
            r = rnd.random()
            if r < 0.12:
                sd["skip_posterior_variances"] = True
            elif r < 0.45:
                sd["fast_computations"] = [rnd.random() < 0.5, rnd.random() < 0.5, rnd.random() < 0.5]
            # further settings that select other code paths for the same quantity
            r2 = rnd.random()
            if r2 < 0.12:
                sd["memory_efficient"] = True
            elif r2 < 0.24:
                sd["trace_mode"] = True
            elif r2 < 0.5 and sd["max_cholesky_size"] == 0:
                sd["min_preconditioning_size"] = 1  # pivoted-Cholesky preconditioned CG (default: only from n = 2000)
                sd["max_preconditioner_size"] = rnd.choice([2, 5, 15])
            kern = KERNELS[(i + rep) % len(KERNELS)] if rep < len(KERNELS) else rnd.choice(KERNELS)
            if sd["max_cholesky_size"] == 0 and kern["k"] == "prod":
                # product kernels become MulLinearOperators whose matmul goes through Lanczos roots of the factors when
                # Cholesky is disabled: approximate by design, not an "exact iterative algorithm" (outside the quantifier)
                kern = KERNELS[0]
            n, d, ns = rnd.choice(SHAPES)
            if sd["max_cholesky_size"] == 0 and sd["fast_pred_var"]:
                # LOVE on the Lanczos branch: exact only while the Krylov space is the whole space (breaks down / NaN for n<=2)
                n, d, ns = rnd.choice([s_ for s_ in SHAPES if s_[0] >= 7])
            d = kern.get("needs_d", d)
            b = rnd.choice(BATCHES) if rnd.random() < 0.6 else BATCHES[0]
            c = {
                "kernel": kern,
                "mean": rnd.choice(MEANS),
                "lik": rnd.choice(LIKS),
                "n": n,
                "d": d,
                "ns": ns,
                "pbatch": b[0],
                "xbatch": b[1],
                "tbatch": b[2],
                "settings": sd,
                "seed": rnd.randrange(10**6),
            }
            r3 = rnd.random()
            if r3 < 0.12:
                c["default_dtype"] = "float32"
            elif r3 < 0.3:
                c["grad_mode"] = rnd.choice(["no_grad", "inference"])
            elif r3 < 0.42 and not sd.get("max_cholesky_size") == 0:
                c["xs_float32"] = True  # float32 test points handed to a float64 model (exactly representable; promoted by the library)
            if n == 1 or (n == 2 and ns == 5):
                c["hostile"] = True
            i += 1
            yield c
    # Kronecker multitask models
    nm = 40 if tier == "quick" else 1500
    for j in range(nm):
        sd = dict(rnd.choice(grid))
        t = rnd.choice([2, 3])
        yield {
            "multitask": {"t": t, "rank": rnd.choice([0, 1, t])},
            "kernel": rnd.choice(KERNELS[:4] + KERNELS[10:]),
            "lik": "mt",
            "n": rnd.choice([1, 4, 6]),
            "d": rnd.choice([1, 2]),
            "ns": rnd.choice([1, 3]),
            "pbatch": [],
            "xbatch": [],
            "tbatch": rnd.choice([[], [], [2]]),
            "settings": sd,
            "seed": rnd.randrange(10**6),
        }
    # the iterative regime proper: enough points that conjugate gradients stops on its tolerance (not on the n-iteration
    # exactness of small systems): a tightened eval_cg_tolerance must really be honoured
    for j in range(8 if tier == "quick" else 120):
        yield {
            "kernel": rnd.choice([KERNELS[0], KERNELS[2], KERNELS[3], KERNELS[4], KERNELS[10]]), "mean": rnd.choice(MEANS), "lik": rnd.choice(["gauss", "fixed"]), "n": rnd.choice([120, 200]), "d": 2, "ns": 4,
            "pbatch": [], "xbatch": [], "tbatch": [], "large_cg": True,
            "settings": {"lazily_evaluate_kernels": rnd.random() < 0.7, "max_eager_kernel_size": "below", "max_cholesky_size": 0, "fast_pred_var": False, "detach_test_caches": rnd.random() < 0.5,
                         **({"min_preconditioning_size": 1, "max_preconditioner_size": rnd.choice([5, 15])} if j % 2 else {})},
            "seed": rnd.randrange(10**6),
        }
    # size thresholds hit exactly and missed by one: max_cholesky_size equal to / one below the training size, the test size
    # and the joint size; max_eager_kernel_size equal to the joint size. Whatever algorithm each side of a threshold selects,
    # the result is the closed form (iterative tier whenever some solve may be iterative)
    for j in range(16 if tier == "quick" else 200):
        n_, ns_ = rnd.choice([(9, 4), (12, 12), (7, 9)])
        yield {
            "kernel": rnd.choice([KERNELS[0], KERNELS[2], KERNELS[3], KERNELS[4]]), "mean": rnd.choice(MEANS), "lik": rnd.choice(["gauss", "fixed", "fixed+learn"]), "n": n_, "d": 2, "ns": ns_,
            "pbatch": [], "xbatch": [], "tbatch": [], "threshold": rnd.choice(["n", "n-1", "ns", "ns-1", "joint", "joint-1"]),
            "settings": {"lazily_evaluate_kernels": rnd.random() < 0.7, "max_eager_kernel_size": rnd.choice(["equal", "above", "below"]), "max_cholesky_size": 800, "fast_pred_var": False,
                         "detach_test_caches": rnd.random() < 0.5},
            "seed": rnd.randrange(10**6),
        }
    # exact GPs with two input tensors (points + task indices, the Hadamard multitask construction)
    for lik_, fpv, chol in itertools.product(["gauss", "fixed"], [False, True], [800, 0]):
        if fpv and chol == 0:
            continue
        yield {"two_inputs": True, "n": rnd.choice([6, 9]), "ns": rnd.choice([1, 4]), "tasks": rnd.choice([2, 3]), "lik": lik_,
               "settings": {"lazily_evaluate_kernels": rnd.random() < 0.7, "max_cholesky_size": chol, "fast_pred_var": fpv, "detach_test_caches": rnd.random() < 0.5}, "seed": rnd.randrange(10**6)}
    # an exact prediction after a LOW-RANK fast-variance prediction on the same model (its root caches stay behind)
    for j in range(6 if tier == "quick" else 60):
        yield {
            "kernel": rnd.choice([KERNELS[0], KERNELS[2], KERNELS[4]]), "mean": rnd.choice(MEANS), "lik": rnd.choice(["gauss", "fixed"]), "n": rnd.choice([12, 20]), "d": 2, "ns": 3,
            "pbatch": [], "xbatch": [], "tbatch": [], "lowrank_fast_first": True,
            "settings": {"lazily_evaluate_kernels": True, "max_eager_kernel_size": "above", "max_cholesky_size": 0, "fast_pred_var": False, "detach_test_caches": rnd.random() < 0.5},
            "seed": rnd.randrange(10**6),
        }
    # directed hostile geometry: duplicated training rows, test point equal to a training point
    for j in range(12 if tier == "quick" else 200):
        yield {
            "kernel": rnd.choice(KERNELS[:5]), "mean": rnd.choice(MEANS), "lik": "gauss", "n": 6, "d": 2, "ns": 3,
            "pbatch": [], "xbatch": [], "tbatch": [], "settings": dict(rnd.choice([g_ for g_ in grid if not (g_["fast_pred_var"] and g_["max_cholesky_size"] == 0)])),
            "seed": rnd.randrange(10**6), "dup": True, "hostile": True,
        }


_ST = {}


def setup(ctx):
    import linear_operator
    import torch

    import gpytorch
    from gpytorch.models.exact_prediction_strategies import DefaultPredictionStrategy as DPS
    from vf import attach

    _ST["ctx"] = ctx
    attach.wrap(gpytorch.models.ExactGP, "__call__", after=_post_call)
    attach.count(DPS, "exact_prediction", ctx, "path:exact_prediction")
    attach.count(DPS, "exact_predictive_mean", ctx, "path:exact_predictive_mean")
    attach.count(DPS, "exact_predictive_covar", ctx, "path:exact_predictive_covar")
    attach.count(DPS, "_mean_cache", ctx, "path:_mean_cache")
    attach.count(DPS, "_exact_predictive_covar_inv_quad_form_cache", ctx, "path:love_cache")
    from gpytorch.lazy import LazyEvaluatedKernelTensor as LEKT

    attach.count(LEKT, "evaluate_kernel", ctx, "path:lazy_evaluate_kernel")
    attach.count(LEKT, "_getitem", ctx, "path:lazy_getitem")
    import linear_operator.operators._linear_operator as lo
    import linear_operator.utils as lu

    # CG / Lanczos / Cholesky witnesses (functions looked up through their modules at call time)
    attach.count(lu, "linear_cg", ctx, "path:linear_cg")
    import linear_operator.utils.lanczos as lz

    attach.count(lz, "lanczos_tridiag", ctx, "path:lanczos_tridiag")
    attach.count(lo.LinearOperator, "cholesky", ctx, "path:cholesky")
    attach.count(lo.LinearOperator, "pivoted_cholesky", ctx, "path:pivoted_cholesky_preconditioner")


def _expand_to(x, batch):
    return x.expand(*batch, *x.shape[-2:])


def _post_call(a, k, out, tok):
    """post-condition of the real ExactGP.__call__ (posterior branch only)"""
    import torch

    import gpytorch
    from gpytorch import settings as S
    from vf import util

    ctx = _ST["ctx"]
    model = a[0]
    if model.training or model.train_inputs is None or model.train_targets is None or _ST.get("case") is None:
        return
    if _ST.get("prior_mode_at_call"):
        return
    case = _ST["case"]
    sd = _ST["settings_at_call"]
    X = model.train_inputs[0]
    xs = a[1]
    xs = xs.unsqueeze(-1) if xs.dim() == 1 else xs
    xs = xs.to(X.dtype)  # (test points of a narrower dtype are exactly representable in the model's)
    y = model.train_targets
    mt = isinstance(out, gpytorch.distributions.MultitaskMultivariateNormal)
    batch = torch.broadcast_shapes(X.shape[:-2], xs.shape[:-2], out.batch_shape)
    Xe, xse = _expand_to(X, batch), _expand_to(xs, batch)
    Kxx, Ksx, Kss, mx, ms = util.prior_pieces(model, Xe, xse)
    n = X.shape[-2]
    if mt:
        t = out.event_shape[-1]
        base = gpytorch.distributions.MultitaskMultivariateNormal(torch.zeros_like(mx), torch.eye(n * t).expand(*mx.shape[:-2], n * t, n * t))
        with torch.no_grad():
            S_ = model.likelihood(base, Xe).covariance_matrix - base.covariance_matrix
        mxf, msf, yf = mx.reshape(*mx.shape[:-2], -1), ms.reshape(*ms.shape[:-2], -1), y.reshape(*y.shape[:-2], -1)
    else:
        base = gpytorch.distributions.MultivariateNormal(torch.zeros_like(mx), torch.eye(n).expand(*mx.shape[:-1], n, n))
        with torch.no_grad():
            S_ = model.likelihood(base, Xe).covariance_matrix - base.covariance_matrix
        mxf, msf, yf = mx, ms, y
    ref_mean, ref_cov, alpha, A = util.dense_conditional(Kxx, Ksx, Kss, mxf, msf, S_, yf)
    iterative = sd.get("max_cholesky_size") == 0 or bool(case.get("threshold"))
    # LOVE from a Lanczos root: with a separated spectrum (see below) it is as exact as the CG solves (observed 1e-7);
    # the Kronecker multitask operators keep the loose tier (their Lanczos branch is a recorded linear_operator finding)
    tol = ("lanczos" if sd.get("fast_pred_var") and mt else "iter") if iterative else "direct"
    if not iterative and _has_matern05(case["kernel"]):
        # exp(-d) is not smooth at d=0: sqrt of the 1e-16 rounding noise of a squared distance moves K(x,x) by ~1e-8
        tol = (1e-7, 1e-7)
    if case.get("threshold"):
        tol = (1e-4, 1e-4)  # small systems: CG ends within n steps (observed <= 6e-6 in these cells)
    if case.get("large_cg"):
        tol = (2e-4, 2e-4)  # observed floor of converged CG on these systems: 1e-5; a solve stopped at 1e-3 is off by >1e-3
    ctol = tol
    vtol = _ST.get("covar_tol_override") or tol
    cls = ("fantasy:" if _ST.get("covar_tol_override") else "") + ("cg" if iterative else "chol") + ("+love" if sd.get("fast_pred_var") else "") + ("+lazy" if sd.get("lazily_evaluate_kernels", True) else "+eager") + (":threshold=" + case["threshold"] if case.get("threshold") else "")
    got_mean = out.mean.reshape(*out.mean.shape[: len(out.mean.shape) - (2 if mt else 1)], -1)
    ctx.close("posterior_mean", got_mean, ref_mean.expand(got_mean.shape), tol, cls=cls + ":mean")
    with torch.no_grad():
        got_cov = out.covariance_matrix
    love_lanczos_degenerate = False
    if iterative and sd.get("fast_pred_var"):
        # LOVE from a Lanczos root is exact only while the Krylov space of K+S is the whole space: eigenvalues that coincide
        # to working precision (K ~ c I for short lengthscales, duplicated rows) end the recurrence early whatever the probe
        # vector - then it is the approximation it is documented to be, outside "full-rank"
        ev = torch.linalg.eigvalsh(A)
        gap = (ev[..., 1:] - ev[..., :-1]).min() / ev.abs().max()
        love_lanczos_degenerate = bool(gap < 1e-3)
    if sd.get("skip_posterior_variances"):
        ctx.expect("skip_variances_zero", bool((got_cov == 0).all()), "covariance not the zero operator under skip_posterior_variances")
    elif love_lanczos_degenerate:
        ctx.info["love_lanczos_clustered_spectrum_not_full_rank"] += 1
    else:
        ctx.close("posterior_covar", got_cov, ref_cov.expand(got_cov.shape), vtol, cls=cls + ":covar")

        var = out.variance.reshape(got_mean.shape)
        refv = torch.diagonal(ref_cov, dim1=-2, dim2=-1).clamp_min(S.min_variance.value(torch.double))
        ctx.close("posterior_variance", var, refv.expand(var.shape), vtol, cls=cls + ":var")
    # the caches the prediction came from (localises a violation)
    strat = model.prediction_strategy
    cache = getattr(strat, "_memoize_cache", {})
    if type(strat).__name__ != "DefaultPredictionStrategy" or love_lanczos_degenerate:
        cache = {k_: v_ for k_, v_ in cache.items() if k_[0] == "mean_cache"} if type(strat).__name__ == "DefaultPredictionStrategy" else {}
    if False:
        cache = {}  # kernel-specific strategies keep caches of another meaning under the same names (feature space, grid space)
    for key, val in list(cache.items()):
        if key[0] == "mean_cache" and torch.is_tensor(val):
            mc = val
            if mc.dim() == alpha.dim() + 1 and mc.shape[1] == 1:
                mc = mc.squeeze(1)
            if mc.numel() == alpha.expand(torch.broadcast_shapes(mc.shape, alpha.shape)).numel() or True:
                try:
                    ctx.close("mean_cache", mc.expand(torch.broadcast_shapes(mc.shape, alpha.shape)), alpha.expand(torch.broadcast_shapes(mc.shape, alpha.shape)), ctol, cls=cls + ":mean_cache")
                except RuntimeError:
                    ctx.info["mean_cache_shape_not_comparable"] += 1
        if key[0] == "covar_cache" and torch.is_tensor(val) and sd.get("fast_pred_var"):
            R = val
            if R.shape[-2] == A.shape[-1]:
                # R R^T = (Kxx+S)^-1 on the Cholesky path; on the Lanczos path only its action on the test columns is exact
                Ainv = torch.linalg.inv(A)
                RRt = R @ R.transpose(-1, -2)
                if iterative:
                    RRt, Ainv = Ksx @ RRt @ Ksx.transpose(-1, -2), Ksx @ Ainv @ Ksx.transpose(-1, -2)
                try:
                    shp = torch.broadcast_shapes(RRt.shape, Ainv.shape)
                    ctx.close("covar_cache_is_inverse_root", RRt.expand(shp), Ainv.expand(shp), ("lanczos" if mt else "iter") if iterative else "loose", cls=cls + ":covar_cache")
                except RuntimeError:
                    ctx.info["covar_cache_shape_not_comparable"] += 1
    # non-triviality
    prior_gap = max(float((ref_mean - msf).abs().max()), float((ref_cov - Kss).abs().max()))
    _ST["nontrivial"] = prior_gap > 1e-3


def _has_matern05(spec):
    if spec.get("k") == "matern" and spec.get("nu") == 0.5:
        return True
    return any(_has_matern05(p) for p in spec.get("parts", [])) or ("base" in spec and _has_matern05(spec["base"]))


def build(case):
    import torch

    import gpytorch
    from vf import util

    g = util.gen(case["seed"])
    n, d, ns = case["n"], case["d"], case["ns"]
    pb, xb, tb = case["pbatch"], case["xbatch"], case["tbatch"]
    X = util.randn(g, *xb, n, d)
    xs = util.randn(g, *tb, ns, d)
    if case.get("dup"):
        X[..., 1, :] = X[..., 0, :]
        X[..., 3, :] = X[..., 2, :] + 1e-7
        xs[..., 0, :] = X[..., 4, :]
    if "multitask" in case:
        t = case["multitask"]["t"]
        y = util.randn(g, n, t)
        lik = gpytorch.likelihoods.MultitaskGaussianLikelihood(num_tasks=t, rank=min(case["multitask"]["rank"], t) if case["multitask"]["rank"] else 0)
        model = util.MTGP(X, y, lik, t, max(1, min(case["multitask"]["rank"], t)), case["kernel"], d)
        util.randomize(model, g)
        return model, lik, X, y, xs, None
    ybatch = torch.broadcast_shapes(torch.Size(pb), torch.Size(xb))
    y = util.randn(g, *ybatch, n)
    test_noise = None
    if case["lik"] == "gauss":
        lik = gpytorch.likelihoods.GaussianLikelihood(batch_shape=torch.Size(pb))
    else:
        noise = util.rand(g, *ybatch, n) * 0.5 + 0.05
        lik = gpytorch.likelihoods.FixedNoiseGaussianLikelihood(noise=noise, learn_additional_noise=case["lik"] == "fixed+learn", batch_shape=torch.Size(pb))
        test_noise = util.rand(g, *torch.broadcast_shapes(ybatch, torch.Size(tb)), ns) * 0.3 + 0.02
    model = util.GP(X, y, lik, util.build_mean(case["mean"], d, pb), util.build_kernel(case["kernel"], d, pb))
    util.randomize(model, g)
    return model, lik, X, y, xs, test_noise


def _two_inputs(case, ctx):
    """an exact GP whose forward takes TWO input tensors (points and task indices: the Hadamard multitask construction):
    the posterior at (x*, i*) is the closed-form conditional of the kernel k(x, x') B[i, i']"""
    import contextlib

    import torch

    import gpytorch
    from gpytorch import settings as S
    from vf import util

    _ST["case"] = None  # (the single-input post-condition of __call__ does not apply; this cell carries its own oracle)
    g = util.gen(case["seed"])
    n, ns, T, d = case["n"], case["ns"], case["tasks"], 2
    X, xs = util.randn(g, n, d), util.randn(g, ns, d)
    I, Is = torch.randint(0, T, (n, 1), generator=g), torch.randint(0, T, (ns, 1), generator=g)
    y = util.randn(g, n)
    K = gpytorch.kernels

    class Had(gpytorch.models.ExactGP):
        def __init__(s, lik):
            super().__init__((X, I), y, lik)
            s.mean_module = gpytorch.means.ConstantMean()
            s.covar_module = K.ScaleKernel(K.MaternKernel(nu=2.5))
            s.task_covar_module = K.IndexKernel(num_tasks=T, rank=1)

        def forward(s, x, i):
            return gpytorch.distributions.MultivariateNormal(s.mean_module(x), s.covar_module(x).mul(s.task_covar_module(i)))

    if case["lik"] == "gauss":
        lik = gpytorch.likelihoods.GaussianLikelihood()
        noise = None
    else:
        noise = util.rand(g, n) * 0.4 + 0.05
        lik = gpytorch.likelihoods.FixedNoiseGaussianLikelihood(noise=noise)
    model = Had(lik)
    util.randomize(model, g, 0.5)
    model.eval()
    with torch.no_grad(), S.lazily_evaluate_kernels(False):
        B = model.task_covar_module.covar_matrix.to_dense()
        Xa, Ia = torch.cat([X, xs]), torch.cat([I, Is]).squeeze(-1)
        J = model.covar_module(Xa).to_dense() * B[Ia][:, Ia]
        mu = model.mean_module(Xa)
        Sn = (lik.noise.detach() * torch.eye(n)) if noise is None else torch.diag(noise)
        ref_m, ref_c, _, _ = util.dense_conditional(J[:n, :n], J[n:, :n], J[n:, n:], mu[:n], mu[n:], Sn, y)
    sd = case["settings"]
    iterative = sd.get("max_cholesky_size") == 0
    with util.settings_ctx(sd, tight=True, n=n + ns, predict_only=True), torch.no_grad():
        try:
            out = model(xs, Is)
            mean, cov = out.mean, out.covariance_matrix
            out2 = model(xs.clone(), Is.clone())  # served from the caches of the first call
        except Exception as e:
            ctx.fail("posterior_mean", f"two-input exact GP raised {type(e).__name__}: {str(e)[:150]}", "raise", exc=type(e).__name__, two_inputs=True)
            ctx.cell({k: v for k, v in case.items() if k != "seed"})
            return
    tol = ("iter" if iterative else "direct") if not sd.get("fast_pred_var") else ("lanczos" if iterative else "loose")
    cls = "two_inputs:" + ("cg" if iterative else "chol") + ("+love" if sd.get("fast_pred_var") else "")
    ctx.close("posterior_mean", mean, ref_m, "iter" if iterative else "direct", cls=cls + ":mean")
    ctx.close("posterior_covar", cov, ref_c, tol, cls=cls + ":covar")
    ctx.close("posterior_mean", out2.mean, ref_m, "iter" if iterative else "direct", cls=cls + ":mean:second_call")
    ctx.close("posterior_covar", out2.covariance_matrix, ref_c, tol, cls=cls + ":covar:second_call")
    ctx.hit("likelihood_adds_noise", 0)
    ctx.cell({k: v for k, v in case.items() if k != "seed"}, nontrivial=float((ref_m - mu[n:]).abs().max()) > 1e-3)


def run_case(case, ctx):
    import contextlib

    import torch

    if case.get("two_inputs"):
        return _two_inputs(case, ctx)

    # environment of the call: the process-wide default dtype (objects are float64 whatever it is) and the autograd mode
    dflt = case.get("default_dtype")
    gm = {"no_grad": torch.no_grad, "inference": torch.inference_mode}.get(case.get("grad_mode"), contextlib.nullcontext)
    if dflt == "float32":
        torch.set_default_dtype(torch.float32)
    try:
        with gm():
            return _run_case(case, ctx)
    finally:
        torch.set_default_dtype(torch.float64)


def _run_case(case, ctx):
    import torch

    import gpytorch
    from gpytorch import settings as S
    from vf import util

    model, lik, X, y, xs, test_noise = build(case)
    if case.get("xs_float32"):
        xs = xs.float()
    if case.get("default_dtype") == "float32":
        model = model.double()  # constructed while float32 was the default (constraint bounds, buffers), then converted
        lik = model.likelihood
    model.eval()
    lik.eval()
    n, ns = case["n"], case["ns"]
    t = case.get("multitask", {}).get("t", 1)
    sd = dict(case["settings"])
    joint = (n + ns) * t
    sd["max_eager_kernel_size"] = joint if sd["max_eager_kernel_size"] == "equal" else (joint + 5 if sd["max_eager_kernel_size"] == "above" else max(1, joint - 1))
    if case.get("threshold"):
        sd["max_cholesky_size"] = {"n": n * t, "n-1": n * t - 1, "ns": ns * t, "ns-1": ns * t - 1, "joint": joint, "joint-1": joint - 1}[case["threshold"]]
    _ST["case"] = case
    _ST["settings_at_call"] = sd
    _ST["nontrivial"] = False
    _before = [t_.detach().clone() for t_ in (X, y, xs)]
    if case.get("lowrank_fast_first"):
        from vf import attach

        with attach.quiet(), torch.no_grad(), util.settings_ctx(dict(sd, fast_pred_var=True), tight=True, n=joint, predict_only=True), S.max_root_decomposition_size(4):
            model(xs)  # a rank-4 LOVE prediction (solves converged as in every other cell): the documented approximation, not compared
        ctx.hit("lowrank_fast_call_first")
    try:
        with util.settings_ctx(sd, tight=True, n=joint, predict_only=True):
            try:
                lanczos_love = sd.get("fast_pred_var") and sd.get("max_cholesky_size") == 0
                for attempt in range(3 if lanczos_love else 1):
                    # LOVE on the Lanczos branch starts from a random probe vector; in floating point the "full-rank"
                    # Krylov basis occasionally degenerates (2 of 8860 thorough cases, error 4x the tolerance): a case
                    # counts only if it fails for three different probe vectors (a defect fails for all of them)
                    mark = len(ctx._fail)
                    if attempt:
                        torch.manual_seed(case["seed"] + attempt)
                        model.prediction_strategy = None
                    out = model(xs)
                    if len(ctx._fail) == mark:
                        break
                    if attempt < 2:
                        del ctx._fail[mark:]
                        ctx.info["lanczos_love_retry"] += 1
                with torch.no_grad():
                    cov = out.covariance_matrix
            except Exception as e:
                import traceback

                ctx.fail("call_raised", f"{type(e).__name__}: {str(e)[:200]}", "raise", exc=type(e).__name__, traceback=traceback.format_exc(limit=6)[-1200:])
                return
            with torch.no_grad():
                # passing the posterior through the likelihood adds exactly the observation noise
                if "multitask" in case:
                    pl = lik(out)
                    add = pl.covariance_matrix - cov
                    if lik.rank == 0:
                        D = torch.diag_embed(lik.task_noises) if hasattr(lik, "task_noises") else torch.zeros(t, t)
                    else:
                        D = lik.task_noise_covar
                    ref = torch.kron(torch.eye(ns), D + lik.noise * torch.eye(t))
                    ctx.close("likelihood_adds_noise", add, ref.expand(add.shape), "direct", cls="lik:mt")
                    ctx.close("likelihood_keeps_mean", pl.mean, out.mean, "bit")
                elif case["lik"] == "gauss":
                    pl = lik(out)
                    add = pl.covariance_matrix - cov
                    ref = lik.noise.unsqueeze(-1) * torch.eye(ns)
                    ctx.close("likelihood_adds_noise", add, ref.expand(add.shape), "direct", cls="lik:gauss")
                    ctx.close("likelihood_keeps_mean", pl.mean, out.mean, "bit")
                    if case["seed"] % 3 == 1:
                        # a `noise=` keyword at call time is "used directly" (noise_models docstring): also values below the
                        # lower bound of the LEARNED noise
                        tn_ = (util.rand(util.gen(case["seed"] + 17), ns) + 0.01) * torch.tensor([1.0, 1e-6, 1e-3])[torch.arange(ns) % 3]
                        pl2 = lik(out, noise=tn_.expand(*cov.shape[:-2], ns))
                        ctx.close("likelihood_adds_noise", pl2.covariance_matrix - cov, torch.diag_embed(tn_).expand(cov.shape), (1e-12, 1e-10), cls="lik:gauss:call_time_noise")
                else:
                    pl = lik(out, noise=test_noise)
                    add = pl.covariance_matrix - cov
                    ref = torch.diag_embed(test_noise.expand(*add.shape[:-2], ns))
                    if case["lik"] == "fixed+learn":
                        ref = ref + lik.second_noise.unsqueeze(-1) * torch.eye(ns)
                    ctx.close("likelihood_adds_noise", add, ref.expand(add.shape), "direct", cls="lik:" + case["lik"])
            ctx.expect("inputs_not_mutated", all(bool(torch.equal(a_.detach(), b_)) for a_, b_ in zip((X, y, xs), _before)), "prediction changed the training inputs / targets / test inputs in place")
            if case["seed"] % 3 == 0 and not (sd.get("fast_pred_var") and sd.get("max_cholesky_size") == 0):
                # the same test-input BUFFER refilled in place, second call on the same model (caches are now warm): the
                # post-condition on ExactGP.__call__ decides this call like the first
                with torch.no_grad():
                    xs.copy_(xs + 0.37 * util.randn(util.gen(case["seed"] + 5), *xs.shape))
                model(xs)
                ctx.hit("second_call_refilled_buffer")
            if case["seed"] % 2 == 1 and sd.get("fast_pred_var") and not sd.get("skip_posterior_variances") and "multitask" not in case:
                # the same model object next under the EXACT setting (fast_pred_var off) after a fast-variance call left its
                # (possibly low-rank) root caches behind: decided by the same post-condition with the exact tolerances
                sd2 = dict(sd, fast_pred_var=False)
                _ST["settings_at_call"] = sd2
                with S.fast_pred_var(False):
                    model(xs)
                _ST["settings_at_call"] = sd
                ctx.hit("second_call_exact_after_fast")
            if (case["seed"] % 4 == 2 and "multitask" not in case and not case.get("threshold") and sd.get("max_cholesky_size") != 0 and not sd.get("skip_posterior_variances")
                    and not (case["pbatch"] or case["xbatch"] or case["tbatch"]) and n >= 2 and not case.get("default_dtype") and not case.get("large_cg")):
                # a model obtained through get_fantasy_model is an exact GP like any other: its posterior (from caches updated
                # by a low-rank step, not recomputed) is the closed form for ITS training data and ITS likelihood - decided by
                # the same post-condition, covariances at the tolerance of the cache update (1e-4 with fast variances)
                gf = util.gen(case["seed"] + 11)
                kf = 1 + case["seed"] % 3
                xf, yf = util.randn(gf, kf, case["d"]), util.randn(gf, kf)
                kwf = {"noise": util.rand(gf, kf) * 0.3 + 0.05} if case["lik"] != "gauss" else {}
                with torch.no_grad():
                    model.prediction_strategy = None
                    model(xs)
                    try:
                        fm = model.get_fantasy_model(xf, yf, **kwf)
                    except NotImplementedError:
                        ctx.info["fantasy_documented_as_unsupported"] += 1  # (random-feature models say so)
                        fm = None
                    except Exception as e:
                        ctx.fail("call_raised", f"get_fantasy_model raised {type(e).__name__}: {str(e)[:160]}", "raise", exc=type(e).__name__, fantasy=True)
                        fm = None
                    if fm is not None:
                        _ST["covar_tol_override"] = "loose" if sd.get("fast_pred_var") else (1e-7, 1e-7)
                        try:
                            fm(xs)
                            ctx.hit("fantasy_model_call")
                        finally:
                            _ST["covar_tol_override"] = None
            if (case["seed"] % 5 == 1 and case["lik"] in ("fixed", "fixed+learn") and "multitask" not in case and not case.get("threshold") and not sd.get("skip_posterior_variances")
                    and not (case["pbatch"] or case["xbatch"] or case["tbatch"]) and not case.get("default_dtype") and not case.get("large_cg")):
                # the same models as members of an IndependentModelList: each member's posterior is decided by the post-condition,
                # and the list likelihood with per-member call-time noise (None = "this member's own") adds to every member
                # exactly what that member's likelihood adds when called alone
                import warnings

                m2, l2, _, _, xs2, tn2 = build(dict(case, seed=case["seed"] + 1))
                m2.eval()
                ml = gpytorch.models.IndependentModelList(model, m2)
                with torch.no_grad(), warnings.catch_warnings():
                    warnings.simplefilter("ignore")
                    outs = ml(xs, xs2)
                    for pattern in ([test_noise, None], [None, tn2], [test_noise, tn2], [None, None]):
                        got = ml.likelihood(*outs, noise=pattern)
                        for o_, l_, nz_, g_ in zip(outs, (lik, l2), pattern, got):
                            alone = l_(o_, noise=nz_) if nz_ is not None else l_(o_)
                            ctx.close("likelihood_adds_noise", g_.covariance_matrix, alone.covariance_matrix, "bit", cls="lik:list:" + "".join("t" if p_ is not None else "n" for p_ in pattern))
                            if nz_ is not None:
                                ref = o_.covariance_matrix + torch.diag_embed(nz_.expand(*o_.covariance_matrix.shape[:-2], ns))
                                if case["lik"] == "fixed+learn":
                                    ref = ref + l_.second_noise.unsqueeze(-1) * torch.eye(ns)
                                ctx.close("likelihood_adds_noise", g_.covariance_matrix, ref, "direct", cls="lik:list:explicit")
                ctx.hit("model_list_likelihood")
    finally:
        _ST["case"] = None
        _ST["covar_tol_override"] = None
    cell = {k: v for k, v in case.items() if k not in ("seed", "hostile")}
    ctx.cell(cell, nontrivial=_ST["nontrivial"])


def _lo_kronecker_lanczos(case, fl):
    """linear_operator's Kronecker-structured operators (KroneckerProductAddedDiag / SumKronecker) return wrong
    root-inverse decompositions / solves when max_cholesky_size forces their Lanczos branch - outside the repository.
    Only multitask (Kronecker) models under max_cholesky_size below the matrix size."""
    return "multitask" in case and case["settings"].get("max_cholesky_size") == 0 and fl["monitor"] in (
        "posterior_mean", "posterior_covar", "posterior_variance", "mean_cache", "covar_cache_is_inverse_root")


def _batch_broadcast_crash(case, fl):
    """parameter batch (b) with un-batched training inputs and a test-input batch of higher rank, e.g. (c,1): the library
    raises a size-mismatch RuntimeError while evaluating the joint kernel (crash, not a silent error)."""
    return (
        fl["monitor"] == "call_raised" and fl.get("exc") == "RuntimeError" and "must match the size of tensor" in fl["detail"]
        and len(case["pbatch"]) > 0 and len(case["tbatch"]) > len(case["pbatch"]) and not case["xbatch"]
    )


MATCHERS = {"C01-LO-kronecker-lanczos": _lo_kronecker_lanczos, "C01-param-batch-vs-higher-rank-test-batch-crash": _batch_broadcast_crash}
