"""C13 - non-Gaussian likelihoods: exact quadrature rule, analytic Bernoulli marginal, log Phi.

Monitors on the real GaussHermiteQuadrature1D.forward (post-condition: the distribution handed in is not mutated; path
witness), the likelihoods' expected_log_prob / log_marginal / forward / marginal and LogNormalCDF.  Oracles:
(a) exact Gaussian moments for every monomial / random polynomial of degree < 2*num_locs (degree 2*num_locs must NOT be
exact), (b) the exact Gauss-Hermite rule recomputed with 30-digit mpmath (Golub-Welsch) applied to the DOCUMENTED
conditional densities, (c) Phi(m/sqrt(1+v)), (d) documented conditional-distribution parameters, (e) mpmath log Phi on a
dense grid incl. the branch borders, gradient vs phi/Phi.
"""
import itertools
import random

PROPERTY = "C13"
RULE = (
    'case kinds: (poly) num_locs in {1,2,3,5,10,20,32,40} x mean/variance regime x batch shape x distribution type (torch Normal, MVN with dense '
    '/ diagonal lazy covariance, same object integrated twice); (lik) likelihood in {Laplace, StudentT, Beta, Bernoulli} x num_locs x batch x '
    '{ordinary, outlying observations}; (bernoulli) marginal; (softmax) points x features x classes x mixing x batch incl. points==features; (logcdf) grid chunk; distinct = cell without seed; non-trivial iff variance>0 '
    '(always) and degree>=1'
    '; pass 5: SoftmaxLikelihood (points x features layout incl. points == features, replayed draws); likelihood / Bernoulli / log-Phi cells under trace_mode and debug(False); likelihoods in both modes'
    '; pass 6: 60 000 - 250 000 Gaussians integrated in one call'
    "; pass 8: log_normal_cdf on blocks whose entries all fall into one branch (value, derivative, argument untouched); Bernoulli log marginal decided in probability space"
    "; pass 9: multitask normals (interleaved / non-interleaved, dense / lazy, unequal variances) in the polynomial-exactness cells; Bernoulli marginal under skip_posterior_variances"
    "; pass 10: Student-t likelihood with 1.6e4..1.6e6 degrees of freedom"
)
REQUIRED = ["poly_exact", "poly_degree_2n_not_exact", "dist_not_mutated", "lik_expected_log_prob", "lik_log_marginal", "bernoulli_marginal", "conditional_params", "log_normal_cdf", "log_normal_cdf_grad", "truncation_error_shrinks"]
ASSUMPTIONS = [
    "likelihood integrals are compared with the exact Gauss-Hermite rule (mpmath nodes/weights) applied to the documented conditional density; the truncation error vs mpmath.quad is only required to have a smaller envelope (worst over 5 points and 60..64 nodes) than at 6..10 nodes",
    "Bernoulli expected_log_prob integrates the library's approximate log_normal_cdf: compared at 2e-3",
]
ANCHOR_FILES = ["gpytorch/utils/quadrature.py", "gpytorch/likelihoods/", "gpytorch/functions/_log_normal_cdf.py"]

NLOCS = [1, 2, 3, 5, 10, 20, 32, 40]


def cases(tier, seed):
    rnd = random.Random(13000 + seed)
    reps = 1 if tier == "quick" else 24
    for _ in range(reps):
        for nl, b, kind_ in itertools.product([2, 5, 20], [[], [2]], ["mt_interleaved", "mt_noninterleaved", "mt_noninterleaved_lazy"]):
            yield {"kind": "poly", "num_locs": nl, "regime": "std", "batch": b, "dist": kind_, "seed": rnd.randrange(10**6)}
        for nl, regime, b, dtype in itertools.product(NLOCS, ["std", "smallvar", "largevar", "farmean"], [[], [3], [2, 3]], ["normal", "mvn_dense", "mvn_diag"]):
            if tier == "quick" and rnd.random() < 0.6:
                continue
            yield {"kind": "poly", "num_locs": nl, "regime": regime, "batch": b, "dist": dtype, "seed": rnd.randrange(10**6)}
        for lik, nl, b in itertools.product(["laplace", "studentt", "beta", "bernoulli"], [5, 20, 32], [[], [2]]):
            yield {"kind": "lik", "lik": lik, "num_locs": nl, "batch": b, "seed": rnd.randrange(10**6)}
            if lik in ("laplace", "studentt"):
                # outlying observations: marginal densities far below machine epsilon (log densities around -40 .. -100)
                yield {"kind": "lik", "lik": lik, "num_locs": nl, "batch": b, "outlier": True, "seed": rnd.randrange(10**6)}
        for nl, b in itertools.product([20, 32], [[], [2]]):
            yield {"kind": "lik", "lik": "studentt", "num_locs": nl, "batch": b, "big_df": True, "seed": rnd.randrange(10**6)}
        for b in ([], [2], [3, 2]):
            yield {"kind": "bernoulli", "batch": b, "seed": rnd.randrange(10**6)}
        yield {"kind": "truncation", "lik": "laplace", "seed": rnd.randrange(10**6)}
        yield {"kind": "truncation", "lik": "studentt", "seed": rnd.randrange(10**6)}
        # softmax: conditional = Categorical(softmax(W f)) in the documented (points x features) layout, whatever sizes coincide
        for n, f, c, mix, b in itertools.product([1, 3, 4], [3, 4], [2, 4], [True, False], [[], [2]]):
            if not mix and c != f:
                continue
            yield {"kind": "softmax", "n": n, "f": f, "c": c, "mix": mix, "batch": b, "seed": rnd.randrange(10**6)}
    for nl, shape in ((20, [60000]), (64, [300, 70]), (5, [250000]), (20, [1100, 1000] if tier != "quick" else [700, 100])):
        yield {"kind": "poly_many", "num_locs": nl, "shape": shape, "seed": rnd.randrange(10**6)}
    nchunks = 4 if tier == "quick" else 40
    for c in range(nchunks):
        yield {"kind": "logcdf", "chunk": c, "nchunks": nchunks, "seed": rnd.randrange(10**6)}
    # the same statements under global switches they are rarely combined with (same values expected)
    for env in ({"trace_mode": True}, {"debug": False}, {"trace_mode": True, "debug": False}):
        for c in range(2 if tier == "quick" else 10):
            yield {"kind": "logcdf", "chunk": c, "nchunks": 2 if tier == "quick" else 10, "env": env, "seed": rnd.randrange(10**6)}
        for lik, nl, b in itertools.product(["laplace", "studentt", "beta", "bernoulli"], [20], [[], [2]]):
            yield {"kind": "lik", "lik": lik, "num_locs": nl, "batch": b, "env": env, "seed": rnd.randrange(10**6)}
        yield {"kind": "bernoulli", "batch": [2], "env": env, "seed": rnd.randrange(10**6)}


_ST = {}


def setup(ctx):
    import torch

    from gpytorch.utils.quadrature import GaussHermiteQuadrature1D as Q
    from vf import attach

    _ST["ctx"] = ctx

    def before(a, k):
        d = a[2] if len(a) > 2 else k.get("gaussian_dists")
        return (d.mean.detach().clone(), d.variance.detach().clone())

    def after(a, k, out, tok):
        ctx.hit("monitor:quadrature_forward")
        if ctx._case is None:
            return
        d = a[2] if len(a) > 2 else k.get("gaussian_dists")
        ok = torch.equal(d.mean.detach(), tok[0]) and torch.equal(d.variance.detach(), tok[1])
        ctx.expect("dist_not_mutated", ok, "GaussHermiteQuadrature1D.forward changed the mean/variance of the distribution it was given")

    attach.wrap(Q, "forward", before=before, after=after)


def _moment(k, m, v):
    """E[x^k], x ~ N(m, v) and the sum of |terms| (scale for cancellation)"""
    from math import comb

    tot, scale = 0.0, 0.0
    df = 1.0
    for j in range(0, k // 2 + 1):
        if j > 0:
            df *= 2 * j - 1
        t = comb(k, 2 * j) * (m ** (k - 2 * j)) * (v**j) * df
        tot += t
        scale += abs(t)
    return tot, scale


def _gh_rule(n):
    """Golub-Welsch in 30-digit arithmetic: nodes/weights of the physicists' Gauss-Hermite rule"""
    if ("gh", n) in _ST:
        return _ST[("gh", n)]
    import mpmath as mp

    mp.mp.dps = 30
    J = mp.zeros(n, n)
    for i in range(1, n):
        J[i - 1, i] = J[i, i - 1] = mp.sqrt(mp.mpf(i) / 2)
    if n == 1:
        nodes, w = [mp.mpf(0)], [mp.sqrt(mp.pi)]
    else:
        E, Qm = mp.eigsy(J)
        nodes = [E[i] for i in range(n)]
        w = [mp.sqrt(mp.pi) * Qm[0, i] ** 2 for i in range(n)]
    _ST[("gh", n)] = (nodes, w)
    return nodes, w


def run_case(case, ctx):
    from vf import util

    g = util.gen(case["seed"])
    import contextlib

    import torch

    import gpytorch

    env = case.get("env") or {}
    with contextlib.ExitStack() as st:
        if env.get("trace_mode"):
            st.enter_context(gpytorch.settings.trace_mode(True))
        if "debug" in env:
            st.enter_context(gpytorch.settings.debug(env["debug"]))
        if env.get("no_grad"):
            st.enter_context(torch.no_grad())
        return _dispatch(case, ctx, g)


def _dispatch(case, ctx, g):
    return {"poly": _poly, "poly_many": _poly_many, "lik": _lik, "bernoulli": _bern, "logcdf": _logcdf, "truncation": _trunc, "softmax": _softmax}[case["kind"]](case, ctx, g)


def _mv(case, g, shape):
    import torch

    from vf import util

    r = case.get("regime", "std")
    m = util.randn(g, *shape) * (4.0 if r == "farmean" else 1.0)
    if r == "smallvar":
        v = 10 ** (util.rand(g, *shape) * 3 - 4)
    elif r == "largevar":
        v = 10 ** (util.rand(g, *shape) * 2)
    else:
        v = util.rand(g, *shape) * 2 + 0.05
    return m, v


def _mkdist(kind, m, v):
    import torch
    from linear_operator.operators import DiagLinearOperator

    from gpytorch.distributions import MultivariateNormal as MVN

    if kind == "normal":
        return torch.distributions.Normal(m, v.sqrt())
    if kind.startswith("mt_"):
        # multitask normal over (points x tasks) with unequal variances; covariance laid out point-major (interleaved) or
        # task-major (non-interleaved) - the entry (i, t) is integrated against ITS variance either way
        from gpytorch.distributions import MultitaskMultivariateNormal as MT

        inter = kind == "mt_interleaved"
        flat = v.reshape(*v.shape[:-2], -1) if inter else v.transpose(-1, -2).reshape(*v.shape[:-2], -1)
        return MT(m, torch.diag_embed(flat) if kind != "mt_noninterleaved_lazy" else DiagLinearOperator(flat), interleaved=inter)
    if kind == "mvn_diag":
        return MVN(m, DiagLinearOperator(v))
    sd = v.sqrt()
    corr = 0.3 * torch.ones(m.shape[-1], m.shape[-1]) + 0.7 * torch.eye(m.shape[-1])
    C = sd.unsqueeze(-1) * corr * sd.unsqueeze(-2)
    return MVN(m, C)


def _poly_many(case, ctx, g):
    """very many Gaussians integrated in ONE call (a whole data set's marginals: tens of thousands x num_locs evaluations):
    central moments up to degree 4 and E x, E x^2 in closed form, vectorised"""
    import torch

    from gpytorch import settings as S
    from gpytorch.utils.quadrature import GaussHermiteQuadrature1D as Q

    nl, shape = case["num_locs"], case["shape"]
    m = torch.randn(*shape, generator=g, dtype=torch.float64) * 2
    v = torch.rand(*shape, generator=g, dtype=torch.float64) * 3 + 0.05
    with S.num_gauss_hermite_locs(nl):
        q = Q()
    dist = torch.distributions.Normal(m, v.sqrt())
    cls = f"many:n{nl}:{m.numel()}"
    ctx.close("poly_exact", q(lambda x: torch.ones_like(x), dist), torch.ones_like(m), (1e-12, 0.0), cls=cls + ":deg0")
    ctx.close("poly_exact", q(lambda x: x, dist), m, (1e-10, 1e-10), cls=cls + ":deg1")
    ctx.close("poly_exact", q(lambda x: x * x, dist), m * m + v, (1e-10, 1e-10), cls=cls + ":deg2")
    ctx.close("poly_exact", q(lambda x: (x - m) ** 3, dist), torch.zeros_like(m), (1e-9, 0.0), cls=cls + ":deg3")
    if nl >= 3:
        ctx.close("poly_exact", q(lambda x: (x - m) ** 4, dist), 3 * v * v, (1e-10, 1e-10), cls=cls + ":deg4")
    ctx.cell({k_: v_ for k_, v_ in case.items() if k_ != "seed"})


def _poly(case, ctx, g):
    import torch

    from gpytorch import settings as S
    from gpytorch.utils.quadrature import GaussHermiteQuadrature1D as Q

    nl, b = case["num_locs"], case["batch"]
    shape = (*b, 3) if not case["dist"].startswith("mt_") else (*b, 3, 2)
    m, v = _mv(case, g, shape)
    with S.num_gauss_hermite_locs(nl):
        q = Q()
    ctx.expect("num_locs_from_setting", q.locations.numel() == nl and q.locations.dtype == torch.float64, f"{q.locations.numel()} locations of dtype {q.locations.dtype} for num_gauss_hermite_locs({nl})")
    dist = _mkdist(case["dist"], m, v)
    cls = f"n{nl}:{case['regime']}"
    mf, vf = m.reshape(-1).tolist(), v.reshape(-1).tolist()
    degs = list(range(0, 2 * nl)) if nl <= 10 else sorted(set(list(range(0, 6)) + list(range(2 * nl - 8, 2 * nl)) + [nl, nl + 1]))
    for rep in range(2):  # the same distribution object is integrated twice (no hidden mutation)
        for k in degs:
            got = q(lambda x: x**k, dist).reshape(-1)
            ref = torch.tensor([_moment(k, a, c)[0] for a, c in zip(mf, vf)])
            sc = torch.tensor([_moment(k, a, c)[1] for a, c in zip(mf, vf)])
            err = ((got - ref).abs() / (sc * 5e-10 + 1e-300)).max()
            ctx.expect("poly_exact", bool(err <= 1), f"degree {k} < 2*{nl}: max |got-ref|/(5e-10*scale) = {float(err):.3g} ({case['dist']}, pass {rep})", degree=k, num_locs=nl, err=float(err))
    # a random polynomial of degree 2n-1
    coef = torch.randn(2 * nl, generator=g)
    got = q(lambda x: sum(c * x**i for i, c in enumerate(coef)), dist).reshape(-1)
    ref = torch.tensor([sum(float(c) * _moment(i, a, cc)[0] for i, c in enumerate(coef)) for a, cc in zip(mf, vf)])
    sc = torch.tensor([sum(abs(float(c)) * _moment(i, a, cc)[1] for i, c in enumerate(coef)) for a, cc in zip(mf, vf)])
    ctx.expect("poly_exact", bool(((got - ref).abs() <= sc * 5e-10 + 1e-300).all()), f"random polynomial of degree {2*nl-1}", degree=2 * nl - 1, num_locs=nl)
    # dtype / device conversions of the rule object keep the rule (n nodes, same exactness), also outside the settings block
    import copy

    for conv in ("double", "to_float64", "float_roundtrip"):
        qc = copy.deepcopy(q)
        qc = qc.double() if conv == "double" else (qc.to(torch.float64) if conv == "to_float64" else qc.float().double())
        ctx.expect("conversion_keeps_rule", qc.locations.numel() == nl and qc.weights.numel() == nl, f"{conv}: {qc.locations.numel()} nodes after conversion of a {nl}-node rule", conv=conv, num_locs=nl)
        if conv != "float_roundtrip" and qc.locations.numel() == nl:
            kk = 2 * nl - 2 if nl > 1 else 0
            got = qc(lambda x: x**kk, dist).reshape(-1)
            ref = torch.tensor([_moment(kk, a, c)[0] for a, c in zip(mf, vf)])
            sc = torch.tensor([_moment(kk, a, c)[1] for a, c in zip(mf, vf)])
            ctx.expect("conversion_keeps_rule", bool(((got - ref).abs() <= sc * 5e-10 + 1e-300).all()), f"{conv}: degree {kk} no longer exact after conversion", conv=conv, num_locs=nl)
    # single precision inputs (float32 mean / variance, small variances): central moments to float32 accuracy
    m32 = m.float()
    v32 = (v.float() * 0 + 10.0 ** (-6 + 3 * torch.rand(v.shape, generator=g, dtype=torch.float64))).float()
    d32 = torch.distributions.Normal(m32, v32.sqrt())
    if nl >= 2:
        var32 = q(lambda x: (x - m32) ** 2, d32)
        ctx.expect("float32_central_moment", bool(((var32.double() - v32.double()).abs() <= 2e-5 * v32.double()).all()), f"float32: E(x-m)^2 deviates from v by {float(((var32.double() - v32.double()).abs() / v32.double()).max()):.2e} relative (v in 1e-6..1e-3)", num_locs=nl)
        mean32 = q(lambda x: x, d32)
        ctx.expect("float32_central_moment", bool(((mean32.double() - m32.double()).abs() <= 1e-5 * (m32.double().abs() + v32.double().sqrt())).all()), "float32: E x deviates from m", num_locs=nl)
    # guard against a vacuous oracle: degree 2n is not integrated exactly
    k = 2 * nl
    got = q(lambda x: (x - m) ** k, dist).reshape(-1)
    df = 1.0
    for j in range(1, nl + 1):
        df *= 2 * j - 1
    ref = torch.tensor([c**nl * df for c in vf])
    if nl <= 10:  # the relative defect n!/(2n-1)!! of the rule at degree 2n drops below rounding for larger n
        ctx.expect("poly_degree_2n_not_exact", bool(((got - ref).abs() > 1e-6 * ref.abs()).all()), "degree 2n integrated exactly: the exactness oracle would be vacuous")
    ctx.cell({k_: v_ for k_, v_ in case.items() if k_ != "seed"})


def _lik_objects(case, g):
    import torch

    import gpytorch
    from gpytorch import settings as S
    from vf import util

    L = gpytorch.likelihoods
    b = case["batch"]
    with S.num_gauss_hermite_locs(case["num_locs"]):
        if case["lik"] == "laplace":
            lik = L.LaplaceLikelihood(batch_shape=torch.Size(b))
        elif case["lik"] == "studentt":
            lik = L.StudentTLikelihood(batch_shape=torch.Size(b))
        elif case["lik"] == "beta":
            lik = L.BetaLikelihood(batch_shape=torch.Size(b))
        else:
            lik = L.BernoulliLikelihood()
    util.randomize(lik, g, 0.5)
    if case.get("big_df"):
        # degrees of freedom far beyond the usual range (near-Gaussian tails): still the Student-t density of THAT parameter
        lik.deg_free = 10.0 ** (4.2 + 2.0 * util.rand(g, *lik.deg_free.shape))
    if case["seed"] % 2:
        lik.eval()  # the statements hold in either mode
    return lik


def _logdens(case, lik, bi):
    """documented conditional log-density log p(y|f) as an mpmath function of (y, f) for batch element bi"""
    import mpmath as mp

    def par(t):
        t = t.detach().reshape(-1)
        return mp.mpf(float(t[bi if t.numel() > 1 else 0]))

    if case["lik"] == "laplace":
        s = mp.sqrt(par(lik.noise))
        return lambda y, f: -mp.log(2 * s) - abs(y - f) / s
    if case["lik"] == "studentt":
        s, nu = mp.sqrt(par(lik.noise)), par(lik.deg_free)
        return lambda y, f: mp.loggamma((nu + 1) / 2) - mp.loggamma(nu / 2) - mp.log(nu * mp.pi) / 2 - mp.log(s) - (nu + 1) / 2 * mp.log(1 + ((y - f) / s) ** 2 / nu)
    if case["lik"] == "beta":
        s = par(lik.scale)

        def f_(y, f, shift):
            mix = 1 / (1 + mp.exp(-f))
            a, bb = mix * s + shift, (1 - mix) * s + shift
            return (a - 1) * mp.log(y) + (bb - 1) * mp.log(1 - y) - (mp.loggamma(a) + mp.loggamma(bb) - mp.loggamma(a + bb))

        return lambda y, f, shift=0: f_(y, f, shift)
    if case["lik"] == "bernoulli":
        return lambda y, f: mp.log(mp.ncdf((2 * y - 1) * f))


def _lik(case, ctx, g):
    import mpmath as mp
    import torch

    from gpytorch.distributions import MultivariateNormal as MVN
    from vf import util

    mp.mp.dps = 30
    lik = _lik_objects(case, g)
    b = case["batch"]
    n = 3
    m, v = util.randn(g, *b, n), util.rand(g, *b, n) * 1.5 + 0.05
    d = MVN(m, torch.diag_embed(v))
    if case["lik"] == "beta":
        y = util.rand(g, *b, n) * 0.8 + 0.1
    elif case["lik"] == "bernoulli":
        y = (util.rand(g, *b, n) > 0.5).double()
    else:
        y = m + util.randn(g, *b, n)
    if case.get("outlier"):
        sc = lik.noise.detach().sqrt().expand(*b, 1) if b else lik.noise.detach().sqrt().reshape(1)
        y = m + (80.0 if case["lik"] == "laplace" else 1e7) * sc * torch.sign(util.randn(g, *b, n))
    with torch.no_grad():
        elp = lik.expected_log_prob(y, d)
        lm = lik.log_marginal(y, d)
    nodes, w = _gh_rule(case["num_locs"])
    sp = mp.sqrt(mp.pi)
    nb = 1
    for s in b:
        nb *= s
    yf, mf, vf = y.reshape(nb, n), m.reshape(nb, n), v.reshape(nb, n)
    elpf, lmf = elp.reshape(nb, n), lm.reshape(nb, n)
    cls = f"{case['lik']}:n{case['num_locs']}" + (":outlier" if case.get("outlier") else "")
    for bi in range(nb):
        ld = _logdens(case, lik, bi)
        for i in range(n):
            yy, mm, vv = mp.mpf(float(yf[bi, i])), mp.mpf(float(mf[bi, i])), mp.mpf(float(vf[bi, i]))
            pts = [mp.sqrt(2 * vv) * x + mm for x in nodes]
            if case["lik"] == "beta":
                ref_e = sum(wi * ld(yy, f) for wi, f in zip(w, pts)) / sp
                ref_e_ship = sum(wi * ld(yy, f, 1) for wi, f in zip(w, pts)) / sp
                ref_m = mp.log(sum(wi * mp.exp(ld(yy, f)) for wi, f in zip(w, pts)) / sp)
                ref_m_ship = mp.log(sum(wi * mp.exp(ld(yy, f, 1)) for wi, f in zip(w, pts)) / sp)
                ok_doc = abs(float(ref_e) - float(elpf[bi, i])) <= 1e-9 * (1 + abs(float(ref_e)))
                ok_ship = abs(float(ref_e_ship) - float(elpf[bi, i])) <= 1e-9 * (1 + abs(float(ref_e_ship)))
                ctx.hit("lik_expected_log_prob")
                if not ok_doc:
                    ctx.fail("lik_expected_log_prob", f"Beta expected_log_prob {float(elpf[bi,i]):.8f} vs documented Beta(ms,(1-m)s) rule value {float(ref_e):.8f}", "doc-vs-code", shipped_formula=ok_ship, lik="beta")
                okm_doc = abs(float(ref_m) - float(lmf[bi, i])) <= 1e-9 * (1 + abs(float(ref_m)))
                okm_ship = abs(float(ref_m_ship) - float(lmf[bi, i])) <= 1e-9 * (1 + abs(float(ref_m_ship)))
                ctx.hit("lik_log_marginal")
                if not okm_doc:
                    ctx.fail("lik_log_marginal", f"Beta log_marginal {float(lmf[bi,i]):.8f} vs documented {float(ref_m):.8f}", "doc-vs-code", shipped_formula=okm_ship, lik="beta")
                continue
            ref_e = sum(wi * ld(yy, f) for wi, f in zip(w, pts)) / sp
            tol = (2e-3, 0.0) if case["lik"] == "bernoulli" else (1e-9, 1e-9)
            ctx.close("lik_expected_log_prob", elpf[bi, i], torch.tensor(float(ref_e)), tol, cls=cls + ":elp")
            if case["lik"] == "bernoulli":
                ref_m = mp.log(mp.ncdf((2 * yy - 1) * mm / mp.sqrt(1 + vv)))
            else:
                ref_m = mp.log(sum(wi * mp.exp(ld(yy, f)) for wi, f in zip(w, pts)) / sp)
            ctx.close("lik_log_marginal", lmf[bi, i], torch.tensor(float(ref_m)), (1e-9, 1e-9), cls=cls + ":lm")
    # the same quantities as FUNCTIONS: autograd derivatives with respect to the latent mean / variance and the likelihood's
    # own parameters agree with central differences of the very forward that was just checked
    if not case.get("outlier") and not case.get("big_df"):  # (big_df: the central difference in deg_free is rounding noise there)
        for fn_name in ("expected_log_prob", "log_marginal"):
            mm = m.clone().requires_grad_(True)
            vv = v.clone().requires_grad_(True)
            params = [p_ for p_ in lik.parameters()]
            out_ = getattr(lik, fn_name)(y, MVN(mm, torch.diag_embed(vv))).sum()
            grads = torch.autograd.grad(out_, [mm, vv] + params, allow_unused=True)

            def fwd(m_, v_):
                with torch.no_grad():
                    return float(getattr(lik, fn_name)(y, MVN(m_, torch.diag_embed(v_))).sum())

            h = 1e-6
            # Bernoulli goes through log_normal_cdf, whose delivered derivative is phi/Phi while its forward is the 2e-3
            # approximation of log Phi (C19 / the statement's "same relative accuracy"): compare at that accuracy there
            gtol = (5e-3, 5e-3) if case["lik"] == "bernoulli" else (2e-5, 2e-5)
            for which, base, gr in (("mean", m, grads[0]), ("variance", v, grads[1])):
                fd = torch.zeros_like(base)
                flat = base.reshape(-1)
                for i in range(flat.numel()):
                    e_ = torch.zeros_like(flat)
                    e_[i] = h
                    e_ = e_.reshape(base.shape)
                    fd.reshape(-1)[i] = ((fwd(m + e_, v) - fwd(m - e_, v)) if which == "mean" else (fwd(m, v + e_) - fwd(m, v - e_))) / (2 * h)
                gr = torch.zeros_like(base) if gr is None else gr
                ctx.close("lik_gradient_matches_forward", gr, fd, gtol, cls=f"{case['lik']}:{fn_name}:d_{which}")
            for p_, gr in zip(params, grads[2:]):
                fd = torch.zeros_like(p_)
                with torch.no_grad():
                    for i in range(p_.numel()):
                        old = float(p_.reshape(-1)[i])
                        p_.reshape(-1)[i] = old + h
                        up = fwd(m, v)
                        p_.reshape(-1)[i] = old - h
                        dn = fwd(m, v)
                        p_.reshape(-1)[i] = old
                        fd.reshape(-1)[i] = (up - dn) / (2 * h)
                gr = torch.zeros_like(p_) if gr is None else gr
                ctx.close("lik_gradient_matches_forward", gr, fd, gtol, cls=f"{case['lik']}:{fn_name}:d_param")
    # conditional distribution parameters
    f = util.randn(g, 2, *b, n)
    with torch.no_grad():
        cond = lik.forward(f)
    if case["lik"] == "laplace":
        ctx.close("conditional_params", torch.stack([cond.loc, cond.scale.expand(cond.loc.shape)]), torch.stack([f, lik.noise.detach().sqrt().expand(f.shape)]), "direct", cls="cond:laplace")
    elif case["lik"] == "studentt":
        ctx.close("conditional_params", torch.stack([cond.loc, cond.scale.expand(f.shape), cond.df.expand(f.shape)]), torch.stack([f, lik.noise.detach().sqrt().expand(f.shape), lik.deg_free.detach().expand(f.shape)]), "direct", cls="cond:studentt")
    elif case["lik"] == "bernoulli":
        ref = 0.5 * torch.erfc(-f / 2**0.5)
        ctx.close("conditional_params", cond.probs, ref, "direct", cls="cond:bernoulli")
    else:
        mix, s = torch.sigmoid(f), lik.scale.detach()
        ok_doc = torch.allclose(cond.concentration1, mix * s) and torch.allclose(cond.concentration0, (1 - mix) * s)
        ok_ship = torch.allclose(cond.concentration1, mix * s + 1) and torch.allclose(cond.concentration0, (1 - mix) * s + 1)
        ctx.hit("conditional_params")
        if not ok_doc:
            ctx.fail("conditional_params", "Beta concentrations differ from the documented (m s, (1-m) s)", "doc-vs-code", shipped_formula=bool(ok_ship), lik="beta")
    ctx.cell({k_: v_ for k_, v_ in case.items() if k_ != "seed"})


def _bern(case, ctx, g):
    import math

    import torch

    import gpytorch
    from gpytorch.distributions import MultivariateNormal as MVN
    from vf import util

    b = case["batch"]
    n = 4
    m, v = util.randn(g, *b, n) * 2, util.rand(g, *b, n) * 3 + 0.01
    sd = v.sqrt()
    C = sd.unsqueeze(-1) * (0.3 * torch.ones(n, n) + 0.7 * torch.eye(n)) * sd.unsqueeze(-2)
    lik = gpytorch.likelihoods.BernoulliLikelihood()
    # (also under settings that concern the POSTERIOR's computation, not the distribution handed in: it carries its variances)
    env_ = gpytorch.settings.skip_posterior_variances(True) if case["seed"] % 3 == 0 else __import__("contextlib").nullcontext()
    with torch.no_grad(), env_:
        pr = lik(MVN(m, C)).probs
        pr2 = lik.marginal(MVN(m, C)).probs
    ref = torch.tensor([0.5 * math.erfc(-mm / math.sqrt(1 + vv) / math.sqrt(2)) for mm, vv in zip(m.reshape(-1).tolist(), v.reshape(-1).tolist())]).reshape(m.shape)
    ctx.close("bernoulli_marginal", pr, ref, (1e-12, 1e-12), cls="bernoulli:call")
    ctx.close("bernoulli_marginal", pr2, ref, (1e-12, 1e-12), cls="bernoulli:marginal")
    y = (util.rand(g, *b, n) > 0.5).double()
    with torch.no_grad():
        lm = lik.log_marginal(y, MVN(m, C))
    # P(y = 0) from its own tail (1 - P(y = 1) loses every digit when P(y = 1) is close to one)
    ref0 = torch.tensor([0.5 * math.erfc(mm / math.sqrt(1 + vv) / math.sqrt(2)) for mm, vv in zip(m.reshape(-1).tolist(), v.reshape(-1).tolist())]).reshape(m.shape)
    # decided in probability space: the marginal is REPRESENTED by its probability of one, so log P(y = 0) carries the rounding of
    # 1 - p (absolute 1e-16 on p, i.e. relative 1e-16 / (1 - p) on the logarithm) -- false alarm of sweep 15, seed 3
    ctx.close("bernoulli_marginal", lm.exp(), torch.where(y > 0.5, ref, ref0), (1e-14, 1e-10), cls="bernoulli:log_marginal")
    ctx.cell({k_: v_ for k_, v_ in case.items() if k_ != "seed"})


def _softmax(case, ctx, g):
    """SoftmaxLikelihood: p(y | f) = Categorical(softmax(W f)) with f the (points x features) latent values (docstring); the
    marginal is the average over draws of f, here replayed with the same generator state."""
    import warnings

    import torch

    import gpytorch
    from gpytorch.distributions import MultitaskMultivariateNormal as MT, MultivariateNormal as MVN
    from vf import util

    n, f, c, b = case["n"], case["f"], case["c"], case["batch"]
    lik = gpytorch.likelihoods.SoftmaxLikelihood(num_features=f, num_classes=c, mixing_weights=case["mix"]).double()
    W = util.randn(g, c, f) if case["mix"] else torch.eye(f)
    if case["mix"]:
        lik.mixing_weights.data.copy_(W)
    fs = util.randn(g, *b, n, f) * 1.5
    with warnings.catch_warnings():
        warnings.simplefilter("ignore")
        with torch.no_grad():
            out = lik.forward(fs)
            out2 = lik(fs)
    ref = torch.softmax(fs @ W.t(), -1)
    cls = f"softmax:{'mix' if case['mix'] else 'identity'}:{'n==features' if n == f else 'n!=features'}"
    ctx.close("conditional_params", out.probs, ref, (1e-12, 1e-12), cls=cls + ":forward")
    ctx.close("conditional_params", out2.probs, ref, (1e-12, 1e-12), cls=cls + ":call")
    # marginal over a multitask distribution: same draws -> same class probabilities
    A = util.randn(g, *b, n * f, n * f) * 0.3
    dist = MT(util.randn(g, *b, n, f), A @ A.transpose(-1, -2) + 0.1 * torch.eye(n * f))
    y = torch.randint(0, c, (*b, n), generator=g)
    with warnings.catch_warnings():
        warnings.simplefilter("ignore")
        # evaluation mode draws from the joint; training mode (documented for the objective) from the independent marginals
        if case["seed"] % 2:
            lik.eval()
        with torch.no_grad(), gpytorch.settings.num_likelihood_samples(7):
            torch.manual_seed(case["seed"])
            mo = lik(dist)
            torch.manual_seed(case["seed"])
            elp = lik.expected_log_prob(y, dist)
            torch.manual_seed(case["seed"])
            if lik.training:
                draws = torch.distributions.Normal(dist.mean, dist.variance.sqrt()).rsample(torch.Size([7]))
            else:
                draws = dist.rsample(torch.Size([7]))
    refm = torch.softmax(draws @ W.t(), -1)
    ctx.close("conditional_params", mo.probs, refm, (1e-12, 1e-12), cls=cls + ":marginal_draws")
    refe = torch.log(torch.gather(refm, -1, y.expand(7, *y.shape).unsqueeze(-1)).squeeze(-1)).mean(0)
    ctx.close("lik_expected_log_prob", elp, refe, (1e-10, 1e-10), cls=cls + ":expected_log_prob")
    ctx.cell({k_: v_ for k_, v_ in case.items() if k_ != "seed"})


def _trunc(case, ctx, g):
    """bounded restatement of 'truncation error shrinks as nodes are added'. The error of a Gauss-Hermite rule on a
    non-smooth integrand (Laplace: kink at f=y) is NOT monotone in the node count point by point (lucky cancellations at
    small n), so the envelope is compared: worst error over several (m, v, y) and over 6..10 nodes against the worst
    over 60..64 nodes, both against adaptive integration (mpmath.quad)."""
    import mpmath as mp
    import torch

    import gpytorch
    from gpytorch import settings as S
    from gpytorch.distributions import MultivariateNormal as MVN
    from vf import util

    mp.mp.dps = 25
    P = 5
    m, v, y = util.randn(g, P), util.rand(g, P) + 0.2, util.randn(g, P)
    c0 = dict(case, num_locs=8, batch=[])
    ld = _logdens(c0, _lik_objects(c0, util.gen(case["seed"])), 0)
    true = []
    for i in range(P):
        yy, mm, vv = mp.mpf(float(y[i])), mp.mpf(float(m[i])), mp.mpf(float(v[i]))
        true.append(float(mp.quad(lambda f: ld(yy, f) * mp.npdf(f, mm, mp.sqrt(vv)), [-mp.inf, yy, mm, mp.inf] if yy < mm else [-mp.inf, mm, yy, mp.inf])))
    true = torch.tensor(true)
    errs = {}
    for nl in (6, 7, 8, 9, 10, 60, 61, 62, 63, 64):
        c = dict(case, num_locs=nl, batch=[])
        lik = _lik_objects(c, util.gen(case["seed"]))
        with torch.no_grad():
            elp = lik.expected_log_prob(y, MVN(m, torch.diag_embed(v)))
        errs[nl] = float((elp - true).abs().max())
    small, large = max(errs[n_] for n_ in (6, 7, 8, 9, 10)), max(errs[n_] for n_ in (60, 61, 62, 63, 64))
    ctx.expect("truncation_error_shrinks", large < small or large < 1e-12, f"{case['lik']}: worst |error| over 60..64 nodes {large:.3e} not below worst over 6..10 nodes {small:.3e}")
    ctx.notes[f"truncation_error_{case['lik']}"] = {"n6_10": small, "n60_64": large}
    ctx.cell({k_: v_ for k_, v_ in case.items() if k_ != "seed"})


def _logcdf(case, ctx, g):
    import math

    import mpmath as mp
    import torch

    from gpytorch.functions import log_normal_cdf

    mp.mp.dps = 30
    c, nc = case["chunk"], case["nchunks"]
    grid = torch.cat([torch.linspace(-40, -1, 6000), torch.linspace(-1, 10, 4000)])
    border = torch.tensor([-1.0, -0.2, 0.2, 0.0])
    eps = torch.finfo(torch.float64).eps
    border = torch.cat([border, border * (1 + 4 * eps) - 1e-300, border * (1 - 4 * eps) + 1e-300, torch.tensor([-1.0001, -0.9999, -5.0, -37.5, 8.5, 30.0, 1e-8, -1e-8])])
    z = torch.cat([grid[c::nc], border]).clone().requires_grad_(True)
    out = log_normal_cdf(z)
    (gr,) = torch.autograd.grad(out.sum(), z)
    zs = z.detach().tolist()
    ref = torch.tensor([float(mp.log(mp.ncdf(mp.mpf(t)))) for t in zs])
    refg = torch.tensor([float(mp.npdf(mp.mpf(t)) / mp.ncdf(mp.mpf(t))) for t in zs])
    err = (out.detach() - ref).abs()
    zz = z.detach()
    ctx.expect("log_normal_cdf", bool((err <= 2e-3).all()), f"max |log_normal_cdf - log Phi| = {float(err.max()):.3e} at z={float(zz[err.argmax()]):.6f}", z=float(zz[err.argmax()]))
    hi = zz >= -1
    ctx.expect("log_normal_cdf", bool((err[hi] <= 1e-12 * (1 + ref[hi].abs())).all()), f"z>=-1: max err {float(err[hi].max()):.3e} at z={float(zz[hi][err[hi].argmax()]):.6f}", region="z>=-1")
    rel = ((gr - refg) / refg).abs()
    ctx.expect("log_normal_cdf_grad", bool((rel <= 2e-3).all()), f"max relative gradient error {float(rel.max()):.3e} at z={float(zz[rel.argmax()]):.6f}")
    ctx.expect("log_normal_cdf_grad", bool((rel[hi] <= 1e-10).all()), f"z>=-1: max relative gradient error {float(rel[hi].max()):.3e}", region="z>=-1")
    ctx.notes["log_normal_cdf_worst_abs_err"] = max(float(err.max()), ctx.notes.get("log_normal_cdf_worst_abs_err", 0.0))
    # calls whose entries ALL fall into one branch of the piecewise definition (a single value, a 1-d / 2-d block, a column of a
    # transposed block): same value, same derivative, and the argument comes back unchanged
    gg = __import__("vf.util", fromlist=["gen"]).gen(1300 + c)
    for lo, hi_, tag in ((-0.19, 0.19, "near_zero"), (0.25, 6.0, "upper"), (-0.95, -0.25, "middle"), (-30.0, -1.1, "tail")):
        for shape in ((1,), (7,), (3, 4), "transposed"):
            if shape == "transposed":
                zb = (lo + (hi_ - lo) * torch.rand(4, 3, generator=gg, dtype=torch.float64)).t()
            else:
                zb = lo + (hi_ - lo) * torch.rand(*shape, generator=gg, dtype=torch.float64)
            zb = zb.clone(memory_format=torch.preserve_format).requires_grad_(True)
            keep = zb.detach().clone()
            ob = log_normal_cdf(zb)
            (gb,) = torch.autograd.grad(ob.sum(), zb)
            ctx.expect("log_normal_cdf", bool(torch.equal(zb.detach(), keep)), f"log_normal_cdf changed its argument in place ({tag} block, shape {tuple(zb.shape)})", block=tag)
            fl = keep.reshape(-1).tolist()
            rb = torch.tensor([float(mp.log(mp.ncdf(mp.mpf(t)))) for t in fl]).reshape(keep.shape)
            rg = torch.tensor([float(mp.npdf(mp.mpf(t)) / mp.ncdf(mp.mpf(t))) for t in fl]).reshape(keep.shape)
            tol_v, tol_g = (2e-3, 2e-3) if tag == "tail" else (1e-12, 1e-10)
            ctx.expect("log_normal_cdf", bool(((ob.detach() - rb).abs() <= tol_v * (1 + rb.abs())).all()), f"{tag} block {tuple(zb.shape)}: max err {float((ob.detach() - rb).abs().max()):.3e}", block=tag)
            ctx.expect("log_normal_cdf_grad", bool((((gb - rg) / rg).abs() <= tol_g).all()), f"{tag} block {tuple(zb.shape)}: max relative gradient error {float(((gb - rg) / rg).abs().max()):.3e}", block=tag)
    ctx.cell({"kind": "logcdf", "chunk": c})


def _beta_doc(case, fl):
    """BetaLikelihood ships Beta(m s + 1, (1-m) s + 1) where the docstring states Beta(m s, (1-m) s): value equals exactly the shipped formula"""
    return fl.get("mechanism") == "doc-vs-code" and fl.get("lik") == "beta" and fl.get("shipped_formula") is True


MATCHERS = {"C13-beta-likelihood-docstring": _beta_doc}
