"""C15 - variational objectives equal their definition; the ELBO is a lower bound; one NGD step reaches the collapsed bound.

Monitors: the real likelihood.expected_log_prob / log_marginal, strategy.kl_divergence and every (prior, closure) pair
enumerated by named_priors are captured during the real objective's forward, and the objective is recomputed from the
CAPTURED per-point terms, KL and priors by its definition (scaling by minibatch size B, declared N, beta).  Bound monitors:
N*ELBO <= exact log marginal likelihood for every generated q(u) (random, adversarial, q=p, q=exact posterior);
ELBO(q*) == dense Titsias bound for the closed-form optimum q*, ELBO(q) <= ELBO(q*); one NGD step of lr=1 from any start on
NaturalVariationalDistribution lands on q* (whitened and unwhitened).
"""
import itertools
import random

PROPERTY = "C15"
RULE = (
    'case kinds: (definition) objective in {VariationalELBO, PredictiveLogLikelihood} x strategy x likelihood in {Gaussian, Bernoulli, Laplace} x '
    'minibatch size B != N x beta in {0.1,1,3} x priors in {none, some} x combine_terms; (definition_mt) independent / LMC multitask SVGP with a '
    'multitask Gaussian likelihood; (bound) whitened/unwhitened x q(u) kind in {random, tiny S, huge S, far mean, q=p, optimal}; (ngd) strategy x '
    'batch x start; distinct = cell without seed; non-trivial iff KL>1e-3 (definition) / q != q* (bound)'
    '; pass 5: coinciding sizes (M=N, M=B, M=batch, single points); registered added loss terms (combined and as fourth part)'
    '; pass 6: minibatches with missing targets under both NaN policies; Cholesky parameter with arbitrary strict upper triangle'
    "; pass 7: a deep copy keeps its objective when the original trains on; mean-field q(u) (random, wide, best of the family) in both frames; N*ELBO against its dense definition (KL with its trace term) for every non-degenerate q(u)"
    "; pass 8: a held-out evaluation with autograd off before the parameters move; strategies with a declared jitter (0, 1e-3) compared tightly against the dense definition"
    "; pass 9: NGD whose lr / num_data are set after construction (assignment, scheduler); multitask objectives on a non-interleaved q(f)"
)
REQUIRED = ["objective_matches_definition", "captured_terms_used", "elbo_below_evidence", "optimal_q_attains_titsias", "elbo_below_titsias", "ngd_one_step_reaches_optimum", "elbo_equals_dense_definition"]
ASSUMPTIONS = ["Gaussian-likelihood bounds use the prior regularised by the strategy's jitter (jitter rule); the statement's NGD clause is restricted to NaturalVariationalDistribution"]
ANCHOR_FILES = ["gpytorch/mlls/", "gpytorch/optim/ngd.py", "gpytorch/variational/natural_variational_distribution.py", "gpytorch/variational/"]

D, M_ = 1, 5


def cases(tier, seed):
    rnd = random.Random(15000 + seed)
    reps = 1 if tier == "quick" else 40
    for _ in range(reps):
        for obj, strat, lik, beta, priors, comb in itertools.product(["VariationalELBO", "PredictiveLogLikelihood"], ["VariationalStrategy", "UnwhitenedVariationalStrategy"], ["gauss", "bernoulli", "laplace"],
                                                                   [0.1, 1.0, 3.0], [False, True], [True, False]):
            if tier == "quick" and rnd.random() < 0.0:
                continue
            yield {"kind": "definition", "objective": obj, "strategy": strat, "lik": lik, "beta": beta, "priors": priors, "combine_terms": comb,
                   "N": rnd.choice([20, 33]), "B": rnd.choice([1, 7, 12]), "batch": rnd.choice([[], [], [2]]), "seed": rnd.randrange(10**6)}
        # fixed-noise likelihood with the minibatch's noise passed through the objective; B < N, and B == N in shuffled order
        for obj, strat, full, shared in itertools.product(["VariationalELBO", "PredictiveLogLikelihood"], ["VariationalStrategy", "UnwhitenedVariationalStrategy"], [False, True], [False, True]):
            yield {"kind": "definition", "objective": obj, "strategy": strat, "lik": "fixed", "beta": rnd.choice([0.5, 1.0]), "priors": "shared" if shared else True, "combine_terms": True,
                   "N": 12, "B": 12 if full else 5, "batch": [], "seed": rnd.randrange(10**6)}
        # coinciding sizes: as many inducing points as data points / minibatch points / batch elements, single points
        for obj, strat, lik, (N, B, M, bb) in itertools.product(["VariationalELBO", "PredictiveLogLikelihood"], ["VariationalStrategy", "UnwhitenedVariationalStrategy"], ["gauss", "bernoulli"],
                                                              [(5, 4, 5, []), (6, 4, 4, []), (3, 2, 2, [2]), (2, 1, 1, []), (3, 2, 3, [3])]):
            if tier == "quick" and rnd.random() < 0.4:
                continue
            yield {"kind": "definition", "objective": obj, "strategy": strat, "lik": lik, "beta": rnd.choice([0.1, 1.0, 3.0]), "priors": rnd.random() < 0.5, "combine_terms": True,
                   "N": N, "B": B, "M": M, "batch": bb, "seed": rnd.randrange(10**6)}
        for strat, q, (N, M) in itertools.product(["VariationalStrategy", "UnwhitenedVariationalStrategy"], ["random", "optimal"], [(5, 5), (6, 1), (2, 2)]):
            yield {"kind": "bound", "strategy": strat, "q": q, "N": N, "M": M, "seed": rnd.randrange(10**6)}
        for obj, strat, lik, comb in itertools.product(["VariationalELBO", "PredictiveLogLikelihood"], ["VariationalStrategy", "UnwhitenedVariationalStrategy"], ["gauss", "bernoulli"], [True, False]):
            yield {"kind": "definition", "objective": obj, "strategy": strat, "lik": lik, "beta": rnd.choice([0.1, 1.0, 3.0]), "priors": rnd.random() < 0.5, "combine_terms": comb, "added": True,
                   "N": rnd.choice([20, 33]), "B": rnd.choice([1, 7, 12]), "batch": rnd.choice([[], [2]]), "seed": rnd.randrange(10**6)}
        for obj, strat in itertools.product(["VariationalELBO", "PredictiveLogLikelihood"], ["VariationalStrategy", "UnwhitenedVariationalStrategy"]):
            yield {"kind": "nan_minibatch", "objective": obj, "strategy": strat, "beta": rnd.choice([0.3, 1.0]), "N": 30, "B": rnd.choice([6, 10]), "seed": rnd.randrange(10**6)}
            for af in (False, True):
                yield {"kind": "copy_objective", "objective": obj, "strategy": strat, "beta": rnd.choice([0.3, 1.0]), "N": 30, "B": 7, "after_forward": af, "seed": rnd.randrange(10**6)}
        for obj, wrapper, T in itertools.product(["VariationalELBO", "PredictiveLogLikelihood"], ["indep", "lmc"], [2, 3]):
            yield {"kind": "definition_mt", "objective": obj, "wrapper": wrapper, "T": T, "beta": 1.0, "N": rnd.choice([20, 33]), "B": rnd.choice([3, 5, 9]), "non_interleaved": True, "seed": rnd.randrange(10**6)}
        for obj, wrapper, T, beta in itertools.product(["VariationalELBO", "PredictiveLogLikelihood"], ["indep", "lmc"], [2, 3], [1.0, 0.3]):
            yield {"kind": "definition_mt", "objective": obj, "wrapper": wrapper, "T": T, "beta": beta, "N": rnd.choice([20, 33]), "B": rnd.choice([1, 5, 9]), "seed": rnd.randrange(10**6)}
        for strat, q in itertools.product(["VariationalStrategy", "UnwhitenedVariationalStrategy"], ["random", "tinyS", "hugeS", "farmean", "prior", "optimal", "upper_garbage"]):
            yield {"kind": "bound", "strategy": strat, "q": q, "N": rnd.choice([12, 25]), "seed": rnd.randrange(10**6)}
        # mean-field q(u) (diagonal in the strategy's own frame): random, and the best one of the family; N*ELBO against its dense
        # definition (trace term of the KL included) and against the evidence
        for strat, q in itertools.product(["VariationalStrategy", "UnwhitenedVariationalStrategy"], ["mf_random", "mf_best", "mf_wide"]):
            yield {"kind": "bound", "strategy": strat, "q": q, "vd": "MeanFieldVariationalDistribution", "N": rnd.choice([12, 25]), "seed": rnd.randrange(10**6)}
        # a training-mode evaluation with autograd off (objective on held-out data) happened BEFORE the hyper-parameters and
        # inducing points moved: the next evaluation is that of the current state; strategies given an explicit jitter (incl. 0)
        for strat, q in itertools.product(["VariationalStrategy", "UnwhitenedVariationalStrategy"], ["random", "optimal", "mf_random"]):
            yield {"kind": "bound", "strategy": strat, "q": q, "N": rnd.choice([12, 25]), "after_nograd_eval": True, "seed": rnd.randrange(10**6),
                   **({"vd": "MeanFieldVariationalDistribution"} if q.startswith("mf_") else {})}
        for strat, q, jv in itertools.product(["VariationalStrategy", "UnwhitenedVariationalStrategy"], ["random", "optimal"], [0.0, 1e-3]):
            yield {"kind": "bound", "strategy": strat, "q": q, "N": rnd.choice([12, 25]), "jitter_val": jv, "seed": rnd.randrange(10**6)}
        for strat, b, start in itertools.product(["VariationalStrategy", "UnwhitenedVariationalStrategy"], [[], [3]], ["init", "random"]):
            yield {"kind": "ngd", "strategy": strat, "batch": b, "start": start, "N": 20, "seed": rnd.randrange(10**6)}
        for strat, late in itertools.product(["VariationalStrategy", "UnwhitenedVariationalStrategy"], ["lr", "scheduler", "num_data"]):
            yield {"kind": "ngd", "strategy": strat, "batch": [], "start": rnd.choice(["init", "random"]), "N": 20, "late": late, "seed": rnd.randrange(10**6)}


_ST = {"cap": None}


def setup(ctx):
    import gpytorch
    from vf import attach

    _ST["ctx"] = ctx
    L = gpytorch.likelihoods.Likelihood

    def cap(name):
        def post(a, k, out, tok):
            if _ST["cap"] is not None:
                _ST["cap"].setdefault(name, []).append(out.detach().clone() if hasattr(out, "detach") else out)

        return post

    seen = set()
    stack = [L]
    while stack:
        c = stack.pop()
        stack.extend(c.__subclasses__())
        for meth in ("expected_log_prob", "log_marginal"):
            if meth in c.__dict__ and (c, meth) not in seen:
                seen.add((c, meth))
                attach.wrap(c, meth, after=cap(meth))
    V = gpytorch.variational
    stack = [V._VariationalStrategy]
    while stack:
        c = stack.pop()
        stack.extend(c.__subclasses__())
        if "kl_divergence" in c.__dict__ and (c, "kl") not in seen:
            seen.add((c, "kl"))
            attach.wrap(c, "kl_divergence", after=cap("kl"))


def _model(strat, dist, Z, batch=()):
    import torch

    import gpytorch

    V = gpytorch.variational
    B = torch.Size(batch)

    class Mdl(gpytorch.models.ApproximateGP):
        def __init__(s):
            vd = getattr(V, dist)(Z.size(-2), batch_shape=B)
            vs = getattr(V, strat)(s, Z, vd, learn_inducing_locations=True)
            super().__init__(vs)
            s.mean_module = gpytorch.means.ConstantMean(batch_shape=B)
            s.covar_module = gpytorch.kernels.ScaleKernel(gpytorch.kernels.RBFKernel(batch_shape=B), batch_shape=B)

        def forward(s, x):
            return gpytorch.distributions.MultivariateNormal(s.mean_module(x), s.covar_module(x))

    return Mdl()


def _init_flags(m):
    for mod in m.modules():
        if hasattr(mod, "variational_params_initialized"):
            mod.variational_params_initialized.fill_(1)


def run_case(case, ctx):
    from vf import util

    global M_
    g = util.gen(case["seed"])
    M_ = case.get("M", 5)
    try:
        return _dispatch(case, ctx, g)
    finally:
        M_ = 5


def _dispatch(case, ctx, g):
    return {"definition": _definition, "nan_minibatch": _nan_minibatch, "copy_objective": _copy_objective, "definition_mt": _definition_mt, "bound": _bound, "ngd": _ngd}[case["kind"]](case, ctx, g)


def _definition(case, ctx, g):
    import torch

    import gpytorch
    from vf import util
    from vf.checks import c14

    N, B, b = case["N"], (case["N"] if case["B"] >= case["N"] and case["lik"] == "fixed" else min(case["B"], case["N"] - 1)), case["batch"]
    Z = util.randn(g, M_, D)
    m = _model(case["strategy"], "CholeskyVariationalDistribution", Z, b)
    util.randomize(m.mean_module, g, 0.5)
    util.randomize(m.covar_module, g, 0.4)
    c14._randomize_vd(m.variational_strategy._variational_distribution, "CholeskyVariationalDistribution", g)
    _init_flags(m)
    Lk = gpytorch.likelihoods
    if case["lik"] == "gauss":
        lik = Lk.GaussianLikelihood(batch_shape=torch.Size(b))
    elif case["lik"] == "fixed":
        stored = util.rand(g, N) * 0.5 + 0.05
        lik = Lk.FixedNoiseGaussianLikelihood(noise=stored)
    elif case["lik"] == "bernoulli":
        lik = Lk.BernoulliLikelihood()
    else:
        lik = Lk.LaplaceLikelihood(batch_shape=torch.Size(b))
    util.randomize(lik, g, 0.4)
    ref_priors = []
    if case["priors"]:
        P = gpytorch.priors
        if case["priors"] == "shared":
            one = P.GammaPrior(2.0, 1.5)  # ONE prior object registered for two hyper-parameters
            m.covar_module.base_kernel.register_prior("vf_ls", one, lambda mm: mm.lengthscale)
            m.covar_module.register_prior("vf_os", one, lambda mm: mm.outputscale)
            ref_priors = [(lambda: torch.distributions.Gamma(2.0, 1.5).log_prob(m.covar_module.base_kernel.lengthscale).sum()),
                          (lambda: torch.distributions.Gamma(2.0, 1.5).log_prob(m.covar_module.outputscale).sum())]
        else:
            m.covar_module.base_kernel.register_prior("vf_ls", P.GammaPrior(2.0, 1.5), lambda mm: mm.lengthscale)
            m.covar_module.register_prior("vf_os", P.LogNormalPrior(0.1, 0.8), lambda mm: mm.outputscale)
            ref_priors = [(lambda: torch.distributions.Gamma(2.0, 1.5).log_prob(m.covar_module.base_kernel.lengthscale).sum()),
                          (lambda: torch.distributions.LogNormal(0.1, 0.8).log_prob(m.covar_module.outputscale).sum())]
        if case["lik"] == "gauss":
            lik.register_prior("vf_noise", P.HalfCauchyPrior(1.3), lambda mm: mm.noise)
            ref_priors.append(lambda: torch.distributions.HalfCauchy(1.3).log_prob(lik.noise).sum())
    X = util.randn(g, N, D)
    y = (util.rand(g, *b, N) > 0.5).double() if case["lik"] == "bernoulli" else util.randn(g, *b, N)
    idx = torch.randperm(N, generator=g)[:B]
    Xb, yb = X[idx], y[..., idx]
    m.train()
    lik.train()
    if case["seed"] % 3 == 0:
        # KL annealing / a data set that grew: beta and num_data are assigned on the existing objective object
        obj = getattr(gpytorch.mlls, case["objective"])(lik, m, num_data=N + 7, beta=case["beta"] * 0.25 + 0.05, combine_terms=case["combine_terms"])
        with torch.no_grad():
            obj(m(X[:3]), y[..., :3], **({"noise": stored[:3]} if case["lik"] == "fixed" else {}))
        obj.beta = case["beta"]
        obj.num_data = N
    else:
        obj = getattr(gpytorch.mlls, case["objective"])(lik, m, num_data=N, beta=case["beta"], combine_terms=case["combine_terms"])
    n_enum = len(list(obj.named_priors()))
    ctx.expect("priors_enumerated", n_enum == len(ref_priors), f"objective enumerates {n_enum} priors, {len(ref_priors)} registered")
    added = []
    if case.get("added"):
        # registered added loss terms (direct child, inside a torch ModuleList): the objective subtracts each of them, whole
        class Holder(gpytorch.Module):
            def __init__(s):
                super().__init__()
                s.w = torch.nn.Parameter(util.randn(g, *b, 2))
                s.register_added_loss_term("vf_term")

        class Term(gpytorch.mlls.AddedLossTerm):
            def __init__(s, h, c):
                s.h, s.c = h, c

            def loss(s, *params):
                return s.c * (s.h.w**2).sum(-1)

        hs = [Holder(), Holder(), Holder()]
        m.vf_direct = hs[0]
        m.vf_list = torch.nn.ModuleList(hs[1:])
        for i, h in enumerate(hs):
            h.update_added_loss_term("vf_term", Term(h, 0.3 * (i + 1) * (-1) ** i))
            added.append((h, 0.3 * (i + 1) * (-1) ** i))
    _ST["cap"] = {}
    try:
        with torch.no_grad():
            out = m(Xb)
            _ST["cap"] = {}
            okw = {"noise": stored[idx]} if case["lik"] == "fixed" else {}
            got = obj(out, yb, **okw)
            cap = _ST["cap"]
    finally:
        _ST["cap"] = None
    term_name = "expected_log_prob" if case["objective"] == "VariationalELBO" else "log_marginal"
    ctx.expect("captured_terms_used", term_name in cap and "kl" in cap, f"objective forward did not call {term_name} / kl_divergence (captured: {sorted(cap)})")
    if term_name not in cap or "kl" not in cap:
        return
    terms = cap[term_name][-1]  # per-point terms of the minibatch
    kl = cap["kl"][-1]
    with torch.no_grad():
        prior_sum = sum(f() for f in ref_priors) if ref_priors else torch.tensor(0.0)
    ll_ref = terms.sum(-1) / B
    kl_ref = kl * case["beta"] / N
    pr_ref = prior_sum / N
    cls = f"{case['objective'][:6]}:{case['lik']}"
    with torch.no_grad():
        al_ref = sum(c_ * (h.w**2).sum(-1) for h, c_ in added) if added else torch.tensor(0.0)
    if case["combine_terms"]:
        ctx.close("objective_matches_definition", got, (ll_ref - kl_ref + pr_ref - al_ref).expand(got.shape), (1e-9, 1e-9), cls=cls + (":added_loss" if added else ""), beta=case["beta"], priors=case["priors"])
    elif added:
        ctx.expect("objective_matches_definition", len(got) == 4, f"with added loss terms and combine_terms=False the objective returns {len(got)} parts (4 documented)")
        if len(got) == 4:
            ctx.close("objective_matches_definition", got[3], al_ref.expand(got[3].shape), (1e-9, 1e-9), cls=cls + ":added_loss_part", part="added")
            ctx.close("objective_matches_definition", got[0], ll_ref.expand(got[0].shape), (1e-9, 1e-9), cls=cls + ":ll", part="ll")
            ctx.close("objective_matches_definition", got[1], kl_ref.expand(got[1].shape), (1e-9, 1e-9), cls=cls + ":kl", part="kl", beta=case["beta"])
    else:
        ctx.close("objective_matches_definition", got[0], ll_ref.expand(got[0].shape), (1e-9, 1e-9), cls=cls + ":ll", part="ll")
        ctx.close("objective_matches_definition", got[1], kl_ref.expand(got[1].shape), (1e-9, 1e-9), cls=cls + ":kl", part="kl", beta=case["beta"])
        ctx.close("objective_matches_definition", got[2], pr_ref.expand(got[2].shape), (1e-9, 1e-9), cls=cls + ":prior", part="prior", beta=case["beta"], priors=case["priors"])
    # the captured per-point terms themselves: independent closed form for the Gaussian likelihood
    if case["lik"] in ("gauss", "fixed"):
        import math

        mean, var, r = out.mean, out.variance, (lik.noise.detach() if case["lik"] == "gauss" else stored[idx])
        if case["objective"] == "VariationalELBO":
            ref_terms = -0.5 * (((yb - mean) ** 2 + var) / r + torch.log(r) + math.log(2 * math.pi))
        else:
            ref_terms = -0.5 * ((yb - mean) ** 2 / (var + r) + torch.log(var + r) + math.log(2 * math.pi))
        ctx.close("per_point_terms", terms, ref_terms.expand(terms.shape), (1e-9, 1e-9), cls=cls + ":terms")
    ctx.cell({k: v for k, v in case.items() if k != "seed"}, nontrivial=float(kl.abs().max()) > 1e-3)


def _copy_objective(case, ctx, g):
    """a deep copy of (model, likelihood) keeps ITS objective when the original trains on: value of the copy's ELBO / PLL after
    the original's hyper-parameters, variational parameters and inducing points have moved = value before"""
    import copy

    import torch

    import gpytorch
    from vf import util
    from vf.checks import c14

    N, B = case["N"], case["B"]
    m = _model(case["strategy"], "CholeskyVariationalDistribution", util.randn(g, M_, D), [])
    util.randomize(m.mean_module, g, 0.5)
    util.randomize(m.covar_module, g, 0.4)
    c14._randomize_vd(m.variational_strategy._variational_distribution, "CholeskyVariationalDistribution", g)
    _init_flags(m)
    lik = gpytorch.likelihoods.GaussianLikelihood()
    util.randomize(lik, g, 0.4)
    X, y = util.randn(g, B, D), util.randn(g, B)
    m.train()
    lik.train()
    mk = lambda l_, m_: getattr(gpytorch.mlls, case["objective"])(l_, m_, num_data=N, beta=case["beta"])
    if case["after_forward"]:
        mk(lik, m)(m(X), y)  # a training forward pass has happened (autograd on) before the snapshot is taken
    try:
        m2, lik2 = copy.deepcopy((m, lik))
    except Exception as e:
        ctx.reject(f"deepcopy of a used variational model raised {type(e).__name__} (C18's known finding)")
        return
    with torch.no_grad():
        before = mk(lik, m)(m(X), y)
        g2 = util.gen(case["seed"] + 5)
        util.randomize(m.mean_module, g2, 0.8)
        util.randomize(m.covar_module, g2, 0.8)
        util.randomize(lik, g2, 0.8)
        c14._randomize_vd(m.variational_strategy._variational_distribution, "CholeskyVariationalDistribution", g2)
        m.variational_strategy.inducing_points.add_(0.4)
        after = mk(lik2, m2)(m2(X), y)
        m2.eval()
        pm = m2(X)
    ctx.close("objective_matches_definition", after, before, (1e-10, 1e-10), cls=f"{case['objective'][:6]}:copy_after_original_moved:{case['strategy'][:6]}")
    ctx.cell({k: v for k, v in case.items() if k != "seed"}, nontrivial=True)


def _nan_minibatch(case, ctx, g):
    """a minibatch whose targets miss some entries, under observation_nan_policy mask / fill: the data term is the sum over the
    OBSERVED points divided by the minibatch size B (the missing points contribute nothing), KL and prior terms unchanged -
    the same value under both policies"""
    import torch

    import gpytorch
    from gpytorch import settings as S
    from vf import util
    from vf.checks import c14

    N, B = case["N"], case["B"]
    m = _model(case["strategy"], "CholeskyVariationalDistribution", util.randn(g, M_, D), [])
    util.randomize(m.mean_module, g, 0.5)
    util.randomize(m.covar_module, g, 0.4)
    c14._randomize_vd(m.variational_strategy._variational_distribution, "CholeskyVariationalDistribution", g)
    _init_flags(m)
    lik = gpytorch.likelihoods.GaussianLikelihood()
    util.randomize(lik, g, 0.4)
    X, y = util.randn(g, B, D), util.randn(g, B)
    miss = torch.zeros(B, dtype=torch.bool)
    miss[torch.randperm(B, generator=g)[: max(1, B // 3)]] = True
    yn = y.clone()
    yn[miss] = float("nan")
    m.train()
    lik.train()
    obj = getattr(gpytorch.mlls, case["objective"])(lik, m, num_data=N, beta=case["beta"], combine_terms=False)
    with torch.no_grad():
        ll_obs, kl_ref, pr_ref = obj(m(X[~miss]), y[~miss])[:3]
        ref_ll = ll_obs * float((~miss).sum()) / B
        got = {}
        for pol in ("mask", "fill"):
            with S.observation_nan_policy(pol):
                try:
                    got[pol] = obj(m(X), yn)[:3]
                except Exception as e:
                    ctx.fail("objective_matches_definition", f"{case['objective']} with NaN targets under policy {pol} raised {type(e).__name__}: {str(e)[:120]}", "raise", exc=type(e).__name__, policy=pol)
    cls = f"{case['objective'][:6]}:nan_minibatch"
    for pol, (ll, kl, pr) in got.items():
        ctx.expect("objective_matches_definition", bool(torch.isfinite(ll).all()), f"NaN in the objective under policy {pol}", policy=pol)
        ctx.close("objective_matches_definition", ll, ref_ll, (1e-9, 1e-9), cls=cls + ":" + pol + ":ll", part="ll", policy=pol)
        ctx.close("objective_matches_definition", kl, kl_ref, (1e-9, 1e-9), cls=cls + ":" + pol + ":kl", part="kl", policy=pol)
    ctx.cell({k: v for k, v in case.items() if k != "seed"}, nontrivial=True)


def _definition_mt(case, ctx, g):
    """multi-output SVGP (independent / LMC wrapper) with a multitask Gaussian likelihood: the minibatch has B POINTS, each
    with T outputs: (1/B) sum_i sum_t E_q[log p(y_it | f_it)] - beta/N KL"""
    import math

    import torch

    import gpytorch
    from vf import util
    from vf.checks import c14

    V = gpytorch.variational
    N, B, T = case["N"], min(case["B"], case["N"] - 1), case["T"]
    Lat = T if case["wrapper"] == "indep" else 2
    Z = util.randn(g, Lat, M_, D)

    class Mdl(gpytorch.models.ApproximateGP):
        def __init__(s):
            vd = V.CholeskyVariationalDistribution(M_, batch_shape=torch.Size([Lat]))
            base = V.VariationalStrategy(s, Z, vd, learn_inducing_locations=True)
            if case["wrapper"] == "indep":
                vs = V.IndependentMultitaskVariationalStrategy(base, num_tasks=T)
            else:
                vs = V.LMCVariationalStrategy(base, num_tasks=T, num_latents=Lat, latent_dim=-1)
            super().__init__(vs)
            s.mean_module = gpytorch.means.ConstantMean(batch_shape=torch.Size([Lat]))
            s.covar_module = gpytorch.kernels.ScaleKernel(gpytorch.kernels.RBFKernel(batch_shape=torch.Size([Lat])), batch_shape=torch.Size([Lat]))

        def forward(s, x):
            return gpytorch.distributions.MultivariateNormal(s.mean_module(x), s.covar_module(x))

    m = Mdl()
    util.randomize(m.mean_module, g, 0.5)
    util.randomize(m.covar_module, g, 0.4)
    base = m.variational_strategy.base_variational_strategy
    c14._randomize_vd(base._variational_distribution, "CholeskyVariationalDistribution", g)
    if case["wrapper"] == "lmc":
        with torch.no_grad():
            m.variational_strategy.lmc_coefficients.copy_(util.randn(g, *m.variational_strategy.lmc_coefficients.shape))
    _init_flags(m)
    lik = gpytorch.likelihoods.MultitaskGaussianLikelihood(num_tasks=T, rank=0)
    util.randomize(lik, g, 0.4)
    X, y = util.randn(g, N, D), util.randn(g, N, T)
    idx = torch.randperm(N, generator=g)[:B]
    Xb, yb = X[idx], y[idx]
    m.train()
    lik.train()
    obj = getattr(gpytorch.mlls, case["objective"])(lik, m, num_data=N, beta=case["beta"])
    _ST["cap"] = {}
    try:
        with torch.no_grad():
            out = m(Xb)
            if case.get("non_interleaved"):
                # the same q(f) handed over in the task-major (non-interleaved) layout
                Bn = out.mean.shape[-2]
                Cni = out.covariance_matrix.reshape(Bn, T, Bn, T).permute(1, 0, 3, 2).reshape(Bn * T, Bn * T)
                out = gpytorch.distributions.MultitaskMultivariateNormal(out.mean, Cni, interleaved=False)
            _ST["cap"] = {}
            got = obj(out, yb)
            cap = _ST["cap"]
    finally:
        _ST["cap"] = None
    ctx.expect("captured_terms_used", "kl" in cap, f"objective forward did not call kl_divergence (captured: {sorted(cap)})")
    if "kl" not in cap:
        return
    kl = cap["kl"][-1]
    with torch.no_grad():
        r = (lik.task_noises.detach() + lik.noise.detach()).reshape(T)  # rank-0 task noise: diag(task_noises) + noise * I
        mean, var = out.mean, out.variance  # B x T
        if case["objective"] == "VariationalELBO":
            terms = -0.5 * (((yb - mean) ** 2 + var) / r + torch.log(r) + math.log(2 * math.pi))
        else:
            terms = -0.5 * ((yb - mean) ** 2 / (var + r) + torch.log(var + r) + math.log(2 * math.pi))
        ref = terms.sum() / B - case["beta"] * kl.sum() / N
    ctx.close("objective_matches_definition", got, ref, (1e-9, 1e-9), cls=f"{case['objective'][:6]}:mt:{case['wrapper']}", beta=case["beta"], wrapper=case["wrapper"])
    ctx.cell({k: v for k, v in case.items() if k != "seed"}, nontrivial=float(kl.abs().max()) > 1e-3)


def _gauss_setup(case, g, strat, dist, batch=()):
    import torch

    import gpytorch
    from vf import util

    N = case["N"]
    Z = torch.linspace(-2, 2, M_).unsqueeze(-1) + 0.05 * util.randn(g, M_, 1)
    X = util.randn(g, N, D)
    y = torch.sin(2 * X.squeeze(-1)) + 0.2 * util.randn(g, *batch, N)
    m = _model(strat, dist, Z, batch)
    lik = gpytorch.likelihoods.GaussianLikelihood(batch_shape=torch.Size(batch))
    util.randomize(m.mean_module, g, 0.3)
    util.randomize(m.covar_module, g, 0.3)
    util.randomize(lik, g, 0.3)
    _init_flags(m)
    m.train()
    lik.train()
    return m, lik, Z, X, y


def _dense_bounds(m, lik, Z, X, y, strat, jit=None):
    """exact evidence, Titsias bound and the optimal q(u) in the strategy's parameterisation, for the jitter-regularised prior"""
    import torch

    from gpytorch import settings as S
    from vf import util

    jit = float(m.variational_strategy.jitter_val) if jit is None else float(jit)  # (a jitter the CASE declared is taken from the case)
    with torch.no_grad(), S.lazily_evaluate_kernels(False):
        k, mu = m.covar_module, m.mean_module
        Kzz = k(Z).to_dense() + jit * torch.eye(M_)
        Kxz, Kxx = k(X, Z).to_dense(), k(X).to_dense()
        mz, mx = mu(Z), mu(X)
        nz = lik.noise.detach()
        bshape = nz.shape[:-1]
        s2m, s2v, s2s = nz.reshape(tuple(bshape) + (1, 1)), nz.reshape(tuple(bshape) + (1,)), nz.reshape(tuple(bshape))
        N = X.shape[-2]
        I = torch.eye(N)
        out = {}
        for tag, KxxJ in (("jit", Kxx + (jit if strat == "VariationalStrategy" else 0.0) * I), ("nojit", Kxx)):
            exact = util.mvn_logpdf(y, mx, KxxJ + s2m * I)
            Q = Kxz @ torch.linalg.solve(Kzz, Kxz.transpose(-1, -2))
            tits = util.mvn_logpdf(y, mx, Q + s2m * I) - 0.5 * (KxxJ - Q).diagonal(dim1=-2, dim2=-1).sum(-1) / s2s
            out[tag] = (exact, tits)
        # optimal q(u): S* = Kzz (Kzz + Kzx Kxz / s2)^-1 Kzz ; m* = mz + S* Kzz^-1 Kzx (y - mx) / s2
        Sig = torch.linalg.inv(Kzz + Kxz.transpose(-1, -2) @ Kxz / s2m)
        S_u = Kzz @ Sig @ Kzz
        m_u = mz + (Kzz @ Sig @ Kxz.transpose(-1, -2) @ ((y - mx) / s2v).unsqueeze(-1)).squeeze(-1)
        L = torch.linalg.cholesky(Kzz)
    return out, (m_u, S_u), (mz, Kzz, L)


def _set_qu(m, strat, m_u, S_u, mz, L):
    """write q(u) = N(m_u, S_u) (unwhitened frame) into a CholeskyVariationalDistribution in the strategy's parameterisation"""
    import torch

    vd = m.variational_strategy._variational_distribution
    with torch.no_grad():
        if strat == "VariationalStrategy":
            mw = torch.linalg.solve_triangular(L, (m_u - mz).unsqueeze(-1), upper=False).squeeze(-1)
            Li = torch.linalg.inv(L)
            Sw = Li @ S_u @ Li.transpose(-1, -2)
        else:
            mw, Sw = m_u, S_u
        Sw = 0.5 * (Sw + Sw.transpose(-1, -2))
        vd.variational_mean.copy_(mw)
        vd.chol_variational_covar.copy_(torch.linalg.cholesky(Sw + 1e-13 * torch.eye(Sw.shape[-1])))


def _bound(case, ctx, g):
    import torch

    import gpytorch
    from vf import util

    strat = case["strategy"]
    m, lik, Z, X, y = _gauss_setup(case, g, strat, case.get("vd", "CholeskyVariationalDistribution"))
    N = case["N"]
    if case.get("jitter_val") is not None:
        m.variational_strategy.jitter_val = case["jitter_val"]  # (documented setter; 0.0 = no jitter at all)
    if case.get("after_nograd_eval"):
        with torch.no_grad():
            gpytorch.mlls.VariationalELBO(lik, m, num_data=N)(m(X), y)
            util.randomize(m.covar_module, g, 0.4)
            util.randomize(m.mean_module, g, 0.4)
            m.variational_strategy.inducing_points.add_(0.15 * util.randn(g, *m.variational_strategy.inducing_points.shape))
            Z = m.variational_strategy.inducing_points.detach().clone()
    bounds, (m_opt, S_opt), (mz, Kzz, L) = _dense_bounds(m, lik, Z, X, y, strat, jit=case.get("jitter_val"))
    q = case["q"]
    if q.startswith("mf_"):
        # frame of the parameterisation: whitened u' = L^-1 (u - mz) or u itself
        Li = torch.linalg.inv(L)
        if strat == "VariationalStrategy":
            S_f, m_f = Li @ S_opt @ Li.T, (Li @ (m_opt - mz).unsqueeze(-1)).squeeze(-1)
        else:
            S_f, m_f = S_opt, m_opt
        if q == "mf_best":
            d_f = 1.0 / torch.linalg.inv(S_f).diagonal()  # best diagonal q: posterior mean, inverse of the precision's diagonal
        else:
            d_f = (0.2 + util.rand(g, M_)) ** 2 * (9.0 if q == "mf_wide" else 1.0)
            m_f = m_f + util.randn(g, M_) * 0.5
        vd = m.variational_strategy._variational_distribution
        with torch.no_grad():
            vd.variational_mean.copy_(m_f)
            vd._variational_stddev.copy_(d_f.sqrt())
        if strat == "VariationalStrategy":
            m_u, S_u = mz + L @ m_f, L @ torch.diag(d_f) @ L.T
        else:
            m_u, S_u = m_f, torch.diag(d_f)
    elif q == "optimal":
        m_u, S_u = m_opt, S_opt
    elif q == "prior":
        m_u, S_u = mz, Kzz
    else:
        A = util.randn(g, M_, M_) * 0.4
        base = A @ A.T + 0.2 * torch.eye(M_)
        m_u = mz + util.randn(g, M_) * (6.0 if q == "farmean" else 0.7)
        S_u = base * (1e-6 if q == "tinyS" else (1e4 if q == "hugeS" else 1.0))
    if not q.startswith("mf_"):
        _set_qu(m, strat, m_u, S_u, mz, L)
    mll = gpytorch.mlls.VariationalELBO(lik, m, num_data=N)
    if q == "upper_garbage":
        # the Cholesky parameter is a full matrix whose strict upper triangle the parameterisation ignores (an optimiser may
        # have written anything there): same q(u), same objective
        with torch.no_grad():
            clean = mll(m(X), y) * N
            P = m.variational_strategy._variational_distribution.chol_variational_covar
            P.add_(torch.triu(util.randn(g, *P.shape), diagonal=1) * 0.8)
            dirty = mll(m(X), y) * N
            pll = gpytorch.mlls.PredictiveLogLikelihood(lik, m, num_data=N)
            pd_ = pll(m(X), y)
            P.sub_(torch.triu(P, diagonal=1))
            pc_ = pll(m(X), y)
        ctx.close("objective_matches_definition", dirty, clean, (1e-10, 1e-10), cls="elbo:upper_triangle_of_cholesky_parameter_ignored:" + strat[:6])
        ctx.close("objective_matches_definition", pd_, pc_, (1e-10, 1e-10), cls="pll:upper_triangle_of_cholesky_parameter_ignored:" + strat[:6])
        with torch.no_grad():
            P.add_(torch.triu(util.randn(g, *P.shape), diagonal=1) * 0.8)
    with torch.no_grad():
        elbo = mll(m(X), y) * N
    if q in ("random", "farmean", "prior", "optimal") or q.startswith("mf_"):
        # N*ELBO from its dense definition for this very q(u) = N(m_u, S_u):
        # sum_i [log N(y_i | mu_q(x_i), s2) - var_q(x_i) / (2 s2)] - KL(q(u) || p(u)), KL with its trace term tr(Kzz^-1 S_u)
        import math

        with torch.no_grad():
            k_, mu_ = m.covar_module, m.mean_module
            Kxz, Kxx = k_(X, Z).to_dense(), k_(X).to_dense()
            s2 = lik.noise.detach().reshape(())
            A_ = torch.linalg.solve(Kzz, Kxz.T)  # Kzz^-1 Kzx
            mu_q = mu_(X) + A_.T @ (m_u - mz)
            kl_ref = 0.5 * (torch.trace(torch.linalg.solve(Kzz, S_u)) + (m_u - mz) @ torch.linalg.solve(Kzz, m_u - mz) - M_ + torch.logdet(Kzz) - torch.logdet(S_u))
            refs = []
            jv_ = float(m.variational_strategy.jitter_val) if case.get("jitter_val") is None else float(case["jitter_val"])
            for jx in ((jv_, 0.0) if strat == "VariationalStrategy" else (0.0, jv_)):
                var_q = (Kxx + jx * torch.eye(N) - Kxz @ A_ + A_.T @ S_u @ A_).diagonal()
                refs.append((-0.5 * math.log(2 * math.pi) - 0.5 * torch.log(s2) - 0.5 * ((y - mu_q) ** 2 + var_q) / s2).sum() - kl_ref)
        # (a jitter the case declared leaves no ambiguity about where it enters: compared tightly)
        ctx.close("elbo_equals_dense_definition", elbo, refs[0], (1e-6, 1e-6) if case.get("jitter_val") is None else (1e-8, 3e-8), cls=f"{q}:{strat[:6]}", alt=refs[1], q=q)
    exact_j, tits_j = bounds["jit"]
    exact_0, tits_0 = bounds["nojit"]
    slack = 1e-6 + 2 * abs(float(exact_j - exact_0))
    ctx.expect("elbo_below_evidence", float(elbo) <= float(max(exact_j, exact_0)) + slack, f"N*ELBO {float(elbo):.8f} exceeds log evidence {float(exact_j):.8f} (q={q})", q=q)
    tslack = 1e-5 + 2 * abs(float(tits_j - tits_0))
    ctx.expect("elbo_below_titsias", float(elbo) <= float(max(tits_j, tits_0)) + tslack, f"N*ELBO {float(elbo):.8f} exceeds the collapsed bound {float(tits_j):.8f} (q={q})", q=q)
    ctx.expect("titsias_below_evidence", float(tits_j) <= float(exact_j) + 1e-8, "oracle self-check: Titsias bound above the evidence")
    if q == "optimal":
        ctx.close("optimal_q_attains_titsias", elbo, tits_j, (1e-5, 1e-6), cls="optimal:" + strat[:6], alt=tits_0)
    else:
        ctx.hit("optimal_q_attains_titsias", 0)
    ctx.cell({k: v for k, v in case.items() if k != "seed"}, nontrivial=q != "optimal")


def _ngd(case, ctx, g):
    import torch

    import gpytorch
    from vf import util

    strat, b = case["strategy"], case["batch"]
    m, lik, Z, X, y = _gauss_setup(case, g, strat, "NaturalVariationalDistribution", b)
    N = case["N"]
    vd = m.variational_strategy._variational_distribution
    if case["start"] == "random":
        with torch.no_grad():
            Lr = torch.tril(util.randn(g, *b, M_, M_)) * 0.3 + torch.eye(M_)
            P = Lr @ Lr.transpose(-1, -2)
            vd.natural_mat.copy_(-0.5 * P)
            vd.natural_vec.copy_(util.randn(g, *b, M_))
    else:
        with torch.no_grad():
            vd.natural_mat.copy_((-0.5 * torch.eye(M_)).expand(*b, M_, M_))
            vd.natural_vec.zero_()
            if strat == "UnwhitenedVariationalStrategy":
                pass
    bounds, (m_opt, S_opt), (mz, Kzz, L) = _dense_bounds(m, lik, Z, X, y, strat)
    mll = gpytorch.mlls.VariationalELBO(lik, m, num_data=N)
    if case.get("late") == "lr":
        # the step size is what the optimiser holds WHEN it steps: lr assigned on the parameter group after construction
        opt = gpytorch.optim.NGD(m.variational_parameters(), num_data=N, lr=0.05)
        opt.param_groups[0]["lr"] = 1.0
    elif case.get("late") == "scheduler":
        opt = gpytorch.optim.NGD(m.variational_parameters(), num_data=N, lr=4.0)
        sch = torch.optim.lr_scheduler.LambdaLR(opt, lambda ep: 0.25)  # (sets lr = 4 * 0.25 = 1 at construction)
    elif case.get("late") == "num_data":
        opt = gpytorch.optim.NGD(m.variational_parameters(), num_data=3 * N, lr=1.0)
        opt.num_data = N
    else:
        opt = gpytorch.optim.NGD(m.variational_parameters(), num_data=N, lr=1.0)
    opt.zero_grad()
    with torch.autograd.set_detect_anomaly(True):
        loss = -mll(m(X), y).sum()
        loss.backward()
    opt.step()
    with torch.no_grad():
        elbo = mll(m(X), y) * N
        qu = vd()
        mq, Sq = qu.mean, qu.covariance_matrix
        if strat == "VariationalStrategy":
            m_w = torch.linalg.solve_triangular(L, (m_opt - mz).unsqueeze(-1), upper=False).squeeze(-1)
            Li = torch.linalg.inv(L)
            S_w = Li @ S_opt @ Li.transpose(-1, -2)
        else:
            m_w, S_w = m_opt, S_opt
    tits_j, tits_0 = bounds["jit"][1], bounds["nojit"][1]
    cls = f"ngd:{strat[:6]}:{'batch' if b else 'single'}"
    ctx.close("ngd_one_step_reaches_optimum", elbo, tits_j.expand(elbo.shape), (1e-5, 1e-6), cls=cls + ":elbo", alt=tits_0.expand(elbo.shape), batch=b)
    ctx.close("ngd_one_step_reaches_optimum", mq, m_w.expand(mq.shape), (1e-5, 1e-5), cls=cls + ":mean", batch=b)
    ctx.close("ngd_one_step_reaches_optimum", Sq, S_w.expand(Sq.shape), (1e-5, 1e-5), cls=cls + ":cov", batch=b)
    ctx.cell({k: v for k, v in case.items() if k != "seed"})
