"""Shared history driver for C03 (history independence) and C18 (persistence at save points).

A family = a way to build a model (+likelihood) deterministically from a seed, its training data, and the public
state-changing operations that apply to it. `fresh_like` builds the sequential model of C03: a freshly constructed
model of the same class holding the same state_dict and data.
"""
import copy

import torch

import gpytorch
from gpytorch import settings as S
from vf import util

D = 2


class _Fam:
    name = "?"
    exact = True
    N = 8
    tol = (1e-7, 1e-7)
    compare_fpv = True

    def context(self):
        """settings every operation and prediction of a history of this family runs under"""
        import contextlib

        return contextlib.nullcontext()

    def __init__(self, seed):
        self.g = util.gen(seed)
        self.n = self.N
        self.X = util.randn(self.g, *self.batch(), self.n, D)
        self.y = torch.sin(self.X.sum(-1)) + 0.1 * util.randn(self.g, *self.batch(), self.n)
        self.X2 = util.randn(self.g, *self.batch(), self.n + 1, D)
        self.y2 = torch.cos(self.X2.sum(-1))
        self.y3 = util.randn(self.g, *self.batch(), self.n)
        self.xs = util.randn(self.g, 4, D)
        self.xsb = util.randn(self.g, 3, *self.batch(), 4, D)
        self.Xf = util.randn(self.g, *self.batch(), 2, D)
        self.yf = util.randn(self.g, *self.batch(), 2)
        self.init_seed = seed

    def batch(self):
        return []

    alt = False

    def Z0(self):
        """initial inducing points handed to the constructor; with `alt` set (receiving model of a state_dict round trip)
        other points: whatever the model uses afterwards has to come out of the loaded state"""
        if self.alt:
            return util.randn(util.gen(self.init_seed + 4242), 4, D)
        return self.X[..., :4, :].clone() if self.X.dim() == 2 else self.X[0, :4].clone()

    def build(self):
        raise NotImplementedError

    def make(self):
        m = self.build()
        util.randomize(m, util.gen(self.init_seed + 17), 0.4)
        m.eval()
        return m


class Default(_Fam):
    name = "default"

    def kernel(self, lik):
        return gpytorch.kernels.ScaleKernel(gpytorch.kernels.RBFKernel(batch_shape=torch.Size(self.batch())), batch_shape=torch.Size(self.batch()))

    def build(self):
        lik = gpytorch.likelihoods.GaussianLikelihood(batch_shape=torch.Size(self.batch()))
        return util.GP(self.X, self.y, lik, gpytorch.means.ConstantMean(batch_shape=torch.Size(self.batch())), self.kernel(lik))


class DefaultIterative(Default):
    """the iterative regime: no Cholesky (CG solves run to convergence), low-rank Lanczos root decompositions. Cached
    low-rank roots are approximations: a prediction that is documented as exact must never be served from one.
    fast_pred_var outputs themselves depend on which call built the root (not compared)."""

    name = "default_iterative"
    N = 30
    tol = (2e-3, 2e-3)
    compare_fpv = False

    def context(self):
        import contextlib

        st = contextlib.ExitStack()
        for c in (S.max_cholesky_size(0), S.max_root_decomposition_size(8), S.cg_tolerance(1e-4), S.eval_cg_tolerance(1e-4), S.max_cg_iterations(300), S.max_preconditioner_size(0)):
            st.enter_context(c)
        return st


class Batch(Default):
    name = "batch"

    def batch(self):
        return [2]


class BatchNaN(Batch):
    """batch exact GP whose targets miss different positions per batch element; every operation runs under the 'mask'
    observation policy, `pred_fill` predicts under 'fill' (the per-element policy) in between"""

    name = "batch_nan"

    def __init__(self, seed):
        super().__init__(seed)
        self.y = self.y.clone()
        self.y[0, 1] = float("nan")
        self.y[1, 4] = float("nan")
        self.y[1, 6] = float("nan")

    def context(self):
        return S.observation_nan_policy("mask")


class MTKron(Default):
    """exact multitask GP with Kronecker structure (MultitaskKernel, MultitaskGaussianLikelihood): targets are n x t"""

    name = "mt_kronecker"
    T = 2

    def __init__(self, seed):
        super().__init__(seed)
        g = util.gen(seed + 909)
        t = self.T
        self.y = torch.stack([self.y, torch.cos(self.X[..., 0])], -1) + 0.05 * util.randn(g, self.n, t)
        self.y2 = torch.stack([self.y2, torch.sin(self.X2[..., 1])], -1)
        self.y3 = util.randn(g, self.n, t)
        self.yf = util.randn(g, 2, t)

    def build(self):
        lik = gpytorch.likelihoods.MultitaskGaussianLikelihood(num_tasks=self.T, rank=1)
        return util.MTGP(self.X, self.y, lik, self.T, 1, {"k": "rbf"}, D)

    def targets_like(self, m):
        """other targets for the model's CURRENT inputs"""
        X = m.train_inputs[0]
        return torch.stack([torch.cos(X.sum(-1) * 1.3), torch.sin(X[..., 0] * 0.7)], -1)


class _HadamardGP(gpytorch.models.ExactGP):
    """module level (pickles): exact GP over (points, task indices) with covariance k(x, x') B[i, i']"""

    def __init__(self, X, I, y, lik, tasks):
        super().__init__((X, I), y, lik)
        self.mean_module = gpytorch.means.ConstantMean()
        self.covar_module = gpytorch.kernels.ScaleKernel(gpytorch.kernels.RBFKernel())
        self.task_covar_module = gpytorch.kernels.IndexKernel(num_tasks=tasks, rank=1)

    def forward(self, x, i):
        return gpytorch.distributions.MultivariateNormal(self.mean_module(x), self.covar_module(x).mul(self.task_covar_module(i)))


class Hadamard(Default):
    """exact GP whose forward takes TWO input tensors (the Hadamard multitask construction)"""

    name = "hadamard_two_inputs"
    T = 2

    def __init__(self, seed):
        super().__init__(seed)
        g = util.gen(seed + 707)
        ri = lambda *shape: torch.randint(0, self.T, shape, generator=g)
        self.X = (self.X, ri(self.n, 1))
        self.X2 = (self.X2, ri(self.n + 1, 1))
        self.xs = (self.xs, ri(4, 1))
        self.xsb = (self.xsb, ri(3, 4, 1))
        self.Xf = (self.Xf, ri(2, 1))

    def build(self):
        return _HadamardGP(self.X[0], self.X[1], self.y, gpytorch.likelihoods.GaussianLikelihood(), self.T)


class SKI(Default):
    name = "ski"

    def kernel(self, lik):
        return gpytorch.kernels.ScaleKernel(gpytorch.kernels.GridInterpolationKernel(gpytorch.kernels.RBFKernel(), grid_size=12, num_dims=D, grid_bounds=[(-4.0, 4.0) if not getattr(self, "alt", False) else (-5.0, 6.0)] * D))


class SKIDyn(Default):
    name = "ski_dynamic_grid"

    def kernel(self, lik):
        return gpytorch.kernels.ScaleKernel(gpytorch.kernels.GridInterpolationKernel(gpytorch.kernels.RBFKernel(), grid_size=12, num_dims=D))


class SGPR(Default):
    name = "sgpr"

    def kernel(self, lik):
        return gpytorch.kernels.InducingPointKernel(gpytorch.kernels.ScaleKernel(gpytorch.kernels.RBFKernel()), inducing_points=self.Z0(), likelihood=lik)


class _VGP(gpytorch.models.ApproximateGP):
    def __init__(self, Z, strat_cls, dist_cls, skw=None, mean=None, kernel=None):
        vd = dist_cls(Z.size(-2), batch_shape=Z.shape[:-2]) if Z.dim() > 2 else dist_cls(Z.size(-2))
        vs = strat_cls(self, Z, vd, learn_inducing_locations=True, **(skw or {}))
        super().__init__(vs)
        self.mean_module = mean or gpytorch.means.ConstantMean()
        self.covar_module = kernel or gpytorch.kernels.ScaleKernel(gpytorch.kernels.RBFKernel())

    def forward(self, x):
        return gpytorch.distributions.MultivariateNormal(self.mean_module(x), self.covar_module(x))


class SVGP(_Fam):
    name = "svgp_whitened"
    exact = False
    strat = "VariationalStrategy"
    dist = "CholeskyVariationalDistribution"

    def build(self):
        V = gpytorch.variational
        Z = self.Z0()
        m = _VGP(Z, getattr(V, self.strat), getattr(V, self.dist))
        m.likelihood = gpytorch.likelihoods.GaussianLikelihood()
        return m

    def make(self):
        m = self.build()
        util.randomize(m, util.gen(self.init_seed + 17), 0.4)
        # start from an INITIALISED model: an un-initialised variational strategy draws random initial variational
        # parameters (mean_init_std noise) at its first call, which no sequential model can reproduce
        for mod in m.modules():
            if hasattr(mod, "variational_params_initialized"):
                mod.variational_params_initialized.fill_(1)
        m.eval()
        return m


class SVGPU(SVGP):
    name = "svgp_unwhitened"
    strat = "UnwhitenedVariationalStrategy"


class SVGPMF(SVGP):
    name = "svgp_meanfield"
    dist = "MeanFieldVariationalDistribution"


class _BDModel(gpytorch.models.ApproximateGP):
    def __init__(self, Z):
        V = gpytorch.variational
        bs = torch.Size([2])
        vd = V.CholeskyVariationalDistribution(4)
        vs = V.BatchDecoupledVariationalStrategy(self, Z, vd, learn_inducing_locations=True, mean_var_batch_dim=-1)
        super().__init__(vs)
        self.mean_module = gpytorch.means.ConstantMean(batch_shape=bs)
        self.covar_module = gpytorch.kernels.ScaleKernel(gpytorch.kernels.RBFKernel(batch_shape=bs), batch_shape=bs)

    def forward(self, x):
        return gpytorch.distributions.MultivariateNormal(self.mean_module(x), self.covar_module(x))


class SVGPBD(SVGP):
    name = "svgp_batch_decoupled"

    def build(self):
        m = _BDModel(self.Z0())
        m.likelihood = gpytorch.likelihoods.GaussianLikelihood()
        return m


class _LMCModel(gpytorch.models.ApproximateGP):
    def __init__(self, Z, L, T):
        V = gpytorch.variational
        vd = V.CholeskyVariationalDistribution(4, batch_shape=torch.Size([L]))
        vs = V.LMCVariationalStrategy(V.VariationalStrategy(self, Z, vd, learn_inducing_locations=True), num_tasks=T, num_latents=L, latent_dim=-1)
        super().__init__(vs)
        self.mean_module = gpytorch.means.ConstantMean(batch_shape=torch.Size([L]))
        self.covar_module = gpytorch.kernels.ScaleKernel(gpytorch.kernels.RBFKernel(batch_shape=torch.Size([L])), batch_shape=torch.Size([L]))

    def forward(self, x):
        return gpytorch.distributions.MultivariateNormal(self.mean_module(x), self.covar_module(x))


class LMC(SVGP):
    name = "lmc_multitask"

    def build(self):
        L, T = 2, 3
        Z = self.Z0().unsqueeze(0).expand(L, 4, D).clone()
        m = _LMCModel(Z, L, T)
        m.likelihood = gpytorch.likelihoods.MultitaskGaussianLikelihood(num_tasks=T)
        return m

    def __init__(self, seed):
        super().__init__(seed)
        self.y = torch.stack([self.y, self.y * 0.5, -self.y], -1)


FAMILIES = {c.name: c for c in (Default, DefaultIterative, Batch, BatchNaN, MTKron, Hadamard, SKI, SKIDyn, SGPR, SVGP, SVGPU, SVGPMF, SVGPBD, LMC)}

EXACT_OPS = ["pred", "pred_fpv", "pred_nodetach", "pred_skipvar", "pred_eager", "pred_batch", "train_step", "set_data", "set_targets", "set_targets_strict", "load_sd", "load_sd_same", "fantasy", "prior", "backward", "train_eval"]
# (ops added after the first build are listed in the checks that use them: c03.EXT_OPS)
VAR_OPS = ["pred", "pred_batch", "pred_skipvar", "pred_eager", "train_step", "load_sd", "load_sd_same", "prior", "backward", "train_eval"]


def ops_for(fam):
    return EXACT_OPS if FAMILIES[fam].exact else VAR_OPS


def call(m, xs, **kw):
    """models whose forward takes several input tensors get them as a tuple"""
    return m(*xs, **kw) if isinstance(xs, tuple) else m(xs, **kw)


def train_inputs_of(m):
    """the model's training inputs in the form set_train_data takes (a tensor, or a tuple of tensors)"""
    return m.train_inputs[0] if len(m.train_inputs) == 1 else tuple(m.train_inputs)


def predict(m, xs, cfg=(False, True, False, True)):
    """(fast_pred_var, detach_test_caches, skip_posterior_variances, lazily_evaluate_kernels)"""
    with S.fast_pred_var(cfg[0]), S.detach_test_caches(cfg[1]), S.skip_posterior_variances(cfg[2]), S.lazily_evaluate_kernels(cfg[3]):
        torch.manual_seed(1234)  # randomised sub-routines (Lanczos probe vectors) start from the same stream on both sides
        o = call(m, xs)
        return o.mean.detach().clone(), o.covariance_matrix.detach().clone()


def _perturb_sd(sd):
    sd = copy.deepcopy(sd)
    for k in sd:
        if torch.is_tensor(sd[k]) and sd[k].dtype.is_floating_point and any(t in k for t in ("raw_lengthscale", "raw_noise", "inducing_points", "variational_mean", "raw_outputscale", "raw_constant", "chol_variational_covar", "_variational_stddev")):
            if "chol_variational_covar" in k:
                sd[k] = sd[k] * 1.1
            else:
                sd[k] = sd[k] + 0.25
    return sd


def _fantasy_child(m, f):
    """get_fantasy_model on a model that has predicted. Kernel-specific strategies (KISS-GP) keep non-leaf caches when they
    predicted with autograd on, and the model copy inside get_fantasy_model refuses those (recorded deepcopy finding): such a
    strategy is rebuilt with autograd off first, so that the fantasy operations are not a blind spot for those families"""
    with torch.no_grad():
        strat = m.prediction_strategy
        if strat is not None and any(torch.is_tensor(v_) and v_.grad_fn is not None for v_ in getattr(strat, "_memoize_cache", {}).values()):
            m.prediction_strategy = None
        if m.prediction_strategy is None:
            predict(m, f.xs)
        try:
            return m.get_fantasy_model(list(f.Xf) if isinstance(f.Xf, tuple) else f.Xf, f.yf)
        except RuntimeError as e:
            if "graph leaves" not in str(e):
                raise
            # non-leaf tensors held elsewhere (kernel-level caches of KISS-GP): the recorded deepcopy finding. Mode switch (the
            # documented way of dropping every cache), a prediction with autograd off, then the fantasy
            m.train()
            m.eval()
            predict(m, f.xs)
            return m.get_fantasy_model(list(f.Xf) if isinstance(f.Xf, tuple) else f.Xf, f.yf)


def apply_op(fam, m, op, state):
    """state: dict carrying the family's data (mutated by set_data)"""
    f = state["fam"]
    exact = f.exact
    if op == "pred":
        return predict(m, f.xs)
    elif op == "pred_fpv":
        return predict(m, f.xs, (True, True, False, True))
    elif op == "pred_nodetach":
        return predict(m, f.xs, (False, False, False, True))
    elif op == "pred_skipvar":
        return predict(m, f.xs, (False, True, True, True))
    elif op == "pred_eager":
        return predict(m, f.xs, (False, True, False, False))
    elif op == "pred_batch":
        return predict(m, f.xsb)
    elif op == "pred_fill":
        with S.observation_nan_policy("fill"):
            return predict(m, f.xs)
    elif op == "pred_jitter":
        # a prediction under other numerical settings (jitter contexts); later predictions run under the defaults again
        with S.variational_cholesky_jitter(float_value=1e-2, double_value=1e-2), S.cholesky_jitter(float_value=1e-3, double_value=1e-3):
            return predict(m, f.xs)
    elif op == "prior_jitter":
        # a prior-mode call under the jitter contexts of `pred_jitter` (no posterior quantity is computed)
        with S.variational_cholesky_jitter(float_value=1e-2, double_value=1e-2), S.cholesky_jitter(float_value=1e-3, double_value=1e-3):
            if exact:
                with S.prior_mode(True):
                    call(m, f.xs)
            else:
                m(f.xs, prior=True)
    elif op == "pred_loose":
        # a quick-and-rough prediction: iterative solves stopped early, rank-3 LOVE cache
        with S.max_cholesky_size(0), S.eval_cg_tolerance(0.3), S.max_root_decomposition_size(3):
            return predict(m, f.xs, (True, True, False, True))
    elif op in ("train_step_frozen", "train_step_jitter"):
        # (frozen) fine-tuning with part of the parameters frozen: the variational parameters and inducing points of a
        # variational model, the kernel of an exact one. (jitter) the step is taken under other jitter settings.
        frozen = []
        if op == "train_step_frozen":
            mod = m.variational_strategy if not exact else m.covar_module
            frozen = [p_ for p_ in mod.parameters() if p_.requires_grad]
            if not exact:
                frozen = [p_ for n_, p_ in mod.named_parameters() if p_.requires_grad and ("inducing_points" in n_ or "variational" in n_.split(".")[-1] or "_variational_distribution" in n_)]
            for p_ in frozen:
                p_.requires_grad_(False)
        try:
            import contextlib

            with (contextlib.ExitStack() if op == "train_step_frozen" else S.variational_cholesky_jitter(float_value=1e-2, double_value=1e-2)):
                apply_op(fam, m, "train_step", state)
        finally:
            for p_ in frozen:
                p_.requires_grad_(True)
    elif op == "train_step_via_mll":
        # the usual training loop: mode switches go through the objective object (its children are the model and the
        # likelihood), not through the model itself
        lik = m.likelihood
        mll = gpytorch.mlls.ExactMarginalLogLikelihood(lik, m) if exact else gpytorch.mlls.VariationalELBO(lik, m, num_data=f.n)
        mll.train()
        params = [p_ for p_ in {id(p): p for p in list(m.parameters()) + list(lik.parameters())}.values() if p_.requires_grad]
        opt = torch.optim.SGD(params, lr=0.05)
        opt.zero_grad()
        loss = -(mll(m(*m.train_inputs), m.train_targets) if exact else mll(m(f.X), f.y)).sum()
        loss.backward()
        opt.step()
        mll.eval()
    elif op == "load_sd_partial":
        # a partial state dict (the kernel's entries only), strict=False: modules it does not address still depend on it
        sd = _perturb_sd(m.state_dict())
        part = {k_: v_ for k_, v_ in sd.items() if "covar_module" in k_}
        m.load_state_dict(part, strict=False)
    elif op == "train_step":
        m.train()
        lik = m.likelihood
        lik.train()
        params = [p_ for p_ in {id(p): p for p in list(m.parameters()) + list(lik.parameters())}.values() if p_.requires_grad]
        opt = torch.optim.SGD(params, lr=0.05)
        if exact:
            mll = gpytorch.mlls.ExactMarginalLogLikelihood(lik, m)
            opt.zero_grad()
            loss = -mll(m(*m.train_inputs), m.train_targets).sum()
        else:
            mll = gpytorch.mlls.VariationalELBO(lik, m, num_data=f.n)
            opt.zero_grad()
            loss = -mll(m(f.X), f.y).sum()
        loss.backward()
        opt.step()
        m.eval()
        lik.eval()
    elif op == "set_data":
        m.set_train_data(f.X2, f.y2, strict=False)
    elif op == "set_targets":
        if hasattr(f, "targets_like"):
            newy = f.y3 if m.train_targets.shape == f.y3.shape else f.targets_like(m)
        else:
            cur_n = m.train_targets.shape[-1]
            newy = f.y3 if cur_n == f.n else torch.cos(m.train_inputs[0].sum(-1) * 1.3)
        m.set_train_data(targets=newy, strict=False)
    elif op == "set_data_inplace":
        # the training tensors are edited in place and handed to set_train_data again (the same tensor OBJECTS): the documented
        # way of telling the model that its data changed
        with torch.no_grad():
            for t_ in train_inputs_of(m) if isinstance(train_inputs_of(m), (list, tuple)) else [train_inputs_of(m)]:
                if t_.dtype.is_floating_point:
                    t_.mul_(0.9).add_(0.11)
            m.train_targets.mul_(0.8).add_(0.05)
        m.set_train_data(inputs=m.train_inputs if len(m.train_inputs) > 1 else m.train_inputs[0], targets=m.train_targets, strict=True)
    elif op == "set_data_refused":
        # a strict set_train_data that the model refuses (targets of another shape next to acceptable inputs): the caller
        # catches the error and goes on - the model is either unchanged or consistently changed, never half of each
        cur_x = m.train_inputs[0]
        try:
            m.set_train_data(inputs=torch.sin(cur_x * 1.3) + 0.2 * cur_x, targets=torch.cat([m.train_targets, m.train_targets[..., :1]], -1), strict=True)
        except RuntimeError:
            pass
    elif op == "set_targets_strict":
        # targets only, default strict=True (same shape as the current targets)
        cur = m.train_targets
        m.set_train_data(targets=torch.cos(cur * 1.7 + 0.3) + 0.1 * cur)
    elif op == "load_sd":
        m.load_state_dict(_perturb_sd(m.state_dict()))
    elif op == "load_sd_same":
        m.load_state_dict(copy.deepcopy(m.state_dict()))
    elif op == "fantasy":
        _fantasy_child(m, f)
    elif op == "fantasy_train":
        # a fantasy model is created and TRAINED (one optimiser step on its own parameters): nothing of the source may move
        fm = _fantasy_child(m, f)
        fm.train()
        fm.likelihood.train()
        params = [p_ for p_ in {id(p): p for p in list(fm.parameters()) + list(fm.likelihood.parameters())}.values() if p_.requires_grad]
        opt = torch.optim.SGD(params, lr=0.1)
        opt.zero_grad()
        mll = gpytorch.mlls.ExactMarginalLogLikelihood(fm.likelihood, fm)
        loss = -mll(fm(*fm.train_inputs), fm.train_targets).sum()
        loss.backward()
        opt.step()
    elif op == "fantasy_selfcheck":
        # exact fantasy model: its first predictions (default and fast-variance settings) are served from the caches injected by
        # the update formulas; after train()/eval() they are recomputed from its own data - the same numbers
        # (autograd off: kernel-specific strategies keep non-leaf caches otherwise and the model copy inside get_fantasy_model
        # refuses them - the recorded deepcopy finding; the default strategy detaches its caches)
        with torch.no_grad():
            fm = _fantasy_child(m, f)
            fm.eval()
            first = [predict(fm, f.xs, cfg) for cfg in ((False, True, False, True), (True, True, False, True))]
            fm.train()
            fm.eval()
            again = [predict(fm, f.xs, cfg) for cfg in ((False, True, False, True), (True, True, False, True))]
        cat = lambda lst: (torch.cat([a_[0].reshape(-1) for a_ in lst]), torch.cat([a_[1].reshape(-1) for a_ in lst]))
        return ("selfcheck", cat(first), cat(again))
    elif op == "var_fantasy":
        # online variational conditioning: an ExactGP over the inducing points + the new data, with injected caches; its
        # first prediction (served from the injected caches) against the one it recomputes after train()/eval()
        fm = m.get_fantasy_model(f.Xf, f.yf)
        fm.eval()
        with torch.no_grad():
            o1 = fm(f.xs)
            p1 = (o1.mean.clone(), o1.covariance_matrix.clone())
            fm.train()
            fm.eval()
            o2 = fm(f.xs)
            p2 = (o2.mean.clone(), o2.covariance_matrix.clone())
        return ("selfcheck", p1, p2)
    elif op == "prior":
        if exact:
            with S.prior_mode(True):
                call(m, f.xs)
        else:
            m(f.xs, prior=True)
    elif op == "backward":
        with S.detach_test_caches(False):
            o = call(m, f.xs)
            (o.mean.sum() + o.variance.sum()).backward()
        m.zero_grad()
    elif op == "train_eval":
        m.train()
        m.eval()
    else:
        raise KeyError(op)


def fresh_like(state, m):
    f = state["fam"]
    fr = f.build()
    if f.exact:
        fr.set_train_data(train_inputs_of(m), m.train_targets, strict=False)
    fr.load_state_dict(copy.deepcopy(m.state_dict()))
    fr.eval()
    return fr
