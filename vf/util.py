"""Shared workload helpers: JSON kernel/mean/likelihood specs -> real gpytorch objects, seeded data,
settings contexts from dicts, dense float64 reference algebra (torch.linalg only)."""
import contextlib
import math

import torch

import gpytorch
from gpytorch import settings as S


def gen(seed):
    g = torch.Generator()
    g.manual_seed(int(seed) % (2**31))
    return g


def randn(g, *shape):
    return torch.randn(tuple(shape), generator=g, dtype=torch.double)


def rand(g, *shape):
    return torch.rand(tuple(shape), generator=g, dtype=torch.double)


# ---- specs -> objects -------------------------------------------------------------------------------------
def build_kernel(spec, d, batch=()):
    """spec: {"k": name, ...}. `batch` is the parameter batch shape."""
    K = gpytorch.kernels
    bs = torch.Size(batch)
    k = spec["k"]
    ad = spec.get("active_dims")
    dd = len(ad) if ad is not None else d
    ard = dd if spec.get("ard") else None
    common = dict(batch_shape=bs, active_dims=tuple(ad) if ad is not None else None)
    if ard is not None:
        common["ard_num_dims"] = ard
    if k == "rbf":
        return K.RBFKernel(**common)
    if k == "matern":
        return K.MaternKernel(nu=spec.get("nu", 2.5), **common)
    if k == "rq":
        return K.RQKernel(**common)
    if k == "periodic":
        return K.PeriodicKernel(**common)
    if k == "cosine":
        return K.CosineKernel(**common)
    if k == "linear":
        return K.LinearKernel(**common)
    if k == "poly":
        return K.PolynomialKernel(power=spec.get("power", 2), **common)
    if k == "pp":
        return K.PiecewisePolynomialKernel(q=spec.get("q", 2), **common)
    if k == "sm":
        return K.SpectralMixtureKernel(num_mixtures=spec.get("mixtures", 2), **{**common, "ard_num_dims": dd})
    if k == "rff":
        return K.RFFKernel(num_samples=spec.get("samples", 6), num_dims=dd, batch_shape=bs)
    if k == "rbfgrad":
        return K.RBFKernelGrad(**common)
    if k == "m52grad":
        return K.Matern52KernelGrad(**common)
    if k == "multitask":
        return K.MultitaskKernel(K.RBFKernel(batch_shape=bs), num_tasks=spec.get("tasks", 2), rank=spec.get("rank", 1), batch_shape=bs)
    if k == "index":
        return K.IndexKernel(num_tasks=spec.get("tasks", 3), rank=spec.get("rank", 1), batch_shape=bs, active_dims=tuple(ad) if ad is not None else None)
    if k == "constant":
        return K.ConstantKernel(batch_shape=bs)
    if k == "scale":
        return K.ScaleKernel(build_kernel(spec["base"], d, batch), batch_shape=bs)
    if k == "sum":
        parts = [build_kernel(p, d, batch) for p in spec["parts"]]
        out = parts[0]
        for p in parts[1:]:
            out = out + p
        return out
    if k == "prod":
        parts = [build_kernel(p, d, batch) for p in spec["parts"]]
        out = parts[0]
        for p in parts[1:]:
            out = out * p
        return out
    raise ValueError(k)


def build_mean(name, d, batch=()):
    M = gpytorch.means
    bs = torch.Size(batch)
    if name == "zero":
        return M.ZeroMean(batch_shape=bs)
    if name == "constant":
        return M.ConstantMean(batch_shape=bs)
    if name == "constant_constrained":
        return M.ConstantMean(batch_shape=bs, constant_constraint=gpytorch.constraints.Interval(-2.0, 3.0))
    if name == "linear":
        return M.LinearMean(d, batch_shape=bs)
    if name == "linear_nobias":
        return M.LinearMean(d, batch_shape=bs, bias=False)
    raise ValueError(name)


def mean_oracle(mean_module, X):
    """documented mean functions from the PUBLIC (constrained) parameter values; other classes: the module itself"""
    M = gpytorch.means
    if type(mean_module) is M.ZeroMean:
        return torch.zeros(*torch.broadcast_shapes(X.shape[:-2], mean_module.batch_shape), X.shape[-2], dtype=X.dtype)
    if type(mean_module) is M.ConstantMean:
        c = mean_module.constant  # the constrained value (ConstantMean documents `constant`, optionally constrained)
        return c.unsqueeze(-1).expand(*torch.broadcast_shapes(c.shape, X.shape[:-2]), X.shape[-2])
    if type(mean_module) is M.LinearMean:
        out = (X @ mean_module.weights).squeeze(-1)
        return out + mean_module.bias if mean_module.bias is not None else out
    return mean_module(X)


def randomize(module, g, scale=0.7):
    """draw every raw parameter (different per batch element) - constrained values stay in a sane range"""
    with torch.no_grad():
        for n, p in module.named_parameters():
            p.copy_(randn(g, *p.shape).reshape(p.shape) * scale)


class GP(gpytorch.models.ExactGP):
    def __init__(self, x, y, lik, mean, kernel):
        super().__init__(x, y, lik)
        self.mean_module = mean
        self.covar_module = kernel

    def forward(self, x):
        return gpytorch.distributions.MultivariateNormal(self.mean_module(x), self.covar_module(x))


class MTGP(gpytorch.models.ExactGP):
    def __init__(self, x, y, lik, t, rank, kernel_spec, d):
        super().__init__(x, y, lik)
        self.mean_module = gpytorch.means.MultitaskMean(gpytorch.means.ConstantMean(), num_tasks=t)
        self.covar_module = gpytorch.kernels.MultitaskKernel(build_kernel(kernel_spec, d), num_tasks=t, rank=rank)

    def forward(self, x):
        return gpytorch.distributions.MultitaskMultivariateNormal(self.mean_module(x), self.covar_module(x))


SETTING_CLASSES = {
    "lazily_evaluate_kernels": S.lazily_evaluate_kernels,
    "max_eager_kernel_size": S.max_eager_kernel_size,
    "max_cholesky_size": S.max_cholesky_size,
    "fast_pred_var": S.fast_pred_var,
    "fast_pred_samples": S.fast_pred_samples,
    "detach_test_caches": S.detach_test_caches,
    "skip_posterior_variances": S.skip_posterior_variances,
    "sgpr_diagonal_correction": S.sgpr_diagonal_correction,
    "use_toeplitz": S.use_toeplitz,
    "prior_mode": S.prior_mode,
    "observation_nan_policy": S.observation_nan_policy,
    "memory_efficient": S.memory_efficient,
    "trace_mode": S.trace_mode,
    "debug": S.debug,
    "num_gauss_hermite_locs": S.num_gauss_hermite_locs,
    "min_preconditioning_size": S.min_preconditioning_size,
    "max_preconditioner_size": S.max_preconditioner_size,
    "deterministic_probes": S.deterministic_probes,
}


@contextlib.contextmanager
def settings_ctx(sd, tight=True, n=100, predict_only=False):
    """enter the settings named in dict `sd`; tight=True additionally forces the iterative algorithms to their
    exact regime (tolerances 1e-10, iteration caps >= n) as the properties prescribe."""
    with contextlib.ExitStack() as st:
        if tight:
            if not predict_only:
                # (prediction checks tighten only the prediction-time tolerance: every solve a prediction needs has to run
                # under eval_cg_tolerance, whatever the training-time cg_tolerance - default 1 - is)
                st.enter_context(S.cg_tolerance(1e-10))
            st.enter_context(S.eval_cg_tolerance(1e-10))
            st.enter_context(S.max_cg_iterations(4000))
            st.enter_context(S.max_root_decomposition_size(max(100, 2 * n)))
            st.enter_context(S.max_lanczos_quadrature_iterations(max(100, 2 * n)))
            st.enter_context(S.max_preconditioner_size(0) if sd.get("no_precond") else contextlib.nullcontext())
        for k, v in sd.items():
            if k == "fast_computations":
                st.enter_context(S.fast_computations(covar_root_decomposition=v[0], log_prob=v[1], solves=v[2]))
            elif k in SETTING_CLASSES:
                st.enter_context(SETTING_CLASSES[k](v))
            elif k in ("no_precond",):
                pass
            else:
                raise KeyError(k)
        yield


# ---- dense reference algebra ---------------------------------------------------------------------------------
def chol_solve(A, B):
    L = torch.linalg.cholesky(A)
    return torch.cholesky_solve(B, L)


def dense_conditional(Kxx, Ksx, Kss, mx, ms, S_, y):
    """m* + K*x (Kxx+S)^-1 (y-mx),  K** - K*x (Kxx+S)^-1 Kx*  (batch-broadcast dense float64)"""
    A = Kxx + S_
    L = torch.linalg.cholesky(A)
    alpha = torch.cholesky_solve((y - mx).unsqueeze(-1), L)
    mean = ms + (Ksx @ alpha).squeeze(-1)
    cov = Kss - Ksx @ torch.cholesky_solve(Ksx.transpose(-1, -2), L)
    return mean, cov, alpha.squeeze(-1), A


def mvn_logpdf(y, m, C):
    L = torch.linalg.cholesky(C)
    r = torch.linalg.solve_triangular(L, (y - m).unsqueeze(-1), upper=False).squeeze(-1)
    n = y.shape[-1]
    return -0.5 * (r * r).sum(-1) - torch.log(torch.diagonal(L, dim1=-2, dim2=-1)).sum(-1) - 0.5 * n * math.log(2 * math.pi)


def prior_pieces(model, X, xs):
    """the model's own prior pieces, evaluated eagerly and separately (the oracle's inputs). Evaluated in the
    caller's grad mode: gpytorch's distance code zeroes the diagonal of a Gram matrix only when no gradient is
    required, so K(x,x) differs by ~1e-8 between the two modes for non-smooth kernels (sqrt of rounding noise)."""
    with S.lazily_evaluate_kernels(False), S.prior_mode(True):
        k, m = model.covar_module, model.mean_module
        Kxx = k(X).to_dense().detach()
        Ksx = k(xs, X).to_dense().detach()
        Kss = k(xs).to_dense().detach()
        mx, ms = m(X).detach(), m(xs).detach()
    return Kxx, Ksx, Kss, mx, ms


def noise_matrix(likelihood, mean_like, *params, **kw):
    """S = what the likelihood adds to a function distribution with the shape of mean_like (dense)"""
    n = mean_like.shape[-1] if mean_like.dim() >= 1 else 1
    with torch.no_grad():
        I = torch.eye(mean_like.shape[-2] * mean_like.shape[-1] if False else n, dtype=mean_like.dtype)
        base = gpytorch.distributions.MultivariateNormal(torch.zeros_like(mean_like), I.expand(*mean_like.shape[:-1], n, n))
        out = likelihood(base, *params, **kw)
        return out.covariance_matrix - base.covariance_matrix


def lam_minmax(C):
    ev = torch.linalg.eigvalsh(0.5 * (C + C.transpose(-1, -2)))
    return float(ev.min()), float(ev.abs().max())
