"""Framework core: case context, verdict policy, monitor counters, shard runner, evidence writer.

Every check module (vf/checks/cNN.py) exposes
    PROPERTY   = "Cnn"
    RULE       = "<how cases are generated and what makes one non-trivial>"
    REQUIRED   = [names of deciding monitors; zero evaluations of any => inconclusive]
    ASSUMPTIONS = [...]
    def cases(tier, seed) -> iterable of JSON-able case descriptors (deterministic)
    def run_case(case, ctx) -> None   (drives the real code; monitors/oracles report through ctx)
    MATCHERS = {finding_id: predicate(case, failure) -> bool}     (optional; mechanism keyed)
    def setup(ctx) -> None (optional; attach process-wide monitors)
"""
import collections
import hashlib
import json
import math
import os
import sys
import time
import traceback

VERIF = os.path.dirname(os.path.dirname(os.path.abspath(__file__)))
REPO = os.environ.get("VERIF_REPO", "/repo")

# tolerance tiers of DESIGN §3
TOL = {
    "direct": (1e-8, 1e-8),
    # linear_operator's CG treats p^T A p < eps=1e-10 as zero ("safe division") and stops updating, so its attainable
    # accuracy is ~1e-5 relative to the rhs norm whatever cg_tolerance is; observed worst 2e-4 on cond~1e3 systems
    "iter": (1e-3, 1e-3),
    # Lanczos-based decompositions (LOVE with Cholesky disabled): loss of orthogonality, observed 3e-4
    "lanczos": (2e-2, 2e-2),
    "loose": (1e-4, 1e-4),
    "f32": (1e-3, 1e-3),
    "bit": (0.0, 0.0),
}


def jdump(o):
    return json.dumps(o, sort_keys=True, default=_jdefault)


def _jdefault(o):
    try:
        import torch

        if isinstance(o, torch.Tensor):
            return o.detach().cpu().tolist()
        if isinstance(o, torch.Size):
            return list(o)
        if isinstance(o, torch.dtype):
            return str(o)
    except Exception:
        pass
    if isinstance(o, (set, frozenset, tuple)):
        return list(o)
    if isinstance(o, slice):
        return ["slice", o.start, o.stop, o.step]
    if o is Ellipsis:
        return "..."
    return repr(o)


def case_hash(case):
    return hashlib.sha1(jdump(case).encode()).hexdigest()[:12]


class Reject(Exception):
    """Raised by a check to discard a case (input outside the property's quantifier)."""


class Ctx:
    """Per-shard accumulator; the API the checks' monitors and oracles report through."""

    def __init__(self, prop, tier, seed):
        self.prop, self.tier, self.seed = prop, tier, seed
        self.monitors = collections.Counter()
        self.cells = set()
        self.nontrivial = set()
        self.worst = {}
        self.rejected = collections.Counter()
        self.evaluations = 0
        self.failed_cases = []  # [{case, failures:[...]}]
        self.samples = []
        self.info = collections.Counter()
        self.notes = {}
        self._case = None
        self._fail = None
        self.max_fail_records = 200

    # ---- case lifecycle -------------------------------------------------------------------
    def begin(self, case):
        self._case = case
        self._fail = []
        self.evaluations += 1

    def end(self):
        if self._fail:
            if len(self.failed_cases) < self.max_fail_records:
                self.failed_cases.append({"case": self._case, "failures": self._fail[:20]})
            else:
                self.info["failed_cases_not_recorded"] += 1
        elif len(self.samples) < 4 or (self._case.get("hostile") and len(self.samples) < 6):
            self.samples.append(self._case)
        self._case = None

    # ---- monitors -------------------------------------------------------------------------
    def hit(self, name, n=1):
        self.monitors[name] += n

    def cell(self, key, nontrivial=True):
        key = key if isinstance(key, str) else jdump(key)
        self.cells.add(key)
        if nontrivial:
            self.nontrivial.add(key)

    def reject(self, reason):
        self.rejected[reason] += 1

    def fail(self, monitor, detail, mechanism=None, **kw):
        rec = {"monitor": monitor, "detail": detail}
        if mechanism:
            rec["mechanism"] = mechanism
        rec.update(kw)
        self._fail.append(rec)
        return False

    def expect(self, monitor, cond, detail="", mechanism=None, **kw):
        self.monitors[monitor] += 1
        if not cond:
            return self.fail(monitor, detail, mechanism, **kw)
        return True

    def close(self, monitor, got, ref, tol="direct", cls=None, mechanism=None, detail="", alt=None, **kw):
        """Numerical oracle: err = max|got-ref| / (atol + rtol*max|ref|) must be <= 1.
        alt: optional second admissible reference (jitter rule of DESIGN §3): (ref2,) passes when
        |got-ref2| <= tol + 2|ref-ref2|."""
        import torch

        self.monitors[monitor] += 1
        atol, rtol = TOL[tol] if isinstance(tol, str) else tol
        got = torch.as_tensor(got)
        ref = torch.as_tensor(ref)
        if got.shape != ref.shape:
            try:
                torch.broadcast_shapes(got.shape, ref.shape)
                if got.numel() != ref.numel():
                    raise RuntimeError
                got = got.reshape(ref.shape)
            except RuntimeError:
                return self.fail(
                    monitor, f"shape {tuple(got.shape)} != {tuple(ref.shape)} {detail}", mechanism or "shape", **kw
                )
        got = got.detach().to(torch.float64)
        ref = ref.detach().to(torch.float64)
        if not torch.isfinite(got).all():
            if torch.isfinite(ref).all():
                return self.fail(monitor, f"non-finite output {detail}", mechanism or "nonfinite", **kw)
        if ref.numel() == 0:
            return True
        scale = atol + rtol * float(ref.abs().max())
        diff = float((got - ref).abs().max()) if scale > 0 else (0.0 if torch.equal(got, ref) else math.inf)
        err = diff / scale if scale > 0 else diff
        if alt is not None and err > 1:
            ref2 = torch.as_tensor(alt).detach().to(torch.float64)
            slack = 2 * float((ref - ref2).abs().max())
            diff2 = float((got - ref2).abs().max())
            if diff2 <= scale + slack:
                err = min(err, 1.0)
        key = cls or monitor
        if err <= 1 and err > self.worst.get(key, -1.0):
            self.worst[key] = err  # largest error (in units of the tolerance) among the comparisons that passed
        if not (err <= 1):
            return self.fail(
                monitor,
                f"max|got-ref|={diff:.3e} scale={scale:.1e} (err={err:.3g}) {detail}",
                mechanism,
                abs_err=diff,
                **kw,
            )
        return True

    def result(self):
        return {
            "evaluations": self.evaluations,
            "monitors": dict(self.monitors),
            "cells": sorted(self.cells),
            "nontrivial": sorted(self.nontrivial),
            "worst": self.worst,
            "rejected": dict(self.rejected),
            "failed_cases": self.failed_cases,
            "samples": self.samples,
            "info": dict(self.info),
            "notes": self.notes,
        }


# ---- coverage witness (sys.monitoring): which gpytorch functions the run reached -------------
class Reached:
    def __init__(self, root):
        self.root = root
        self.seen = set()
        self.on = False

    def start(self):
        mon = getattr(sys, "monitoring", None)
        if mon is None:
            return
        try:
            mon.use_tool_id(3, "vf-reached")
        except ValueError:
            return
        root = self.root

        def cb(code, offset):
            fn = code.co_filename
            if fn.startswith(root):
                self.seen.add(fn[len(root) :].lstrip("/") + ":" + code.co_qualname)
            return mon.DISABLE

        mon.register_callback(3, mon.events.PY_START, cb)
        mon.set_events(3, mon.events.PY_START)
        self.on = True

    def stop(self):
        if self.on:
            mon = sys.monitoring
            mon.set_events(3, 0)
            mon.free_tool_id(3)
            self.on = False


def load_known():
    p = os.path.join(VERIF, "known_findings.json")
    if not os.path.exists(p):
        return []
    return json.load(open(p))["findings"]


def load_check(prop):
    import importlib

    return importlib.import_module("vf.checks." + prop.lower())


def run_shard(prop, tier, seed, shard, nshards, out, replay=None):
    """Runs inside a fresh interpreter (see run.py). Writes a JSON result file."""
    t0 = time.time()
    import faulthandler

    faulthandler.enable()
    import warnings

    warnings.simplefilter("ignore")
    import torch

    torch.set_num_threads(1)
    torch.set_default_dtype(torch.double)
    import gpytorch

    assert os.path.realpath(gpytorch.__file__).startswith(os.path.realpath(REPO)), gpytorch.__file__
    reached = Reached(os.path.realpath(REPO))
    reached.start()
    mod = load_check(prop)
    ctx = Ctx(prop, tier, seed)
    if hasattr(mod, "setup"):
        mod.setup(ctx)
    if replay is not None:
        cases = [replay]
    else:
        cases = (c for i, c in enumerate(mod.cases(tier, seed)) if i % nshards == shard)
    budget = float(os.environ.get("VERIF_SHARD_BUDGET", "0") or 0)
    truncated = 0
    for case in cases:
        if budget and time.time() - t0 > budget:
            truncated += 1
            continue
        ctx.begin(case)
        # the library's randomised sub-routines (Lanczos / SLQ probe vectors, random features) draw from torch's global
        # stream: pin it per case so that a replay re-executes the same execution
        torch.manual_seed(int(case_hash(case), 16) % (2**31))
        try:
            mod.run_case(case, ctx)
        except Reject as e:
            ctx.reject(str(e))
        except Exception as e:  # harness-level: an unexpected raise outside a monitored call
            tb = traceback.format_exc(limit=8)
            ctx.fail("unhandled_exception", f"{type(e).__name__}: {e}", "unhandled", traceback=tb[-1500:])
        ctx.end()
    if hasattr(mod, "teardown"):
        mod.teardown(ctx)
    reached.stop()
    res = ctx.result()
    # classify failures: known finding (mechanism matcher; only ids listed as "known") or violation
    known = {f["id"] for f in load_known() if f["property"] == prop and f["status"] == "known"}
    matchers = getattr(mod, "MATCHERS", {})
    matched = collections.Counter()
    violations = []
    for fc in res.pop("failed_cases"):
        unmatched = []
        for fl in fc["failures"]:
            hit = None
            for fid, pred in matchers.items():
                if fid in known:
                    try:
                        if pred(fc["case"], fl):
                            hit = fid
                            break
                    except Exception:
                        pass
            if hit:
                matched[hit] += 1
            else:
                unmatched.append(fl)
        if unmatched:
            violations.append({"case": fc["case"], "failures": unmatched})
    res["violations"] = violations
    res["matched"] = dict(matched)
    required = list(getattr(mod, "REQUIRED", []))
    if callable(getattr(mod, "required", None)):
        required = mod.required(tier)
    res["meta"] = {
        "rule": getattr(mod, "RULE", ""),
        "required": required,
        "assumptions": list(getattr(mod, "ASSUMPTIONS", [])),
        "anchor_files": getattr(mod, "ANCHOR_FILES", None),
    }
    res["truncated"] = truncated
    res["reached"] = sorted(reached.seen)
    res["wall_s"] = time.time() - t0
    with open(out, "w") as f:
        f.write(jdump(res))
