#!/venv/bin/python
"""CLI:  vf/run.py <Cxx> [--tier quick|thorough] [--seed N] [--shards N] [--replay file]

Exit 0: property held on everything explored (KNOWN-FINDING lines may be printed).
Exit 1: >=1 violation, one line `VIOLATION property=<id> replay=<path>` per violating case (capped).
Exit 2: inconclusive (a deciding monitor never fired, a shard timed out/crashed, too few non-trivial cells).
"""
import argparse
import collections
import json
import os
import subprocess
import sys
import tempfile
import time

HERE = os.path.dirname(os.path.abspath(__file__))
VERIF = os.path.dirname(HERE)
sys.path.insert(0, VERIF)
from vf.core import REPO, case_hash, jdump  # noqa: E402

PY = os.environ.get("VERIF_PYTHON", "/venv/bin/python")

SHARD_SNIPPET = (
    "import sys, json; sys.path.insert(0, {verif!r}); from vf.core import run_shard; "
    "run_shard({prop!r}, {tier!r}, {seed}, {shard}, {nshards}, {out!r}, replay={replay})"
)


def shard_env():
    env = dict(os.environ)
    env["PYTHONPATH"] = REPO + os.pathsep + VERIF
    env["PYTHONHASHSEED"] = "0"
    env["GPYTORCH_VERIF"] = "1"
    env["OMP_NUM_THREADS"] = "1"
    env["MKL_NUM_THREADS"] = "1"
    env["PYTHONWARNINGS"] = "ignore"
    return env


def load_known():
    p = os.path.join(VERIF, "known_findings.json")
    if not os.path.exists(p):
        return []
    return json.load(open(p))["findings"]


def main():
    ap = argparse.ArgumentParser()
    ap.add_argument("prop")
    ap.add_argument("--tier", default=os.environ.get("VERIF_TIER", "quick"))
    ap.add_argument("--seed", type=int, default=int(os.environ.get("VERIF_SEED", "0") or 0))
    ap.add_argument("--shards", type=int, default=0)
    ap.add_argument("--replay")
    ap.add_argument("--timeout", type=float, default=0)
    a = ap.parse_args()
    prop = a.prop.upper()
    tier = a.tier if a.tier in ("quick", "thorough") else "quick"
    t0 = time.time()

    from vf.checks import CONFIG

    cfg = CONFIG.get(prop, {})
    nshards = a.shards or cfg.get("shards", {}).get(tier, 8 if tier == "quick" else 16)
    nshards = max(1, min(nshards, os.cpu_count() or 1))
    timeout = a.timeout or cfg.get("timeout", {}).get(tier, 600 if tier == "quick" else 3000)

    replay_case = None
    if a.replay:
        rp = json.load(open(a.replay))
        replay_case = rp["case"] if "case" in rp else rp
        nshards = 1

    tmpd = tempfile.mkdtemp(prefix="vf_", dir=os.path.join(VERIF, ".scratch") if os.path.isdir(os.path.join(VERIF, ".scratch")) else None)
    procs = []
    for s in range(nshards):
        out = os.path.join(tmpd, f"shard{s}.json")
        code = SHARD_SNIPPET.format(
            verif=VERIF, prop=prop, tier=tier, seed=a.seed, shard=s, nshards=nshards, out=out, replay=repr(replay_case)
        )
        log = open(os.path.join(tmpd, f"shard{s}.log"), "w")
        p = subprocess.Popen([PY, "-c", code], env=shard_env(), stdout=log, stderr=subprocess.STDOUT, cwd=VERIF)
        procs.append((s, p, out, log))

    inconclusive = []
    results = []
    deadline = t0 + timeout
    for s, p, out, log in procs:
        try:
            rc = p.wait(timeout=max(1.0, deadline - time.time()))
        except subprocess.TimeoutExpired:
            p.kill()
            p.wait()
            inconclusive.append(f"shard {s} hit the wall-clock watchdog ({timeout:.0f}s)")
            continue
        finally:
            log.close()
        if rc != 0 or not os.path.exists(out):
            tail = open(log.name).read()[-1500:]
            inconclusive.append(f"shard {s} exited rc={rc}: {tail}")
            continue
        results.append(json.load(open(out)))

    # ---- merge ------------------------------------------------------------------------------
    monitors = collections.Counter()
    rejected = collections.Counter()
    info = collections.Counter()
    cells, nontriv, reached = set(), set(), set()
    worst = {}
    violations, samples = [], []
    matched = collections.Counter()
    meta = {}
    notes = {}
    evaluations = truncated = 0
    for r in results:
        evaluations += r["evaluations"]
        truncated += r.get("truncated", 0)
        monitors.update(r["monitors"])
        rejected.update(r["rejected"])
        info.update(r["info"])
        cells.update(r["cells"])
        nontriv.update(r["nontrivial"])
        reached.update(r["reached"])
        for k, v in r["worst"].items():
            worst[k] = max(worst.get(k, 0.0), v)
        violations.extend(r["violations"])
        matched.update(r["matched"])
        meta = r["meta"]
        samples.extend(r["samples"][:2])
        for k, v in r.get("notes", {}).items():
            notes.setdefault(k, v)

    known = {f["id"]: f for f in load_known() if f["property"] == prop and f["status"] == "known"}
    required = meta.get("required", [])
    if not a.replay:
        for m in required:
            if monitors.get(m, 0) == 0:
                inconclusive.append(f"deciding monitor '{m}' was never evaluated")
        if len(nontriv) < 2:
            inconclusive.append(f"only {len(nontriv)} distinct non-trivial cells")
        if truncated:
            inconclusive.append(f"{truncated} cases not run (shard budget)")

    # ---- replays / output --------------------------------------------------------------------
    rdir = os.path.join(VERIF, "replays", prop)
    lines = []
    if not a.replay and os.path.exists(os.path.join(rdir, "_all.json")):
        os.unlink(os.path.join(rdir, "_all.json"))
    if violations and not a.replay:
        os.makedirs(rdir, exist_ok=True)
        with open(os.path.join(rdir, "_all.json"), "w") as f:
            f.write(jdump(violations))
    for v in violations[:25]:
        os.makedirs(rdir, exist_ok=True)
        path = os.path.join(rdir, case_hash(v["case"]) + ".json")
        with open(path, "w") as f:
            f.write(json.dumps(json.loads(jdump(v)), indent=1))
        lines.append(f"VIOLATION property={prop} replay={os.path.relpath(path, VERIF)}")
        first = v["failures"][0]
        lines.append(f"  -> {first['monitor']}: {first['detail'][:300]}")
    for fid, n in sorted(matched.items()):
        lines.append(f"KNOWN-FINDING: property={prop} {fid}: {known[fid]['what']} (reproduced on {n} observations)")
    for fid in known:
        if fid not in matched and not a.replay:
            lines.append(f"note: listed known finding {fid} was not reproduced by this run (tier={tier})")

    anchors = meta.get("anchor_files")
    reached_l = sorted(x for x in reached if anchors is None or any(x.startswith(af) for af in anchors))
    wall = time.time() - t0
    ev = {
        "property_id": prop,
        "tier": tier,
        "seed": a.seed,
        "level": "exploration",
        "coverage": {
            "evaluations": evaluations,
            "distinct_nontrivial": len(nontriv),
            "rule": meta.get("rule", ""),
            "samples": samples[:6],
            "distinct_cells": len(cells),
            "monitors": dict(sorted(monitors.items())),
            "worst_error_by_class": {k: float(f"{v:.3g}") for k, v in sorted(worst.items())},
            "rejected_inputs": dict(rejected),
            "known_findings_matched": dict(matched),
            "info": dict(info),
            "notes": notes,
            "functions_reached_in_anchor_files": len(reached_l),
            "functions_reached": reached_l[:400],
            "shards": nshards,
            "inconclusive_reasons": inconclusive,
            "exhaustive": False,
        },
        "assumptions": meta.get("assumptions", [])
        + [
            "float64 on CPU, non-KeOps; torch and linear_operator trusted as black boxes (dense algebra, to_dense of small operators)",
            "only executed cells are decided; see coverage.rule",
        ],
        "wall_s": round(wall, 2),
        "violations": len(violations),
    }
    if not a.replay:
        os.makedirs(os.path.join(VERIF, "evidence"), exist_ok=True)
        with open(os.path.join(VERIF, "evidence", prop + ".json"), "w") as f:
            json.dump(ev, f, indent=1, sort_keys=True)
            f.write("\n")

    import shutil

    shutil.rmtree(tmpd, ignore_errors=True)
    for ln in lines:
        print(ln)
    top = ", ".join(f"{k}={v}" for k, v in monitors.most_common(6))
    print(
        f"[{prop} {tier} seed={a.seed}] cases={evaluations} nontrivial_cells={len(nontriv)} "
        f"violations={len(violations)} known={sum(matched.values())} rejected={sum(rejected.values())} "
        f"wall={wall:.1f}s monitors: {top}"
    )
    if violations:
        sys.exit(1)
    if inconclusive:
        for r in inconclusive:
            print("INCONCLUSIVE:", r[:600])
        sys.exit(2)
    sys.exit(0)


if __name__ == "__main__":
    main()
