"""Independent dense float64 formulas for the kernels, written from the class docstrings / cited references.
Each oracle takes the real kernel object only to READ its constrained parameter values through the public
properties; x1: (..., n1, d), x2: (..., n2, d). Returns the dense (..., n1, n2) matrix."""
import itertools
import math

import torch


def _diff(x1, x2):
    return x1.unsqueeze(-2) - x2.unsqueeze(-3)  # ... n1 n2 d


def _ls(k):
    return k.lengthscale.detach().unsqueeze(-2)  # ... 1 1 d|1


def _r2(k, x1, x2):
    return ((_diff(x1, x2) / _ls(k)) ** 2).sum(-1)


def rbf(k, x1, x2):
    return torch.exp(-0.5 * _r2(k, x1, x2))


def matern(k, x1, x2):
    r = _r2(k, x1, x2).sqrt()
    s = math.sqrt(2 * k.nu) * r
    if k.nu == 0.5:
        return torch.exp(-s)
    if k.nu == 1.5:
        return (1 + s) * torch.exp(-s)
    if k.nu == 2.5:
        return (1 + s + s**2 / 3) * torch.exp(-s)
    raise ValueError


def rq(k, x1, x2):
    a = k.alpha.detach().reshape(*k.batch_shape, 1, 1)
    return torch.exp(-a * torch.log1p(_r2(k, x1, x2) / (2 * a)))  # = (1 + r^2 / (2 alpha))^(-alpha), accurate for every alpha


def periodic(k, x1, x2):
    p = k.period_length.detach().unsqueeze(-2)
    return torch.exp(-2 * ((torch.sin(math.pi * _diff(x1, x2) / p) ** 2) / _ls(k)).sum(-1))


def cosine(k, x1, x2):
    p = k.period_length.detach()
    p = p.reshape(*p.shape[: len(k.batch_shape)], 1, 1)
    return torch.cos(math.pi * (_diff(x1, x2) ** 2).sum(-1).sqrt() / p)


def linear(k, x1, x2):
    v = k.variance.detach()  # ... 1 d|1
    return (x1 * v) @ x2.transpose(-1, -2)


def poly(k, x1, x2):
    c = k.offset.detach()
    c = c.reshape(*c.shape[: len(k.batch_shape)], 1, 1)
    return (x1 @ x2.transpose(-1, -2) + c) ** k.power


def constant(k, x1, x2):
    c = k.constant.detach()
    c = c.reshape(*c.shape[: len(k.batch_shape)], 1, 1)
    bs = torch.broadcast_shapes(x1.shape[:-2], x2.shape[:-2], c.shape[:-2])
    return c.expand(*bs, x1.shape[-2], x2.shape[-2])


def pp(k, x1, x2):
    """Rasmussen & Williams (2006) eq. 4.21 as quoted in the class docstring"""
    r = _r2(k, x1, x2).sqrt()
    D = x1.shape[-1]
    q = k.q
    j = math.floor(D / 2) + q + 1
    base = torch.clamp(1 - r, min=0)
    if q == 0:
        return base**j
    if q == 1:
        return base ** (j + 1) * ((j + 1) * r + 1)
    if q == 2:
        return base ** (j + 2) * (1 + (j + 2) * r + (j**2 + 4 * j + 3) / 3 * r**2)
    if q == 3:
        return base ** (j + 3) * (1 + (j + 3) * r + (6 * j**2 + 36 * j + 45) / 15 * r**2 + (j**3 + 9 * j**2 + 23 * j + 15) / 15 * r**3)
    raise ValueError


def sm(k, x1, x2):
    """product over input dimensions of 1-d mixtures (the form the property statement fixes)"""
    w = k.mixture_weights.detach()  # ... Q
    mu = k.mixture_means.detach()  # ... Q 1 d
    sc = k.mixture_scales.detach()
    tau = _diff(x1, x2).unsqueeze(-4)  # ... 1 n1 n2 d
    comp = torch.exp(-2 * math.pi**2 * tau**2 * sc.unsqueeze(-2) ** 2) * torch.cos(2 * math.pi * tau * mu.unsqueeze(-2))  # ... Q n1 n2 d
    return (w.reshape(*w.shape, 1, 1, 1) * comp).sum(-4).prod(-1)


def hamming(k, x1, x2):
    V = k.vocab_size
    c1 = x1.reshape(*x1.shape[:-1], -1, V).to(torch.int64).argmax(-1)
    c2 = x2.reshape(*x2.shape[:-1], -1, V).to(torch.int64).argmax(-1)
    a, b = k.alpha.detach(), k.beta.detach()
    dist = (c1.unsqueeze(-2) != c2.unsqueeze(-3)).sum(-1).to(a.dtype)  # (whatever dtype the one-hots are stored in)
    a = a.reshape(*a.shape[: len(k.batch_shape)], 1, 1)
    b = b.reshape(*b.shape[: len(k.batch_shape)], 1, 1)
    return ((1 + a) / (a + dist)) ** b


def arc(k, x1, x2):
    """arc kernel: cylindrical embedding g_i(x) = w_i [sin(pi rho_i x_i / L_i), cos(pi rho_i x_i / L_i)] (all sines first,
    then all cosines - a permutation of coordinates, irrelevant to any stationary/dot-product base kernel), then the
    base kernel on the embedded points; the default delta function is 1"""
    L = k.lengthscale.detach()
    rho, w = k.angle.detach(), k.radius.detach()

    delta = getattr(k, "delta_func", None)

    def emb(x):
        t = math.pi * rho * x / L
        e = torch.cat([w * torch.sin(t), w * torch.cos(t)], dim=-1)
        if delta is not None:
            act = delta(x)  # documented: an inactive coordinate embeds to [0, 0]
            e = e * torch.cat([act, act], dim=-1)
        return e

    return dense(k.base_kernel, emb(x1), emb(x2))


def cylindrical(k, x1, x2):
    """BOCK (Oh et al. 2018): K(x,x') = K_r(kuma(|x|), kuma(|x'|)) * sum_p w_p (a.a')^p, a = x/|x|,
    kuma(r) = 1 - (1 - r^alpha)^beta (the library adds eps=1e-6 inside the bracket)"""
    # the documented `eps` (1e-6) stands in for coordinates that are exactly 0 when the radius is taken; the direction divides the
    # un-jittered point by that radius (the centre of the ball gets a = 0: only the p = 0 term, 0^0 = 1)
    j1, j2 = torch.where(x1 == 0, torch.full_like(x1, k.eps), x1), torch.where(x2 == 0, torch.full_like(x2, k.eps), x2)
    r1, r2 = j1.norm(dim=-1, keepdim=True), j2.norm(dim=-1, keepdim=True)
    a1, a2 = x1 / r1, x2 / r2
    gram = a1 @ a2.transpose(-1, -2)
    w = k.angular_weights.detach()
    ang = 0
    for p in range(k.num_angular_weights):
        ang = ang + w[..., p].reshape(*w.shape[:-1], 1, 1) * gram**p
    al = k.alpha.detach().reshape(*k.batch_shape, 1, 1)
    be = k.beta.detach().reshape(*k.batch_shape, 1, 1)

    def kuma(r):
        return 1 - (1 - r**al + k.eps) ** be

    return dense(k.radial_base_kernel, kuma(r1), kuma(r2)) * ang


def spectral_delta(k, x1, x2):
    """spectral density = equal-weight mixture of S point masses at +-z_s  <=>  k(tau) = (1/S) sum_s cos(2 pi z_s . tau / l)"""
    Z = k.Z.detach()  # ... S d
    tau = _diff(x1, x2) / _ls(k)  # ... n1 n2 d
    ph = 2 * math.pi * (tau.unsqueeze(-2) * Z.unsqueeze(-3).unsqueeze(-3)).sum(-1)  # ... n1 n2 S
    return torch.cos(ph).mean(-1)


def gskl(k, x1, x2):
    """exp(-(KL(p||q)+KL(q||p)) / lengthscale) for diagonal Gaussians given as [mean, log-variance] rows (shipped
    convention for the lengthscale, see the recorded docstring finding); KLs from torch.distributions"""
    from torch.distributions import Normal, kl_divergence

    d = x1.shape[-1] // 2
    p = Normal(x1[..., :d].unsqueeze(-2), (1e-8 + x1[..., d:].exp()).sqrt().unsqueeze(-2))
    q = Normal(x2[..., :d].unsqueeze(-3), (1e-8 + x2[..., d:].exp()).sqrt().unsqueeze(-3))
    skl = (kl_divergence(p, q) + kl_divergence(q, p)).sum(-1)
    return torch.exp(-skl / k.lengthscale.detach())


def index(k, x1, x2):
    """k(i, j) = (B B^T + diag(v))_{ij} with B the covariance factor and v the task variances"""
    cf, var = k.covar_factor.detach(), k.var.detach()
    Bm = cf @ cf.transpose(-1, -2) + torch.diag_embed(var)  # ... t t
    i1, i2 = x1.squeeze(-1).long(), x2.squeeze(-1).long()
    bs = torch.broadcast_shapes(Bm.shape[:-2], i1.shape[:-1], i2.shape[:-1])
    Bm = Bm.expand(*bs, *Bm.shape[-2:])
    i1, i2 = i1.expand(*bs, i1.shape[-1]), i2.expand(*bs, i2.shape[-1])
    rows = torch.gather(Bm, -2, i1.unsqueeze(-1).expand(*bs, i1.shape[-1], Bm.shape[-1]))
    return torch.gather(rows, -1, i2.unsqueeze(-2).expand(*bs, i1.shape[-1], i2.shape[-1]))


def scale(k, x1, x2):
    # ScaleKernel adopts its base kernel's active_dims and calls base.forward directly: columns are selected once
    o = k.outputscale.detach()
    return o.reshape(*o.shape, 1, 1) * dense(k.base_kernel, x1, x2, sub=False)


def _sub(k, x):
    ad = getattr(k, "active_dims", None)
    return x if ad is None else x.index_select(-1, ad)


def dense(k, x1, x2, sub=True):
    """dispatch on the real kernel's class; active_dims applied here (oracle side)"""
    import gpytorch.kernels as K

    if sub:
        x1, x2 = _sub(k, x1), _sub(k, x2)
    if isinstance(k, K.ScaleKernel):
        return scale(k, x1, x2)
    if isinstance(k, K.AdditiveKernel):
        out = 0
        for kk in k.kernels:
            out = out + dense(kk, x1, x2)
        return out
    if isinstance(k, K.ProductKernel):
        out = 1
        for kk in k.kernels:
            out = out * dense(kk, x1, x2)
        return out
    table = {
        K.RBFKernel: rbf,
        K.MaternKernel: matern,
        K.RQKernel: rq,
        K.PeriodicKernel: periodic,
        K.CosineKernel: cosine,
        K.LinearKernel: linear,
        K.PolynomialKernel: poly,
        K.ConstantKernel: constant,
        K.PiecewisePolynomialKernel: pp,
        K.SpectralMixtureKernel: sm,
        K.HammingIMQKernel: hamming,
        K.ArcKernel: arc,
        K.CylindricalKernel: cylindrical,
        K.SpectralDeltaKernel: spectral_delta,
        K.GaussianSymmetrizedKLKernel: gskl,
        K.IndexKernel: index,
    }
    for cls, fn in table.items():
        if type(k) is cls:
            return fn(k, x1, x2)
    raise KeyError(type(k).__name__)


# ---- structure kernels ------------------------------------------------------------------------------------
def additive_structure(base, x1, x2):
    return sum(dense(base, x1[..., i : i + 1], x2[..., i : i + 1]) for i in range(x1.shape[-1]))


def product_structure(base, x1, x2):
    out = 1
    for i in range(x1.shape[-1]):
        out = out * dense(base, x1[..., i : i + 1], x2[..., i : i + 1])
    return out


def newton_girard(k, x1, x2):
    """sum over degrees m<=max_degree of outputscale_m * e_m(k_1..k_d), k_i the base (RBF, ARD lengthscale l_i) kernel on
    input dimension i alone; elementary symmetric polynomials by brute-force subset enumeration"""
    d = x1.shape[-1]
    ls = k.base_kernel.lengthscale.detach()  # ... 1 d
    ks = [torch.exp(-0.5 * ((x1[..., i : i + 1] - x2[..., i : i + 1].transpose(-1, -2)) / ls[..., 0, i]) ** 2) for i in range(d)]
    out = 0
    os_ = k.outputscale.detach()
    for m in range(1, k.max_degree + 1):
        e = 0
        for sub in itertools.combinations(range(d), m):
            t = 1
            for i in sub:
                t = t * ks[i]
            e = e + t
        out = out + os_[..., m - 1].reshape(*os_.shape[:-1], 1, 1) * e
    return out


# ---- derivative kernels: autograd of the base kernel's scalar form ---------------------------------------------
def grad_layout(fn, x1, x2, second=False):
    """[k, d/dx_1..d/dx_d (, d2/dx_1^2..)] per point, interleaved per point (documented layout)."""
    n1, d = x1.shape
    n2 = x2.shape[0]
    m = (2 * d + 1) if second else (d + 1)
    ref = torch.zeros(n1 * m, n2 * m, dtype=x1.dtype)

    def ops(expr, var):
        if not expr.requires_grad:
            return [expr] + [torch.zeros((), dtype=x1.dtype)] * (m - 1)
        outs = [expr]
        (g,) = torch.autograd.grad(expr, var, create_graph=True, allow_unused=True)
        g = g if g is not None else torch.zeros(d, dtype=x1.dtype)
        outs += [g[p] for p in range(d)]
        if second:
            for p in range(d):
                if g[p].requires_grad:
                    (h,) = torch.autograd.grad(g[p], var, create_graph=True, allow_unused=True)
                    outs.append(h[p] if h is not None else torch.zeros((), dtype=x1.dtype))
                else:
                    outs.append(torch.zeros((), dtype=x1.dtype))
        return outs

    for i in range(n1):
        for j in range(n2):
            a = x1[i].clone().requires_grad_(True)
            b = x2[j].clone().requires_grad_(True)
            A = ops(fn(a, b), a)
            for p, ea in enumerate(A):
                for q, eb in enumerate(ops(ea, b)):
                    ref[i * m + p, j * m + q] = eb.detach()
    return ref


def base_rbf(l):
    return lambda a, b: torch.exp(-0.5 * (((a - b) / l) ** 2).sum())


def base_m52(l):
    def f(a, b):
        r = (((a - b) / l) ** 2).sum().clamp_min(1e-30).sqrt()
        s = math.sqrt(5) * r
        return (1 + s + s**2 / 3) * torch.exp(-s)

    return f


def base_poly(c, p):
    return lambda a, b: (a @ b + c) ** p
