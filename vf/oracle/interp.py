"""Independent cubic-convolution (Keys 1981, a = -1/2) interpolation weights on a regular grid."""
import torch


def keys(s):
    s = s.abs()
    return torch.where(s <= 1, 1.5 * s**3 - 2.5 * s**2 + 1, torch.where(s < 2, -0.5 * s**3 + 2.5 * s**2 - 4 * s + 2, torch.zeros_like(s)))


def cubic_weights_1d(grid, x):
    """dense (len(x) x len(grid)) interpolation matrix for points strictly inside [grid[1], grid[-2]]"""
    h = grid[1] - grid[0]
    s = (x.unsqueeze(-1) - grid.unsqueeze(0)) / h
    return keys(s)


def cubic_weights_nd(grids, x):
    """tensor-product weights; the flattened grid index is row-major over the dimensions in order (dimension 0 slowest)"""
    W = None
    for d, gd in enumerate(grids):
        Wd = cubic_weights_1d(gd, x[:, d])
        W = Wd if W is None else (W.unsqueeze(-1) * Wd.unsqueeze(-2)).reshape(x.shape[0], -1)
    return W


def weights_1d_with_boundaries(grid, x):
    """dense interpolation matrix on the whole grid range: cubic convolution where the 4-point stencil fits, and - in the
    first and the last grid cell, where it does not - all weight on the NEAREST grid node (the library's stated boundary rule)"""
    n = grid.shape[0]
    h = grid[1] - grid[0]
    cell = torch.floor((x - grid[0]) / h).clamp(0, n - 1)
    W = cubic_weights_1d(grid, x)
    boundary = (cell < 1) | (cell >= n - 2)
    nearest = (x.unsqueeze(-1) - grid.unsqueeze(0)).abs().argmin(-1)
    onehot = torch.zeros_like(W)
    onehot[torch.arange(x.shape[0]), nearest] = 1.0
    return torch.where(boundary.unsqueeze(-1), onehot, W)


def weights_nd_with_boundaries(grids, x):
    W = None
    for d, gd in enumerate(grids):
        Wd = weights_1d_with_boundaries(gd, x[:, d])
        W = Wd if W is None else (W.unsqueeze(-1) * Wd.unsqueeze(-2)).reshape(x.shape[0], -1)
    return W
