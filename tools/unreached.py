#!/venv/bin/python
"""unreached.py : for every property, the functions defined in its anchor files that the last run of its check did NOT reach
(evidence/<id>.json coverage.functions_reached, recorded by the sys.monitoring witness). A reading aid for widening the
workloads - functions invoked from the autograd engine's thread (custom backward passes) are not seen by the witness."""
import ast, json, os
props = {json.loads(l)["id"]: json.loads(l) for l in open("/verif/properties.jsonl")}
for pid in sorted(props):
    e = json.load(open(f"/verif/evidence/{pid}.json"))
    reached = set(e["coverage"].get("functions_reached") or [])
    missing = []
    for f in props[pid]["anchors"]["files"]:
        path = "/repo/" + f
        if not os.path.isfile(path):
            continue
        tree = ast.parse(open(path).read())
        for cls in [n for n in tree.body if isinstance(n, ast.ClassDef)]:
            for node in cls.body:
                if isinstance(node, ast.FunctionDef) and f"{f}:{cls.name}.{node.name}" not in reached and node.name not in ("__repr__", "__getstate__", "__setstate__", "extra_repr"):
                    missing.append(f"{os.path.basename(f)[:-3]}:{cls.name}.{node.name}")
        for node in tree.body:
            if isinstance(node, ast.FunctionDef) and f"{f}:{node.name}" not in reached:
                missing.append(f"{os.path.basename(f)[:-3]}:{node.name}")
    print(pid, f"reached {len(reached)}; unreached in anchor files ({len(set(missing))}):", ", ".join(sorted(set(missing))))
