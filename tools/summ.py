#!/usr/bin/env python3
"""summ.py Cxx [key ...] : group the violations of the last run by monitor (+ case keys)"""
import json, sys, collections
prop = sys.argv[1]; keys = sys.argv[2:]
v = json.load(open(f"/verif/replays/{prop}/_all.json"))
c = collections.Counter(); ex = {}
def get(case, k):
    cur = case
    for part in k.split("."):
        cur = cur.get(part) if isinstance(cur, dict) else None
    return json.dumps(cur)
for x in v:
    for fl in x["failures"]:
        key = (fl["monitor"],) + tuple(get(x["case"], k) for k in keys)
        c[key] += 1; ex.setdefault(key, (fl["detail"][:160], json.dumps(x["case"])[:400]))
for k, n in c.most_common(40):
    print(n, k, "|", ex[k][0]); print("     ", ex[k][1])
