#!/venv/bin/python
"""mkbuilt.py : regenerate the '*Built (`vf/checks/cNN.py`).*' paragraph of every property section of DESIGN.md (section 4)
from the check modules' RULE / REQUIRED / ASSUMPTIONS, so that the design text and the code cannot drift apart."""
import re, sys
sys.path.insert(0, "/verif"); sys.path.insert(0, "/repo")
from vf.core import load_check

p = "/verif/DESIGN.md"
s = open(p).read()
n = 0
for i in range(1, 21):
    pid = f"C{i:02d}"
    m = load_check(pid)
    para = (f"*Built (`vf/checks/c{i:02d}.py`).* Workload rule: {m.RULE}. Deciding monitors (zero evaluations ⇒ inconclusive): "
            + ", ".join(f"`{r}`" for r in m.REQUIRED) + ". Oracle assumptions: " + "; ".join(m.ASSUMPTIONS)
            + ". The bullets below are the design as written before the build.")
    pat = re.compile(r"^\*Built \(`vf/checks/c%02d\.py`\)\.\*.*$" % i, re.M)
    if not pat.search(s):
        print("no Built paragraph for", pid); continue
    s = pat.sub(lambda _: para, s, count=1)
    n += 1
open(p, "w").write(s)
print("regenerated", n, "paragraphs")
