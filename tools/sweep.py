#!/usr/bin/env python3
"""sweep.py <tier> <seed>[,<seed>...] [props...] : run the checks for several seeds (false-alarm hunt on the unchanged tree).
Honours VERIF_REPO (e.g. a snapshot from `vp run --with-repo`). Prints one line per run; exit 1 if any run is non-zero."""
import os, subprocess, sys, time
tier = sys.argv[1]; seeds = [int(s) for s in sys.argv[2].split(",")]
props = sys.argv[3:] or [f"C{i:02d}" for i in range(1, 21)]
if os.environ.get("VP_RUN_REPO") and not os.environ.get("VERIF_REPO"):
    os.environ["VERIF_REPO"] = os.environ["VP_RUN_REPO"]
bad = 0
for seed in seeds:
    for p in props:
        t = time.time()
        r = subprocess.run(["/venv/bin/python", "vf/run.py", p, "--tier", tier, "--seed", str(seed)], capture_output=True, text=True)
        lines = [l for l in r.stdout.splitlines() if "condarc" not in l]
        last = lines[-1] if lines else r.stderr[-300:]
        flag = "" if r.returncode == 0 else f"  <<<<<< exit={r.returncode}"
        print(f"{p} {tier} seed={seed} {time.time()-t:.0f}s {flag} | {last[:170]}", flush=True)
        if r.returncode != 0:
            bad += 1
            for l in lines[:6]: print("     ", l[:300], flush=True)
print("non-zero runs:", bad)
sys.exit(1 if bad else 0)
