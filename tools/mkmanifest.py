#!/usr/bin/env python3
"""Regenerates /verif/MANIFEST.json from the table below (single source of truth for what is claimed)."""
import json, os
VERIF = os.path.dirname(os.path.dirname(os.path.abspath(__file__)))
props = [json.loads(l) for l in open(os.path.join(VERIF, "properties.jsonl"))]

# property -> (technique, level text, level_note, design_ref)
CLAIMED = {
 "C20": ("history of with-block programs checked against a sequential stack model by monitors on the real __enter__/__exit__",
         "Runtime monitoring: every settings class's real __enter__/__exit__ is wrapped; after each event the visible value of every field of every setting is compared with a per-field stack model; programs enumerated exhaustively to depth 3 for same-class nestings and all ordered class pairs, with exceptions injected at block boundaries, plus random deep programs. Decides the executed programs only.",
         "Trusts the harness' snapshot of publicly visible values (on()/value()/value(dtype)/num_probe_vectors()); blocks constructed at entry.", "DESIGN.md §4 C20"),
 "C01": ("post-condition monitor on the real ExactGP.__call__ against a dense float64 Gaussian-conditional oracle, with path witnesses",
         "Runtime monitoring: the real ExactGP.__call__ is wrapped; every posterior call made by a generated workload (kernels x means x likelihoods x shapes x batch patterns x all 2^5 prediction-settings combinations + skip/fast_computations variants + Kronecker multitask) is compared (mean, covariance, variance, mean_cache, covar_cache, likelihood noise step) with the dense conditional built from the model's own prior pieces; counters on linear_cg / lanczos / cholesky / lazy evaluation show which paths ran. Decides executed cells only.",
         "Trusts torch.linalg dense algebra; kernel/mean/likelihood values themselves are the model's own (C05/C12 check them); CG path compared at 1e-3 (linear_operator's CG accuracy floor), LOVE-on-Lanczos at 2e-2, direct paths at 1e-8.", "DESIGN.md §4 C01"),
 "C05": ("reference-model monitor: real kernel(x1,x2) / diag outputs vs independent docstring formulas and autograd derivatives, with fast-path witnesses",
         "Runtime monitoring at the public kernel boundary: every exported closed-form kernel (RBF, Matern x3, RQ, periodic, cosine, linear, polynomial, constant, piecewise-polynomial q0-3, spectral mixture, Hamming, scale/sum/product, additive/product structure, Newton-Girard, active_dims incl. permuted) is evaluated over n1!=n2 / same-tensor / n=1, ARD, parameter and input batches, three evaluation paths (fast no-grad, inputs requiring grad, trace_mode), three parameter regimes, and compared with formulas written from the docstrings; derivative kernels (RBF-grad, Matern52-grad, polynomial-grad, RBF-grad-grad; ARD) are compared with autograd derivatives of the base kernel in the interleaved layout. Decides executed cells only.",
         "Oracle formulas are hand-written from the docstrings (trusted after agreeing with the tree on all cells except the recorded findings); kernels non-smooth at r=0 compared at 1e-6..2e-5 absolute.", "DESIGN.md §4 C05"),
 "C11": ("reference-model monitor: every observation of a real MultitaskMultivariateNormal mapped into a layout-free joint; index expressions enumerated",
         "Runtime monitoring at the distribution's public boundary: mean, variance, log_prob (fast and Cholesky), rsample with base samples (affine, L L^T = joint), to_data_independent_dist, the three constructors over every valid task_dim, and d[idx] for every (point index, task index) pair from enumerated candidate sets (negative ints, slices with any start/stop/step incl. out-of-range, index tensors, batch indices, Ellipsis) are compared with a canonical joint built from the dense covariance and the declared layout, for n != t, both layouts, batch shapes. Decides executed cells only (thorough: all pairs on six shapes).",
         "Trusts torch dense algebra and the oracle's own index arithmetic on an arange position tensor (torch indexing semantics).", "DESIGN.md §4 C11"),
 "C10": ("reference-model monitor: every public method of the real MultivariateNormal vs dense float64 algebra; index expressions enumerated; sample moments statistically",
         "Runtime monitoring at the distribution's public boundary: log_prob on the fast and the Cholesky path over broadcastable (distribution batch, mean batch, value batch) triples and eight covariance representations; closed-form KL incl. identical arguments; rsample(base_samples) as an affine map with L L^T = Sigma recovered from basis vectors; variance/stddev/confidence_region/min-variance floor; +,*,/ scalars, sums, expand, unsqueeze, add_jitter; d[idx] as the marginal for enumerated index expressions over shapes (N),(b,N),(b1,b2,N); thorough tier adds 200k-sample moment checks (6 s.e.). Decides executed cells only.",
         "Trusts torch dense algebra; repeated-entry batch index tensors combined with an int event index are read as independent batch copies (the library's batch semantics).", "DESIGN.md §4 C10"),
 "C12": ("post-condition monitors on the real marginal/expected_log_prob/log_marginal/forward vs the documented noise operator built from public parameters",
         "Runtime monitoring: the real _GaussianLikelihoodBase.marginal is wrapped (mean, class and multitask layout preserved on every call, also inside other checks' workloads); workloads drive Gaussian, FixedNoise (with/without learned noise, with/without call-time noise), multitask (rank 0..t, global/task switches, both layouts), LikelihoodList and fantasy-likelihood histories over all broadcastable (likelihood batch, distribution batch) pairs; marginal(d).cov - d.cov, expected_log_prob, log_marginal and forward's scale are compared with closed forms in the documented R. Decides executed cells only.",
         "R is assembled from the public parameter properties (noise, second_noise, task_noises, task_noise_covar); torch dense algebra trusted.", "DESIGN.md §4 C12"),
 "C06": ("metamorphic monitor: eager dense evaluation vs every other way of requesting the same kernel entries; index expressions enumerated; witnesses on LazyEvaluatedKernelTensor paths",
         "Runtime monitoring of the real kernel / LazyEvaluatedKernelTensor API: for eleven kernels (single-output, composed, active_dims incl. permuted, multi-output Multitask/LCM/RBF-grad) and parameter x input batch patterns (incl. asymmetric x1/x2 batches) the eagerly evaluated matrix is compared with lazy.to_dense(), lazy[idx] for enumerated index expressions (fresh lazy tensor per expression), transpose, repeat, diag=True, K(x2,x1)^T, blocks of K([x1;x2]), kernel[i](x1[i],x2[i]) and expand_batch. Counters on _getitem/evaluate_kernel/_diagonal/_transpose_nonbatch show the lazy paths ran. Decides executed cells only.",
         "torch's D[idx] is the reference semantics of an index expression; kernel values themselves are C05's business.", "DESIGN.md §4 C06"),
 "C02": ("reference-model monitor: real ExactMarginalLogLikelihood / LeaveOneOutPseudoLikelihood values and autograd gradients vs a dense per-batch-element definition; prior-enumeration count monitor; statistical decision on the CG+SLQ path",
         "Runtime monitoring of the real objectives: value and the gradient w.r.t. every raw parameter are compared with [log N(y; mx, Kxx+S) + registered log priors at constrained values]/n built densely (autograd through the dense expression), for Gaussian / fixed-noise (+learned) / Kronecker multitask likelihoods, batch shapes, independent and shared prior instances; LOO against the literal refit-on-all-but-i definition; SumMarginalLogLikelihood = mean of members; the CG+SLQ path by mean of K=24 repetitions within 5 s.e.; anomaly detection during backward. Decides executed cells only.",
         "Reference prior densities are torch.distributions of the documented family; kernels/means are the model's own evaluated eagerly.", "DESIGN.md §4 C02"),
 "C16": ("finite-ness invariant hooks on the real prediction/MLL/likelihood functions + dense deletion oracle + policy-order history monitor",
         "Runtime monitoring: while a NaN policy is active every tensor leaving exact_predictive_mean/exact_predictive_covar/ExactMarginalLogLikelihood.forward/expected_log_prob/log_marginal is checked finite (hooks on the real functions); posterior mean, covariance and variance, the un-normalised MLL and the likelihood terms are compared with the dense closed forms on the observed subset (single-output, batched with per-element patterns, Kronecker multitask with per-task patterns; fast_pred_var on/off); the policies are run in every order on one model object and must agree. Decides executed cells only.",
         "'mask' with batched targets masks the union over batch elements (documented); MLL compared un-normalised; 'fill' for the MLL is documented unsupported.", "DESIGN.md §4 C16"),
 "C04": ("snapshot/ensure contract around the real get_fantasy_model + dense conditional oracle on the concatenated data + carried-cache oracle",
         "Runtime monitoring: before each real get_fantasy_model call the source model is snapshotted (state_dict, identity and values of training data, every tensor in the source strategy's memo caches, a probe prediction) and compared afterwards; the fantasy model's prediction is compared with the dense conditional on the concatenated data per fantasy batch element, and the caches it carries (stored mean_cache, covar_cache, root and root-inverse decompositions, training covariance) with the same quantities recomputed densely; patterns (m), (f,m) shared / per-fantasy inputs, (f,b,m); homoskedastic / fixed-noise (+learned) / Kronecker multitask likelihoods; depth 1-3; fast_pred_var and detach_test_caches on/off; IndependentModelList. Decides executed cells only.",
         "Noise of the concatenated data is assembled from public parameters; KISS-GP (WISKI) fantasies are exercised under C09.", "DESIGN.md §4 C04"),
 "C03": ("history of public operations checked after every step against a sequential model (fresh model with the same state_dict and data); cache-event monitors",
         "Runtime monitoring of operation histories: for ten model families (exact default / batched / KISS-GP fixed and data-dependent grid / SGPR; SVGP whitened, unwhitened, mean-field, batch-decoupled; LMC multitask) every sequence of the statement's operations up to length 2 (thorough: 3 for three exact families) and sampled sequences up to length 8 is executed on the real objects; after every step the prediction (two settings tuples) must equal that of a freshly constructed model holding the same state_dict and data. Monitors on memoize._add_to_cache and every _clear_cache stamp cache events with the history step for the violation report. Decides executed histories only.",
         "Both sides run the library's own algorithm (staleness, not correctness, is decided here; correctness is C01/C14); variational families start from initialised variational parameters.", "DESIGN.md §4 C03"),
 "C18": ("history-shaped round-trip monitor: at every save point of generated histories the model is restored by state_dict/pickle/deepcopy and compared with the original",
         "Runtime monitoring at save points: for fourteen model families (exact default/batched/KISS-GP/SGPR/priors+custom constraints/RFF, six variational strategies/distributions incl. natural, LMC multitask, model list) after every step of generated train/eval/predict histories the live object is pickled and deep-copied first (caches as the history left them), then restored from its state_dict into a fresh model built with different prior parameters and constraint bounds; prior prediction, posterior/variational prediction, objective value and gradients, training flags, prior parameters and constraint bounds must equal the original's. Decides executed (family, history, mechanism) cells only.",
         "Equality at 1e-9 (pickle/deepcopy) and 1e-7 (state_dict into a fresh model, caches recomputed).", "DESIGN.md §4 C18"),
 "C08": ("replica oracle: every element of a batched object's output vs a non-batched replica built by slicing the state_dict",
         "Runtime monitoring of batched kernels (18 specs incl. composed, active_dims, multitask, derivative), means, Gaussian/fixed-noise likelihoods, exact GP posterior + MLL, SVGP q(f) + KL + ELBO (whitened/unwhitened, Cholesky/mean-field, shared or batched inducing points) over every broadcastable (parameter batch, data batch) pair from {(),(2),(3,2),(1,2),(3,1)}: for every element b of the broadcast batch a non-batched replica receives the b-th slice of every state_dict tensor and of the data and must reproduce output[b]; IndependentModelList outputs are bit-identical to the members' and SumMarginalLogLikelihood is their mean (unequal member sizes). Decides executed cells only.",
         "Replicas are built through the same public constructors; parameters differ per batch element.", "DESIGN.md §4 C08"),
 "C13": ("reference-model monitors: exact Gaussian moments, a 30-digit Gauss-Hermite rule applied to the documented densities, analytic Bernoulli marginal, mpmath log Phi; mutation hook on the quadrature's input",
         "Runtime monitoring of the real GaussHermiteQuadrature1D / likelihood / log_normal_cdf functions: monomials and random polynomials of every degree < 2*num_locs for num_locs in {1..40} (set through settings) against exact Gaussian moments over mean/variance regimes, batch shapes and distribution types (each distribution object integrated twice; a hook asserts forward() does not mutate it); expected_log_prob / log_marginal of Laplace, Student-t, Beta, Bernoulli against the exact rule recomputed by Golub-Welsch in mpmath on the documented densities; Bernoulli marginal vs Phi(m/sqrt(1+v)); conditional-distribution parameters; log_normal_cdf and its gradient on a 10k-point grid plus branch borders vs mpmath; truncation error at 64 nodes below that at 8. Decides executed cells only.",
         "Laplace/Student-t scale is sqrt(noise) (the property's reading of the docstrings); the Beta docstring/code disagreement is a recorded finding.", "DESIGN.md §4 C13"),
 "C14": ("post-condition monitors on every variational distribution's forward() and on the strategies' calls + dense closed-form push of q(u) through p(f|u)",
         "Runtime monitoring: every variational distribution's real forward() is wrapped (returned q(u) must be the mean/covariance its parameters encode: Cholesky with the upper triangle ignored, mean-field, delta, natural, tril-natural); for VariationalStrategy / Unwhitened / CIQ (tight quadrature) x five distributions x batch patterns of inducing points, parameters and data the eval-mode q(f) (full covariance), training-mode mean/variance and kl_divergence() (read after a training forward and in eval mode) are compared with the dense closed form built from captured Z, kernel, mean, jitter and q(u) under the two-reference jitter rule; batch-decoupled, grid-interpolation (own cubic weights), LMC and independent-multitask mixing (dense and task_indices forms), q(u)=p(u) => prior & KL=0, whitened == unwhitened for the same q(u). Decides executed cells only; OrthogonallyDecoupled / NNVariationalStrategy are not exercised.",
         "Dense torch algebra trusted; whitening factor convention: Cholesky (standard, batch-decoupled) or symmetric square root (CIQ).", "DESIGN.md §4 C14"),
 "C15": ("capture monitors on the real expected_log_prob/log_marginal/kl_divergence during the objective's forward + recomputation by definition; bound monitors against dense exact evidence and the Titsias bound; one-step NGD monitor",
         "Runtime monitoring: during the real VariationalELBO / PredictiveLogLikelihood forward the per-point likelihood terms, the KL and the enumerated priors are captured by wrappers and the objective is recomputed from them by its definition (random minibatches B != N, beta in {0.1,1,3}, priors on/off, combine_terms both ways, whitened/unwhitened, Gaussian/Bernoulli/Laplace, batch); for Gaussian likelihoods N*ELBO <= exact log evidence and <= the dense collapsed bound for random and adversarial q(u) (tiny/huge S, far means, q=p), equality for the closed-form optimal q*, and one NGD step of lr=1 on NaturalVariationalDistribution (batched too, random starts, anomaly detection on) reaches q* in mean, covariance and ELBO. Decides executed cells only.",
         "Bounds are evaluated for the jitter-regularised prior under the two-reference jitter rule; TrilNatural is covered by C19's gradient identity only.", "DESIGN.md §4 C15"),
}
NOT_YET = "check not built yet in this round (see DESIGN.md §9 build order); not claimed until its monitor exists and is silent on the unchanged tree"

checks, na = [], []
for p in props:
    pid = p["id"]
    if pid in CLAIMED:
        tech, text, note, ref = CLAIMED[pid]
        checks.append({
            "property_id": pid,
            "quick_cmd": f"/venv/bin/python vf/run.py {pid} --tier quick",
            "thorough_cmd": f"/venv/bin/python vf/run.py {pid} --tier thorough",
            "evidence_file": f"evidence/{pid}.json",
            "replay_cmd_template": f"/venv/bin/python vf/run.py {pid} --replay {{path}}",
            "engine": "vf",
            "level_claimed": {"category": "exploration", "text": text, "design_ref": ref},
            "level_note": note,
            "technique": tech,
        })
    else:
        na.append({"property_id": pid, "reason": NOT_YET})
m = {
 "version": 1,
 "setup_cmd": "mkdir -p evidence replays && /venv/bin/python -c \"import torch, gpytorch, linear_operator, mpmath, scipy\"",
 "hooks": {
   "guard": "GPYTORCH_VERIF",
   "enable": "no source hooks: every monitor is attached from the harness at run time by wrapping the real functions (vf/checks/*.py setup()); checks run /venv/bin/python with PYTHONPATH=/repo so the current working tree is what is monitored",
   "baseline_off_cmd": "cd /repo && /venv/bin/python -m pytest -ra -q -p no:cacheprovider --timeout=900 --continue-on-collection-errors",
   "source_commits": [],
   "add_only": True,
 },
 "engines": [{"name": "vf", "path": "vf/run.py", "serves_properties": [c["property_id"] for c in checks],
              "kind_free_text": "runtime monitoring: seeded/enumerated workloads drive the real public API in fresh interpreters (one per shard); monitors wrapped around the real functions and reference-model oracles decide each executed case; three-valued verdicts; known findings matched by mechanism"}],
 "checks": checks,
 "not_applicable": na,
 "notes": "Exit 0 held / 1 violation / 2 inconclusive (a deciding monitor never fired, shard watchdog). VERIF_SEED and VERIF_TIER are honoured. known_findings.json lists genuine defects recorded or fixed.",
}
json.dump(m, open(os.path.join(VERIF, "MANIFEST.json"), "w"), indent=1)
print("claimed:", [c["property_id"] for c in checks])
