#!/usr/bin/env python3
"""seedmatrix.py [--tier quick] [ids...] : run every kept seeded change against the check of the property it breaks (and record it).
Applies seeded/<id>/patch.diff to /repo, runs the check, undoes the change. Writes caught_by into meta.json and seeded/MATRIX.md."""
import json, os, subprocess, sys, glob, re
tier = "quick"
args = [a for a in sys.argv[1:] if not a.startswith("--")]
if "--tier" in sys.argv: tier = sys.argv[sys.argv.index("--tier") + 1]; args = [a for a in args if a != tier]
ids = args or sorted(os.path.basename(d) for d in glob.glob("/verif/seeded/C*-*"))
rows = []
for sid in ids:
    d = f"/verif/seeded/{sid}"; meta = json.load(open(f"{d}/meta.json")); prop = meta["property"]
    st = subprocess.run(["git", "-C", "/repo", "status", "--porcelain"], capture_output=True, text=True).stdout.strip()
    assert not st, "/repo not clean: " + st
    ok = False
    for cmd in (["git", "-C", "/repo", "apply", f"{d}/patch.diff"], ["git", "-C", "/repo", "apply", "-C1", "--recount", f"{d}/patch.diff"], ["patch", "-p1", "--fuzz=3", "--no-backup-if-mismatch", "-d", "/repo", "-i", f"{d}/patch.diff"]):
        if subprocess.run(cmd, capture_output=True).returncode == 0: ok = True; break
        subprocess.run(["git", "-C", "/repo", "checkout", "--", "."])
    if not ok:
        rows.append((sid, prop, "PATCH DOES NOT APPLY", "")); continue
    try:
        r = subprocess.run(["/venv/bin/python", "/verif/vf/run.py", prop, "--tier", tier], capture_output=True, text=True, cwd="/verif")
        lines = [l for l in r.stdout.splitlines() if "condarc" not in l]
        viol = [l for l in lines if l.startswith("VIOLATION")]
        first = next((l.strip() for l in lines if l.startswith("  ->")), "")
        res = {"tier": tier, "exit": r.returncode, "violation_lines": len(viol), "first_witness": first[:200]}
    finally:
        subprocess.run(["git", "-C", "/repo", "checkout", "--", "."])
        subprocess.run(["git", "-C", "/repo", "clean", "-fdq", "gpytorch"])
    meta.setdefault("caught_by", {})[prop + ":" + tier] = res
    meta["ran"] = meta.get("ran", "") if "seedmatrix" in meta.get("ran", "") else meta.get("ran", "") + f"; tools/seedmatrix.py: git apply on /repo, vf/run.py {prop} --tier {tier}, git checkout -- ."
    json.dump(meta, open(f"{d}/meta.json", "w"), indent=1)
    rows.append((sid, prop, "CAUGHT" if r.returncode == 1 else f"MISSED (exit {r.returncode})", first[:150]))
    print(rows[-1], flush=True)
subprocess.run(["git", "-C", "/verif", "checkout", "--", "evidence"], capture_output=True)
with open("/verif/seeded/MATRIX.md", "w") as f:
    f.write(f"# Seeded changes vs the check of the property they break (tier {tier})\n\n| seeded change | property | result | first witness |\n|---|---|---|---|\n")
    for r in rows: f.write("| " + " | ".join(str(x).replace("|", "/") for x in r) + " |\n")
