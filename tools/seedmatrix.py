#!/usr/bin/env python3
"""seedmatrix.py [--tier quick] [ids...] : run every kept seeded change against the check of the property it breaks (and record it).

Works on scratch copies so that it can run next to other work: a git worktree of /repo HEAD and a copy of the committed-or-not
/verif tree under /tmp (removed at the end). For each seeded/<id>/patch.diff: apply to the scratch worktree, run the check of
the property (plus the checks named in EXTRA for cross-property detections) with VERIF_REPO pointing at the scratch worktree,
undo. Writes caught_by into seeded/<id>/meta.json and seeded/MATRIX.md (in /verif)."""
import glob, json, os, shutil, subprocess, sys

tier = "quick"
args = [a for a in sys.argv[1:] if not a.startswith("--")]
if "--tier" in sys.argv:
    tier = sys.argv[sys.argv.index("--tier") + 1]
    args = [a for a in args if a != tier]
if "--part" in sys.argv:
    args = [a for a in args if a != sys.argv[sys.argv.index("--part") + 1]]
ids = args or sorted(os.path.basename(d) for d in glob.glob("/verif/seeded/C*-*"))
# --part i/k : every k-th seed starting at i (several parts can run next to each other); rows go to seeded/.matrix_part_<i>.json,
# --merge writes seeded/MATRIX.md from the parts
part = None
if "--part" in sys.argv:
    part = sys.argv[sys.argv.index("--part") + 1]
    ids = [a for a in ids if a != part]
    i_, k_ = (int(x) for x in part.split("/"))
    ids = ids[i_::k_]


def write_matrix(rows):
    with open("/verif/seeded/MATRIX.md", "w") as f:
        f.write(f"# Seeded changes vs the check of the property they break (tier {tier})\n\nRows with another property's check are cross-detections (the change's mechanism also belongs to that property).\n\n| seeded change | check | result | first witness |\n|---|---|---|---|\n")
        for r in sorted(rows, key=lambda r_: (r_[0][:3], r_[0][4:5], len(r_[0]), r_[0], r_[1] != r_[0][:3], r_[1])):
            f.write("| " + " | ".join(str(x).replace("|", "/") for x in r) + " |\n")


if "--merge" in sys.argv:
    rows = []
    for fn in sorted(glob.glob("/verif/seeded/.matrix_part_*.json")):
        rows += [tuple(r) for r in json.load(open(fn))]
    write_matrix(rows)
    print("merged", len(rows), "rows;", sum(1 for r in rows if not str(r[2]).startswith("CAUGHT") and r[1] == r[0][:3]), "own-check rows not CAUGHT")
    sys.exit(0)
# changes whose mechanism belongs (also) to another property's check
EXTRA = {"C01-H": ["C03"], "C03-G": ["C16"], "C06-H": ["C05"], "C08-G": ["C16"], "C16-H": ["C04"], "C08-F": ["C12"], "C05-F": ["C09"], "C01-F": ["C09"], "C02-D": ["C17"], "C14-D": ["C03"], "C08-C": ["C10"], "C08-D": ["C14"], "C04-C": ["C09"], "C07-D": ["C03", "C18"], "C06-D": ["C05"], "C01-K": ["C16"], "C01-L": ["C03"], "C02-L": ["C09"], "C17-J": ["C02", "C15"], "C01-M": ["C04"], "C01-N": ["C12"], "C07-M": ["C18"], "C09-M": ["C18"], "C15-K": ["C16"], "C15-M": ["C18"], "C15-N": ["C14"], "C08-M": ["C15", "C19"], "C17-N": ["C18"], "C03-P": ["C18"], "C03-Q": ["C18"], "C07-Q": ["C03"], "C15-P": ["C14"], "C18-P": ["C03", "C14"], "C19-P": ["C01"], "C06-Q": ["C09", "C05"], "C07-P": ["C04"], "C01-Q": ["C16"], "C08-P": ["C14", "C03"], "C08-Q": ["C14"], "C20-P": ["C01"], "C03-S": ["C09", "C04"], "C01-R": ["C09", "C04"], "C01-S": ["C12"], "C09-S": ["C04"], "C04-R": ["C01"], "C18-R": ["C03", "C09"], "C18-S": ["C17"], "C16-S": ["C04"], "C03-R": ["C14"], "C02-R": ["C16"], "C02-S": ["C04", "C12"], "C15-S": ["C12"], "C07-R": ["C06", "C09"], "C08-R": ["C02"], "C08-S": ["C09"], "C13-R": ["C15"], "C17-S": ["C02"], "C11-T": ["C10"], "C11-U": ["C10"]}
WT, VC = f"/tmp/sm_repo_{os.getpid()}", f"/tmp/sm_verif_{os.getpid()}"


def sh(cmd, **kw):
    return subprocess.run(cmd, capture_output=True, text=True, **kw)


sh(["git", "-C", "/repo", "worktree", "add", "--detach", WT, "HEAD"])
# VERIF_SRC: evaluate with ANOTHER copy of the checks (e.g. an export of an earlier commit: "as the checks stood"); results are
# then only printed (nothing is written back)
SRC = os.environ.get("VERIF_SRC", "/verif").rstrip("/")
sh(["rsync", "-a", "--exclude", ".git", "--exclude", "replays", "--exclude", "evidence", SRC + "/", VC + "/"])
os.makedirs(VC + "/evidence", exist_ok=True)
rows = []
try:
    for sid in ids:
        d = f"/verif/seeded/{sid}"
        meta = json.load(open(f"{d}/meta.json"))
        prop = meta["property"]
        ok = False
        for cmd in (["git", "-C", WT, "apply", f"{d}/patch.diff"], ["git", "-C", WT, "apply", "-C1", "--recount", f"{d}/patch.diff"], ["patch", "-p1", "--fuzz=3", "--no-backup-if-mismatch", "-d", WT, "-i", f"{d}/patch.diff"]):
            if sh(cmd).returncode == 0:
                ok = True
                break
            sh(["git", "-C", WT, "checkout", "--", "."])
        if not ok:
            rows.append((sid, prop, "PATCH DOES NOT APPLY", ""))
            print(rows[-1], flush=True)
            continue
        try:
            for p in [prop] + EXTRA.get(sid, []):
                r = sh(["/venv/bin/python", VC + "/vf/run.py", p, "--tier", tier], cwd=VC, env=dict(os.environ, VERIF_REPO=WT))
                lines = [l for l in r.stdout.splitlines() if "condarc" not in l]
                viol = [l for l in lines if l.startswith("VIOLATION")]
                first = next((l.strip() for l in lines if l.startswith("  ->")), "")
                meta.setdefault("caught_by", {})[p + ":" + tier] = {"tier": tier, "exit": r.returncode, "violation_lines": len(viol), "first_witness": first[:200]}
                rows.append((sid, p, "CAUGHT" if r.returncode == 1 else f"MISSED (exit {r.returncode})", first[:150]))
                print(rows[-1], flush=True)
        finally:
            sh(["git", "-C", WT, "checkout", "--", "."])
            sh(["git", "-C", WT, "clean", "-fdq", "gpytorch"])
        if SRC != "/verif":
            continue
        if "seedmatrix" not in meta.get("ran", ""):
            meta["ran"] = meta.get("ran", "") + f"; tools/seedmatrix.py: git apply on a scratch worktree of /repo, vf/run.py <property> --tier {tier} with VERIF_REPO=<worktree>, git checkout -- ."
        json.dump(meta, open(f"{d}/meta.json", "w"), indent=1)
finally:
    sh(["git", "-C", "/repo", "worktree", "remove", "--force", WT])
    shutil.rmtree(VC, ignore_errors=True)
if part is not None and SRC == "/verif":
    json.dump(rows, open(f"/verif/seeded/.matrix_part_{part.split('/')[0]}.json", "w"))
elif not args and SRC == "/verif":
    write_matrix(rows)
