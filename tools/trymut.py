#!/usr/bin/env python3
"""trymut.py <patch.diff> <Cxx> [<Cyy> ...] [--tier quick|thorough] : apply a seeded change to /repo, run the named checks,
undo it straight afterwards. Prints per check: exit code + the first VIOLATION lines. /repo must be clean."""
import subprocess, sys
args = sys.argv[1:]
tier = "quick"
if "--tier" in args:
    i = args.index("--tier"); tier = args[i + 1]; del args[i:i + 2]
import os
patch, props = os.path.abspath(args[0]), args[1:]
st = subprocess.run(["git", "-C", "/repo", "status", "--porcelain"], capture_output=True, text=True).stdout.strip()
if st:
    print("/repo not clean:\n" + st); sys.exit(3)
r = subprocess.run(["git", "-C", "/repo", "apply", patch], capture_output=True)
if r.returncode:
    r = subprocess.run(["git", "-C", "/repo", "apply", "-C1", "--recount", patch], capture_output=True)
if r.returncode:
    r = subprocess.run(["patch", "-p1", "--fuzz=3", "-d", "/repo", "-i", patch, "--no-backup-if-mismatch"], capture_output=True, text=True)
    if r.returncode:
        subprocess.run(["git", "-C", "/repo", "checkout", "--", "."])
        subprocess.run(["git", "-C", "/repo", "clean", "-fdq", "gpytorch"])
        print("patch does not apply (even with fuzz)"); sys.exit(3)
    print("(applied with patch --fuzz)")
try:
    for p in props:
        r = subprocess.run(["/venv/bin/python", "/verif/vf/run.py", p, "--tier", tier], capture_output=True, text=True, cwd="/verif")
        lines = [l for l in r.stdout.splitlines() if "condarc" not in l]
        viol = [l for l in lines if l.startswith("VIOLATION")]
        print(f"== {p} [{tier}] exit={r.returncode} violations={len(viol)}")
        for l in lines[:4]: print("   ", l[:260])
        print("   ", lines[-1][:260] if lines else "")
finally:
    subprocess.run(["git", "-C", "/repo", "checkout", "--", "."])
    subprocess.run(["git", "-C", "/verif", "checkout", "--", "evidence"], capture_output=True)
