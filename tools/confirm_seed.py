#!/usr/bin/env python3
"""confirm_seed.py <PID> <X> : confirm an agent-produced change in a scratch worktree and keep it under seeded/<PID>-<X>/.
Checks: patch applies to /repo HEAD; demo passes on the unchanged tree and fails with the change; the pinned suite still
passes with the change (tools/run_baseline.py). Writes meta.json. Removes the worktree."""
import json, os, shutil, subprocess, sys, re
pid, x = sys.argv[1], sys.argv[2]
src = f"/tmp/wt_out/{pid}/{x}"
wt = f"/tmp/cs_{pid}_{x}"
dst = f"/verif/seeded/{pid}-{x}"
def run(cmd, **kw): return subprocess.run(cmd, capture_output=True, text=True, **kw)
run(["git", "-C", "/repo", "worktree", "remove", "--force", wt])
r = run(["git", "-C", "/repo", "worktree", "add", "--detach", wt, "HEAD"]); assert r.returncode == 0, r.stderr
meta = {"property": pid, "variant": x}
try:
    env = dict(os.environ, PYTHONPATH=wt, OMP_NUM_THREADS="2")
    clean = run(["/venv/bin/python", f"{src}/demo.py"], env=env, cwd=src, timeout=900)
    meta["demo_on_unchanged_tree_exit"] = clean.returncode
    a = run(["git", "-C", wt, "apply", f"{src}/patch.diff"])
    rebased = False
    if a.returncode != 0:
        a = run(["git", "-C", wt, "apply", "-C1", "--recount", f"{src}/patch.diff"])
        rebased = a.returncode == 0
    if a.returncode != 0:
        a = run(["patch", "-p1", "--fuzz=3", "--no-backup-if-mismatch", "-d", wt, "-i", f"{src}/patch.diff"])
        rebased = a.returncode == 0
    meta["patch_applies"] = a.returncode == 0
    meta["patch_rebased_onto_fixed_tree"] = rebased
    rebased_diff = run(["git", "-C", wt, "diff"]).stdout if rebased else None
    if a.returncode == 0:
        mut = run(["/venv/bin/python", f"{src}/demo.py"], env=env, cwd=src, timeout=900)
        meta["demo_with_change_exit"] = mut.returncode
        b = run(["python3", "/verif/tools/run_baseline.py", wt, "-n", "8"], timeout=3000)
        meta["suite_with_change"] = b.stdout.strip().splitlines()[0] if b.stdout else b.stderr[-300:]
        meta["suite_ok"] = b.returncode == 0
    meta["files_touched"] = re.findall(r"^\+\+\+ b/(.*)$", open(f"{src}/patch.diff").read(), re.M)
    meta["needs_to_manifest"] = open(f"{src}/notes.md").read()[:3000]
    meta["ran"] = "tools/confirm_seed.py: demo.py on clean worktree, git apply, demo.py again, tools/run_baseline.py (pinned suite, OMP_NUM_THREADS=1 -n 8) in the scratch worktree"
    ok = meta.get("patch_applies") and meta.get("demo_on_unchanged_tree_exit") == 0 and meta.get("demo_with_change_exit") not in (0, None) and meta.get("suite_ok")
    meta["confirmed"] = bool(ok)
    if ok:
        os.makedirs(dst, exist_ok=True)
        for f in ("patch.diff", "demo.py", "notes.md"):
            shutil.copy(f"{src}/{f}", dst)
        if rebased_diff:
            shutil.copy(f"{src}/patch.diff", f"{dst}/patch.orig.diff")
            open(f"{dst}/patch.diff", "w").write(rebased_diff)
        meta["caught_by"] = {}
        json.dump(meta, open(f"{dst}/meta.json", "w"), indent=1)
    print(pid, x, "CONFIRMED" if ok else "REJECTED", {k: v for k, v in meta.items() if k not in ("needs_to_manifest",)})
finally:
    run(["git", "-C", "/repo", "worktree", "remove", "--force", wt])
