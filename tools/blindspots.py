#!/venv/bin/python
"""blindspots.py : from evidence/C03.json (info counters attempted:<family>:<op> / raised:<family>:<op>:<exception>), the
(family, operation) pairs whose operation raised EVERY time it was attempted - histories containing them are rejected, so the
pair is never observed (how the KISS-GP fantasy blind spot of pass 9 would have been listed)."""
import json, collections
info = json.load(open("/verif/evidence/C03.json"))["coverage"]["info"]
att, rai = collections.Counter(), collections.defaultdict(collections.Counter)
for k, v in info.items():
    parts = k.split(":")
    if parts[0] == "attempted":
        att[(parts[1], parts[2])] += v
    elif parts[0] == "raised":
        rai[(parts[1], parts[2])][parts[3]] += v
for key in sorted(rai):
    n = sum(rai[key].values())
    print(f"{key[0]:22s} {key[1]:22s} raised {n:4d} of {att[key]:4d} attempts  {'<<< ALWAYS' if n == att[key] else ''}  {dict(rai[key])}")
