#!/venv/bin/python
"""dbg.py Cxx <replay.json | json-string> : run one case in-process and print the failures (with tracebacks)"""
import sys, json, os, warnings
sys.path.insert(0, "/verif"); sys.path.insert(0, os.environ.get("VERIF_REPO", "/repo"))
warnings.simplefilter("ignore")
import torch; torch.set_default_dtype(torch.double); torch.set_num_threads(1)
from vf.core import Ctx, load_check, Reject
prop = sys.argv[1]; arg = sys.argv[2]
case = json.load(open(arg)) if os.path.exists(arg) else json.loads(arg)
case = case.get("case", case)
mod = load_check(prop); ctx = Ctx(prop, "quick", 0)
if hasattr(mod, "setup"): mod.setup(ctx)
ctx.begin(case)
from vf.core import case_hash
torch.manual_seed(int(case_hash(case), 16) % (2**31))
try:
    mod.run_case(case, ctx)
except Reject as e:
    print("REJECT", e)
except Exception:
    import traceback; traceback.print_exc()
for f in ctx._fail: print("FAIL", json.dumps(f, default=str)[:1500])
print("monitors", dict(ctx.monitors)); print("worst", ctx.worst); print("rejected", dict(ctx.rejected)); print("info", dict(ctx.info))
