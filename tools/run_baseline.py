#!/usr/bin/env python3
"""Run the repository's pinned test suite in <repo_dir> (default /repo) and compare with /root/.vp/BASELINE.json.
usage: run_baseline.py [repo_dir] [-n workers]   exit 0 iff every stable-pass test passed."""
import ast, json, os, subprocess, sys, tempfile, xml.etree.ElementTree as ET
repo = sys.argv[1] if len(sys.argv) > 1 and not sys.argv[1].startswith("-") else "/repo"
n = sys.argv[sys.argv.index("-n") + 1] if "-n" in sys.argv else "10"
b = json.load(open("/root/.vp/BASELINE.json"))
stable = b["stable_pass"]
if isinstance(stable, str):
    stable = ast.literal_eval(stable)
stable = set(stable)
out = tempfile.mktemp(suffix=".xml")
env = dict(os.environ, OMP_NUM_THREADS="1", MKL_NUM_THREADS="1", PYTHONPATH=repo)
env.pop("GPYTORCH_VERIF", None)
cmd = ["/venv/bin/python", "-m", "pytest", "-q", "-p", "no:cacheprovider", "--timeout=900", "--continue-on-collection-errors", "-n", n, "--junitxml=" + out]
subprocess.run(cmd, cwd=repo, env=env, stdout=subprocess.DEVNULL, stderr=subprocess.DEVNULL)
passed = set()
for tc in ET.parse(out).getroot().iter("testcase"):
    if not any(ch.tag in ("failure", "error", "skipped") for ch in tc):
        passed.add(tc.get("classname") + "::" + tc.get("name"))
os.unlink(out)
missing = sorted(stable - passed)
if 0 < len(missing) <= 5:
    # a handful of tests fail under heavy machine load only (Monte-Carlo tolerances, time-outs): each is re-run ONCE on its own;
    # a test that fails again stays missing
    for mid in list(missing):
        cls, name = mid.split("::")
        mod, klass = cls.rsplit(".", 1)
        nodeid = mod.replace(".", "/") + ".py::" + klass + "::" + name
        r = subprocess.run(["/venv/bin/python", "-m", "pytest", "-q", "-p", "no:cacheprovider", "--timeout=900", nodeid], cwd=repo, env=env, stdout=subprocess.DEVNULL, stderr=subprocess.DEVNULL)
        if r.returncode == 0:
            passed.add(mid)
            print("  (passed when re-run alone:", mid + ")")
    missing = sorted(stable - passed)
print(f"stable_pass={len(stable)} passed_now={len(passed)} missing={len(missing)}")
for m in missing[:40]:
    print("  MISSING", m)
sys.exit(1 if missing else 0)
