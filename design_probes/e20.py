from gp_util import *
import itertools, copy, pickle
torch.manual_seed(6)
S=gpytorch.settings
n,d,ns=14,2,5
X=torch.rand(n,d)*2-1; y=torch.sin(3*X.sum(-1)); xs=torch.rand(ns,d)*1.6-0.8
def dense_cond(K, m, y, noise, n):
    Kxx=K[:n,:n]; Ksx=K[n:,:n]; Kss=K[n:,n:]
    A=Kxx+noise*torch.eye(n); L=torch.linalg.cholesky(A)
    mean=m[n:]+Ksx@torch.cholesky_solve((y-m[:n]).unsqueeze(-1),L).squeeze(-1)
    cov=Kss-Ksx@torch.cholesky_solve(Ksx.T,L)
    return mean,cov
def mk(kind):
    lik=gpytorch.likelihoods.GaussianLikelihood(); lik.noise=0.05
    if kind=="ski": k=gpytorch.kernels.ScaleKernel(gpytorch.kernels.GridInterpolationKernel(gpytorch.kernels.RBFKernel(), grid_size=20, grid_bounds=[(-1.2,1.2),(-1.2,1.2)]))
    elif kind=="sgpr": k=gpytorch.kernels.InducingPointKernel(gpytorch.kernels.ScaleKernel(gpytorch.kernels.RBFKernel()), inducing_points=X[:6].clone(), likelihood=lik)
    elif kind=="rff": k=gpytorch.kernels.ScaleKernel(gpytorch.kernels.RFFKernel(num_samples=30,num_dims=2))
    elif kind=="default": k=None
    return GP(X,y,lik,kernel=k)
for kind in ("default","ski","sgpr","rff"):
    for fpv,fps,chol,diagc in itertools.product([False,True],[False,True],[800,0],[True,False]):
        if kind!="sgpr" and not diagc: continue
        if kind!="ski" and fps: continue
        m=mk(kind).eval()
        with S.fast_pred_var(fpv), S.fast_pred_samples(fps), S.max_cholesky_size(chol), S.sgpr_diagonal_correction(diagc), S.cg_tolerance(1e-10), S.eval_cg_tolerance(1e-10), S.max_cg_iterations(3000), S.max_root_decomposition_size(200), S.max_lanczos_quadrature_iterations(200), S.max_preconditioner_size(0):
            try:
                out=m(xs); mean=out.mean.detach(); cov=out.covariance_matrix.detach()
            except Exception as e:
                print(kind,fpv,fps,chol,diagc,"EXC",type(e).__name__,str(e)[:80]); continue
            with torch.no_grad(), S.lazily_evaluate_kernels(False):
                full=torch.cat([X,xs]); Kfull=m.covar_module(full).to_dense(); mm=m.mean_module(full)
                if kind=="sgpr":
                    # train-train nystrom w/ diag correction applies to whole joint in eval; use separate blocks
                    Kxx=m.covar_module(X).to_dense(); Ksx=m.covar_module(xs,X).to_dense()
                    bk=m.covar_module.base_kernel
                    Kss=bk(xs).to_dense()  # SGPR predictive uses exact prior test covariance
                    A=Kxx+0.05*torch.eye(n); L=torch.linalg.cholesky(A)
                    rm=mm[n:]+Ksx@torch.cholesky_solve((y-mm[:n]).unsqueeze(-1),L).squeeze(-1); rc=Kss-Ksx@torch.cholesky_solve(Ksx.T,L)
                else:
                    rm,rc=dense_cond(Kfull,mm,y,0.05,n)
            print(kind,"fpv",fpv,"fps",fps,"chol",chol,"diagc",diagc,"mean %.1e cov %.1e"%((mean-rm).abs().max(),(cov-rc).abs().max()))
# persistence
for kind in ("default","ski","sgpr","rff"):
    m=mk(kind)
    with torch.no_grad():
        for p in m.parameters(): p.add_(0.2*torch.randn_like(p))
    m.eval(); o=m(xs); base=(o.mean.detach(),o.covariance_matrix.detach())
    f=mk(kind); f.load_state_dict(copy.deepcopy(m.state_dict())); f.eval(); o2=f(xs)
    dc=copy.deepcopy(m); o3=dc(xs)
    pk=pickle.loads(pickle.dumps(m)); o4=pk(xs)
    e=lambda o:max((o.mean-base[0]).abs().max().item(),(o.covariance_matrix-base[1]).abs().max().item())
    print("persist",kind,"sd %.1e deepcopy %.1e pickle %.1e"%(e(o2),e(o3),e(o4)))
