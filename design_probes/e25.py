from gp_util import *
import itertools
torch.manual_seed(8)
S=gpytorch.settings
n,d,ns=6,2,3
def build(pb, X, y, params=None):
    B=torch.Size(pb)
    lik=gpytorch.likelihoods.GaussianLikelihood(batch_shape=B)
    k=gpytorch.kernels.ScaleKernel(gpytorch.kernels.MaternKernel(nu=2.5,ard_num_dims=d,batch_shape=B),batch_shape=B)
    m=GP(X,y,lik,kernel=k,mean=gpytorch.means.ConstantMean(batch_shape=B))
    return m
shapes=[(),(2,),(3,2),(1,2),(3,1)]
rows=[]
for pb,db in itertools.product(shapes,shapes):
    try: full=torch.broadcast_shapes(pb,db)
    except RuntimeError: continue
    X=torch.randn(*db,n,d); y=torch.randn(*db,n); xs=torch.randn(*db,ns,d)
    m=build(pb,X,y)
    with torch.no_grad():
        for p in m.parameters(): p.copy_(torch.randn_like(p)*0.5)
    status=[]
    # posterior
    try:
        m.eval(); out=m(xs); mean=out.mean.detach(); cov=out.covariance_matrix.detach()
        m.train(); mll=gpytorch.mlls.ExactMarginalLogLikelihood(m.likelihood,m); v=mll(m(X),y).detach()
    except Exception as e:
        rows.append((pb,db,"EXC "+type(e).__name__+": "+str(e)[:70])); continue
    worst=0; shape_ok = tuple(mean.shape[:-1])==tuple(full) and tuple(v.shape)==tuple(full)
    sd=m.state_dict()
    for b in itertools.product(*[range(s) for s in full]):
        def sl(t, tb):  # slice tensor with batch shape tb (broadcast against full) at index b
            tb=list(tb); idx=[]
            off=len(full)-len(tb)
            for i,s in enumerate(tb): idx.append(b[off+i] if s!=1 else 0)
            return t[tuple(idx)] if idx else t
        Xb=sl(X,db); yb=sl(y,db); xsb=sl(xs,db)
        r=build((),Xb,yb)
        rsd=r.state_dict()
        for kname in rsd:
            src=sd[kname]
            nb=src.dim()-rsd[kname].dim()
            if nb>0: rsd[kname]=sl(src, src.shape[:nb]).clone()
            else: rsd[kname]=src.clone()
        r.load_state_dict(rsd)
        r.eval(); ro=r(xsb)
        r.train(); rv=gpytorch.mlls.ExactMarginalLogLikelihood(r.likelihood,r)(r(Xb),yb).detach()
        mb=mean.expand(*full,ns)[b]; cb=cov.expand(*full,ns,ns)[b]; vb=v.expand(*full)[b] if v.dim() else v
        worst=max(worst,(mb-ro.mean).abs().max().item(),(cb-ro.covariance_matrix).abs().max().item(),(vb-rv).abs().item())
    rows.append((pb,db,"worst %.1e shape_ok %s"%(worst,shape_ok)))
for r in rows: print(r)
