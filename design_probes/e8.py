from gp_util import *
torch.manual_seed(3)
n,d,ns,nf=8,2,4,3
X=torch.randn(n,d); y=torch.sin(X.sum(-1)); xs=torch.randn(ns,d)
lik=gpytorch.likelihoods.GaussianLikelihood(); lik.noise=0.05
m=GP(X,y,lik).eval(); m(xs)
Xf=torch.randn(nf,d); yf=torch.randn(nf)
fm=m.get_fantasy_model(Xf,yf)
ps=fm.prediction_strategy
print(type(ps).__name__, list(getattr(ps,"_memoize_cache",{}).keys()))
print("training?", fm.training)
mc=ps.mean_cache
o=fm(xs)
print(fm.prediction_strategy is ps)
lik2=gpytorch.likelihoods.GaussianLikelihood(); lik2.noise=0.05
ref=GP(torch.cat([X,Xf]),torch.cat([y,yf]),lik2).eval(); r=ref(xs)
print((o.mean-r.mean).abs().max().item(), (mc-ref.prediction_strategy.mean_cache).abs().max().item())
# corrupt cache to verify it's used
from gpytorch.utils.memoize import add_to_cache
add_to_cache(ps,"mean_cache", mc*0, "ignore")
print("after corrupt:", (fm(xs).mean-r.mean).abs().max().item())
