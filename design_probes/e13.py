import torch, gpytorch, math, warnings
warnings.simplefilter("ignore")
torch.set_default_dtype(torch.double)
from gpytorch.functions import RBFCovariance, MaternCovariance, log_normal_cdf
from gpytorch.kernels import RBFKernel, MaternKernel
torch.manual_seed(0)
# fast vs generic path: values and lengthscale grads
for K,kw in ((RBFKernel,{}),(MaternKernel,{"nu":0.5}),(MaternKernel,{"nu":1.5}),(MaternKernel,{"nu":2.5})):
    for bs in ((),(2,)):
        x1=torch.randn(*bs,5,3); x2=torch.cat([x1[...,:2,:], torch.randn(*bs,3,3)],-2)  # coincident points
        k=K(batch_shape=torch.Size(bs),**kw); k.lengthscale=0.7+torch.rand(*bs,1,1)
        G=torch.randn(*bs,5,5)
        with gpytorch.settings.lazily_evaluate_kernels(False):
            out_fast=k(x1,x2).to_dense(); (out_fast*G).sum().backward(); g_fast=k.raw_lengthscale.grad.clone(); k.zero_grad()
            with gpytorch.settings.trace_mode(True):
                out_gen=k(x1,x2).to_dense(); (out_gen*G).sum().backward(); g_gen=k.raw_lengthscale.grad.clone(); k.zero_grad()
        print(K.__name__,kw,bs,"val %.1e grad %.1e"%((out_fast-out_gen).abs().max(), (g_fast-g_gen).abs().max()), g_fast.flatten()[:2].tolist(), g_gen.flatten()[:2].tolist())
# log normal cdf
z=torch.cat([torch.linspace(-40,-1.0001,400), torch.linspace(-1,-0.2,100), torch.linspace(-0.2,0.2,100), torch.linspace(0.2,8,200)]).requires_grad_(True)
out=log_normal_cdf(z)
ref=torch.special.log_ndtr(z.detach())
g,=torch.autograd.grad(out.sum(),z)
refg=torch.exp(-0.5*z.detach()**2-0.5*math.log(2*math.pi)-ref)
err=(out.detach()-ref).abs()
print("logcdf max abs err all %.2e ; z>=-1 %.2e"%(err.max(), err[z.detach()>=-1].max()))
rel=((g-refg)/refg).abs()
print("grad rel err all %.2e; z>=-1 %.2e"%(rel.max(), rel[z.detach()>=-1].max()))
i=err.argmax(); print("worst z", z[i].item(), out[i].item(), ref[i].item())
# quadrature exactness
from gpytorch.utils.quadrature import GaussHermiteQuadrature1D
import numpy as np
for nl in (3,5,20):
    q=GaussHermiteQuadrature1D(nl)
    q.locations=q.locations.double(); q.weights=q.weights.double()
    m=torch.tensor([0.3,-1.2,2.0]); v=torch.tensor([0.5,2.0,0.1])
    dist=torch.distributions.Normal(m,v.sqrt())
    worst=0
    for deg in range(0,2*nl):
        got=q(lambda x: x**deg, dist)
        # exact moment E[x^deg]
        from scipy.stats import norm
        ref=torch.tensor([norm(loc=mm.item(),scale=math.sqrt(vv.item())).moment(deg) for mm,vv in zip(m,v)])
        worst=max(worst,((got-ref).abs()/(1+ref.abs())).max().item())
    got=q(lambda x: x**(2*nl), dist); ref=torch.tensor([norm(loc=mm.item(),scale=math.sqrt(vv.item())).moment(2*nl) for mm,vv in zip(m,v)])
    print("nl",nl,"worst rel err deg<2n %.2e ; deg=2n rel err %.2e"%(worst, ((got-ref).abs()/(1+ref.abs())).max()), "dtype", GaussHermiteQuadrature1D(nl).locations.dtype)
