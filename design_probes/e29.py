import torch, gpytorch, warnings
warnings.simplefilter("ignore")
torch.set_default_dtype(torch.double)
from gpytorch.variational.natural_variational_distribution import _NaturalToMuVarSqrt
from gpytorch.variational.tril_natural_variational_distribution import _TrilNaturalToMuVarSqrt
torch.manual_seed(0)
for bs in ((),(2,)):
    M=4
    A=torch.randn(*bs,M,M); P=A@A.transpose(-1,-2)+M*torch.eye(M)  # precision
    th1=torch.randn(*bs,M).requires_grad_(True); th2=(-0.5*P).requires_grad_(True)
    mu,L=_NaturalToMuVarSqrt.apply(th1,th2)
    # check forward
    S=torch.linalg.inv(P); print("fwd mu %.1e LLt %.1e"%((mu-(S@th1.unsqueeze(-1)).squeeze(-1)).abs().max(),(L@L.transpose(-1,-2)-S).abs().max()))
    g_mu=torch.randn_like(mu); g_L=torch.randn_like(L).tril()
    d1,d2=torch.autograd.grad([mu,L],[th1,th2],[g_mu,g_L])
    # oracle: gradient wrt expectation params eta1=mu, eta2=S+mu mu^T of f(mu(eta),L(eta))
    eta1=mu.detach().clone().requires_grad_(True); eta2=(S+mu.detach().unsqueeze(-1)*mu.detach().unsqueeze(-2)).clone().requires_grad_(True)
    S_e=eta2-eta1.unsqueeze(-1)*eta1.unsqueeze(-2); L_e=torch.linalg.cholesky((S_e+S_e.transpose(-1,-2))/2)
    r1,r2=torch.autograd.grad([eta1,L_e],[eta1,eta2],[g_mu,g_L])
    r2s=(r2+r2.transpose(-1,-2))/2
    print("natural bs",bs,"d_eta1 err %.1e d_eta2 err %.1e"%((d1-r1).abs().max(),(d2-r2s).abs().max()))
    # tril natural
    T=torch.randn(*bs,M,M).tril()+3*torch.eye(M); T=T.requires_grad_(True); t1=torch.randn(*bs,M).requires_grad_(True)
    mu2,L2=_TrilNaturalToMuVarSqrt.apply(t1,T)
    Lref=torch.linalg.inv(T.detach()); print("tril fwd mu %.1e L %.1e"%((mu2-(Lref@(Lref.transpose(-1,-2)@t1.detach().unsqueeze(-1))).squeeze(-1)).abs().max(),(L2-Lref).abs().max()))
