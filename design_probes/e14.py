import torch, gpytorch, math, warnings, itertools
warnings.simplefilter("ignore")
torch.set_default_dtype(torch.double)
from gpytorch.kernels import *
S=gpytorch.settings
torch.manual_seed(0)
n,t,d=4,3,2
X=torch.randn(n,d); X2=torch.randn(5,d)
# Multitask kernel vs kron
mk=MultitaskKernel(RBFKernel(), num_tasks=t, rank=2)
B=mk.task_covar_module._eval_covar_matrix().detach()
with S.lazily_evaluate_kernels(False):
    Kd=mk.data_covar_module(X,X2).to_dense()
    print("multitask kron", (mk(X,X2).to_dense()-torch.kron(Kd,B)).abs().max().item())
    # diag
    try: print("multitask diag", (mk(X,diag=True)-mk(X).to_dense().diagonal()).abs().max().item())
    except Exception as e: print("mt diag EXC", e)
# Index kernel
ik=IndexKernel(num_tasks=t, rank=1); i1=torch.tensor([[0],[2],[1],[1]]); i2=torch.tensor([[2],[0]])
Bm=ik._eval_covar_matrix().detach()
print("index", (ik(i1,i2).to_dense()-Bm[i1.squeeze(-1)][:,i2.squeeze(-1)]).abs().max().item())
# Grid kernel: toeplitz/kronecker vs dense
grid=[torch.linspace(0,1,5), torch.linspace(-1,1,4)]
gk=GridKernel(RBFKernel(ard_num_dims=2), grid=grid)
gk.base_kernel.lengthscale=torch.tensor([[0.4,0.9]])
full=gk.full_grid
for tz in (True,False):
    with S.use_toeplitz(tz):
        out=gk(full,full).to_dense()
    with S.lazily_evaluate_kernels(False): ref=gk.base_kernel(full,full).to_dense()
    print("grid toeplitz",tz,(out-ref).abs().max().item())
# Inducing point kernel = Nystrom
lik=gpytorch.likelihoods.GaussianLikelihood()
Z=torch.randn(3,d)
ipk=InducingPointKernel(ScaleKernel(RBFKernel()), inducing_points=Z.clone(), likelihood=lik).eval()
with S.lazily_evaluate_kernels(False), S.sgpr_diagonal_correction(False):
    bk=ipk.base_kernel
    Kzz=bk(Z).to_dense(); Kxz=bk(X,Z).to_dense(); K2z=bk(X2,Z).to_dense()
    ref=Kxz@torch.linalg.solve(Kzz,K2z.T)
    print("nystrom cross", (ipk(X,X2).to_dense()-ref).abs().max().item())
    refxx=Kxz@torch.linalg.solve(Kzz,Kxz.T)
    print("nystrom xx", (ipk(X).to_dense()-refxx).abs().max().item())
# interpolation
from gpytorch.utils.interpolation import Interpolation
g=[torch.linspace(0,1,12)]
xs=torch.rand(50,1)*0.6+0.2
idx,val=Interpolation().interpolate(g, xs)
print("interp sum to one", (val.sum(-1)-1).abs().max().item())
f=lambda x: 0.3+2*x-1.5*x**2
rec=(val*f(g[0][idx])).sum(-1)
print("reproduce quadratic", (rec-f(xs.squeeze(-1))).abs().max().item())
idx,val=Interpolation().interpolate(g, g[0][2:-2].unsqueeze(-1))
print("exact at nodes", ((val*g[0][idx]).sum(-1)-g[0][2:-2]).abs().max().item(), (val.max(-1)[0]-1).abs().max().item())
# batch independence: kernel
bs=(2,)
k=ScaleKernel(MaternKernel(nu=1.5,batch_shape=torch.Size(bs),ard_num_dims=2),batch_shape=torch.Size(bs))
k.base_kernel.lengthscale=torch.rand(2,1,2)+0.5; k.outputscale=torch.tensor([0.7,1.9])
Xb=torch.randn(3,2,n,d)
out=k(Xb).to_dense()
for b in range(2):
    kb=ScaleKernel(MaternKernel(nu=1.5,ard_num_dims=2)); kb.base_kernel.lengthscale=k.base_kernel.lengthscale[b].detach(); kb.outputscale=k.outputscale[b].detach()
    print("batch",b,(out[:,b]-kb(Xb[:,b]).to_dense()).abs().max().item())
