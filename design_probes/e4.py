import torch, gpytorch, math, warnings, itertools, inspect
warnings.simplefilter("ignore")
from gpytorch import settings as S
import gpytorch.beta_features as BF
# enumerate settings classes
classes = []
for name in S.__all__:
    obj = getattr(S, name)
    classes.append((name, obj))
for name in BF.__all__:
    classes.append(("beta."+name, getattr(BF,name)))
def snapshot():
    snap = {}
    for name, c in classes:
        if hasattr(c, "_state"): snap[name]=("flag", c._state, c.on())
        if hasattr(c, "_global_value"): snap[name]=("val", c._global_value)
        if hasattr(c, "_global_float_value"): snap[name]=("dt", c._global_float_value, c._global_double_value, c._global_half_value)
        if name=="fast_pred_var": snap[name] = snap[name]+(c._num_probe_vectors,)
        if name=="fast_computations": snap[name]=tuple(x.on() for x in (c.covar_root_decomposition,c.log_prob,c.solves))
        if name=="linalg_dtypes": snap[name]=(S._linalg_dtype_symeig.value(), S._linalg_dtype_cholesky.value())
    return snap
base = snapshot()
print(len(classes), "settings;", [n for n,_ in classes if n not in base])
def args_for(name, c):
    if name=="fast_computations": return [dict(covar_root_decomposition=False, log_prob=True, solves=False), dict(log_prob=False)]
    if name=="linalg_dtypes": return [dict(default=torch.float), dict(symeig=torch.float)]
    if name=="observation_nan_policy": return [("mask",),("fill",)]
    if name=="fast_pred_var": return [dict(state=True,num_probe_vectors=5), dict(state=False)]
    if hasattr(c,"_global_float_value"): return [dict(float_value=0.5), dict(double_value=0.25, half_value=0.125)]
    if hasattr(c,"_state") or issubclass(c, S._feature_flag): return [(True,),(False,)]
    if hasattr(c,"_global_value"): return [(7,),(3,)]
    return [()]
bad=[]
for name,c in classes:
    for a in args_for(name,c):
        mk = (lambda: c(**a)) if isinstance(a,dict) else (lambda: c(*a))
        # normal exit
        before = snapshot()
        with mk(): inside = snapshot()
        if snapshot()!=before: bad.append((name,a,"leak normal"))
        try:
            with mk(): raise KeyError
        except KeyError: pass
        if snapshot()!=before: bad.append((name,a,"leak exc"))
        # nested same
        for a2 in args_for(name,c):
            mk2 = (lambda: c(**a2)) if isinstance(a2,dict) else (lambda: c(*a2))
            with mk():
                mid = snapshot()
                with mk2(): pass
                if snapshot()!=mid: bad.append((name,a,a2,"inner leak"))
            if snapshot()!=before: bad.append((name,a,a2,"outer leak"))
print(bad)
print("defaults:", {k:v for k,v in base.items()})
