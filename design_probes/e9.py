from gp_util import *
import itertools
torch.manual_seed(4)
S=gpytorch.settings
n,d,ns=9,2,4
X=torch.randn(n,d); y=torch.sin(X.sum(-1)); xs=torch.randn(ns,d)
def mk(X,y):
    lik=gpytorch.likelihoods.GaussianLikelihood(); lik.noise=0.05
    m=GP(X,y,lik); m.covar_module.base_kernel.lengthscale=0.9; m.mean_module.constant=0.3
    m.covar_module.base_kernel.register_prior("lengthscale_prior", gpytorch.priors.GammaPrior(2.0,3.0), "lengthscale")
    return m
for pat in ([], [0], [2,5], list(range(1,n))):
    yn=y.clone(); yn[pat]=float("nan")
    keep=[i for i in range(n) if i not in pat]
    ref=mk(X[keep],y[keep]).eval(); r=ref(xs)
    for order in (["mask","fill"],["fill","mask"]):
        m=mk(X,yn).eval(); res={}
        for pol in order:
            with S.observation_nan_policy(pol):
                o=m(xs); res[pol]=(o.mean.detach(),o.covariance_matrix.detach())
        for pol in order:
            e=max((res[pol][0]-r.mean).abs().max().item(),(res[pol][1]-r.covariance_matrix).abs().max().item())
            print("pat",pat,"order",order,"pol",pol,"err %.2e"%e, "nan" if torch.isnan(res[pol][0]).any() or torch.isnan(res[pol][1]).any() else "")
    # mll
    m=mk(X,yn).train(); mll=gpytorch.mlls.ExactMarginalLogLikelihood(m.likelihood,m)
    with S.observation_nan_policy("mask"):
        v=mll(m(X),yn)
    ref=mk(X[keep],y[keep]).train(); mllr=gpytorch.mlls.ExactMarginalLogLikelihood(ref.likelihood,ref)
    with S.fast_computations(False,False,False): vr=mllr(ref(X[keep]),y[keep])
    print("   mll masked*n %.8f  ref*nobs %.8f"%(v.item()*n, vr.item()*len(keep)))
