import torch, gpytorch, math, warnings, itertools
warnings.simplefilter("ignore")
torch.set_default_dtype(torch.double)
from gpytorch.kernels import *
torch.manual_seed(0)
def base_rbf(a,b,l): return torch.exp(-0.5*(((a-b)/l)**2).sum())
def base_m52(a,b,l):
    r=(((a-b)/l)**2).sum().clamp_min(1e-30).sqrt(); s=math.sqrt(5)*r
    return (1+s+s**2/3)*torch.exp(-s)
def base_poly(a,b,c,p): return (a@b+c)**p
def ref_grad(fn,x1,x2,second=False):
    n1,d=x1.shape; n2=x2.shape[0]; m=(2*d+1) if second else (d+1)
    ref=torch.zeros(n1*m,n2*m)
    for i in range(n1):
        for j in range(n2):
            a=x1[i].clone().requires_grad_(True); b=x2[j].clone().requires_grad_(True)
            def ops(v, wrt_a_ops):
                pass
            v=fn(a,b)
            # operators on a: [id, d/da_p, (d2/da_p2)]
            def apply_a(expr):
                outs=[expr]
                g,=torch.autograd.grad(expr,a,create_graph=True,allow_unused=True)
                g = g if g is not None else torch.zeros(d)
                outs+= [g[p] for p in range(d)]
                if second:
                    for p in range(d):
                        if g[p].requires_grad:
                            h,=torch.autograd.grad(g[p],a,create_graph=True,allow_unused=True); outs.append(h[p] if h is not None else torch.zeros(()))
                        else: outs.append(torch.zeros(()))
                return outs
            def apply_b(expr):
                if not expr.requires_grad: return [expr]+[torch.zeros(())]*(m-1)
                outs=[expr]
                g,=torch.autograd.grad(expr,b,create_graph=True,allow_unused=True)
                g = g if g is not None else torch.zeros(d)
                outs+= [g[p] for p in range(d)]
                if second:
                    for p in range(d):
                        if g[p].requires_grad:
                            h,=torch.autograd.grad(g[p],b,create_graph=True,allow_unused=True); outs.append(h[p] if h is not None else torch.zeros(()))
                        else: outs.append(torch.zeros(()))
                return outs
            A=apply_a(v)
            for p,ea in enumerate(A):
                B=apply_b(ea)
                for q,eb in enumerate(B):
                    ref[i*m+p,j*m+q]=eb.detach()
    return ref
for d in (1,2,3):
  for n1,n2 in ((3,2),(2,4),(3,3)):
    x1=torch.randn(n1,d); x2=torch.randn(n2,d)
    k=RBFKernelGrad(); k.lengthscale=0.9
    e1=(k(x1,x2).to_dense()-ref_grad(lambda a,b: base_rbf(a,b,0.9),x1,x2)).abs().max().item()
    k=Matern52KernelGrad(); k.lengthscale=1.1
    e2=(k(x1,x2).to_dense()-ref_grad(lambda a,b: base_m52(a,b,1.1),x1,x2)).abs().max().item()
    k=PolynomialKernelGrad(power=3); k.offset=0.7
    e3=(k(x1,x2).to_dense()-ref_grad(lambda a,b: base_poly(a,b,0.7,3),x1,x2)).abs().max().item()
    k=RBFKernelGradGrad(); k.lengthscale=0.8
    try: e4=(k(x1,x2).to_dense()-ref_grad(lambda a,b: base_rbf(a,b,0.8),x1,x2,second=True)).abs().max().item()
    except Exception as ex: e4="EXC "+str(ex)[:80]
    # diag
    try:
        kk=RBFKernelGradGrad(); kk.lengthscale=0.8
        dg=kk(x1,diag=True); full=kk(x1).to_dense().diagonal()
        e5=(dg-full).abs().max().item()
    except Exception as ex: e5="EXC "+str(ex)[:60]
    print("d",d,"n",n1,n2,"rbfgrad %.1e m52grad %.1e polygrad %.1e"%(e1,e2,e3),"gradgrad",e4,"ggdiag",e5)
