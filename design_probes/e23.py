import torch, gpytorch, math, warnings, itertools
warnings.simplefilter("ignore")
torch.set_default_dtype(torch.double)
from gpytorch.kernels import *
torch.manual_seed(0)
S=gpytorch.settings
def atoms(n):
    return [0,-1, slice(None), slice(1,None), slice(None,-1), slice(0,None,2), slice(1,n+3), slice(-2,None), slice(2,4), torch.tensor([0,n-1]), torch.tensor([n-1,0,0]), Ellipsis]
def kernels(bs):
    B=torch.Size(bs)
    yield "rbf", RBFKernel(batch_shape=B)
    yield "scale_matern_ard", ScaleKernel(MaternKernel(nu=1.5,ard_num_dims=2,batch_shape=B),batch_shape=B)
    yield "sum", RBFKernel(batch_shape=B)+LinearKernel(batch_shape=B)
    yield "prod_active", RBFKernel(batch_shape=B,active_dims=(0,))*PeriodicKernel(batch_shape=B,active_dims=(1,))
    yield "rbf_active", RBFKernel(batch_shape=B,active_dims=(1,))
    yield "multitask", MultitaskKernel(RBFKernel(batch_shape=B),num_tasks=2,rank=1,batch_shape=B)
    yield "rbfgrad", RBFKernelGrad(batch_shape=B)
bad={}; tot=0
for kbs, xbs in (((),()),((2,),(2,)),((),(2,)),((2,),()),((3,2),(2,))):
    for name,k in kernels(kbs):
        with torch.no_grad():
            for p in k.parameters(): p.copy_(torch.randn_like(p)*0.5)
        n1,n2=5,4
        x1=torch.randn(*xbs,n1,2); x2=torch.randn(*xbs,n2,2)
        try:
            with S.lazily_evaluate_kernels(False): D=k(x1,x2).to_dense()
            lz=k(x1,x2)
        except Exception as e:
            bad[(kbs,xbs,name,"construct")]="EXC "+str(e)[:80]; continue
        if lz.shape!=D.shape: bad[(kbs,xbs,name,"shape")]=f"{tuple(lz.shape)} vs {tuple(D.shape)}"; continue
        dims=list(D.shape)
        ats=[atoms(s) for s in dims]
        for combo in itertools.product(*ats):
            if sum(1 for c in combo if c is Ellipsis)>1: continue
            if sum(1 for c in combo if torch.is_tensor(c))>1: continue
            try: ref=D[combo]
            except Exception: continue
            if ref.dim()<1: continue
            tot+=1
            key=(kbs,xbs,name,str(combo))
            try:
                got=lz[combo]
                got=got.to_dense() if hasattr(got,"to_dense") else got
            except Exception as e: bad[key]="EXC "+type(e).__name__+" "+str(e)[:70]; continue
            if got.shape!=ref.shape: bad[key]=f"SHAPE {tuple(got.shape)} vs {tuple(ref.shape)}"; continue
            if not torch.allclose(got,ref,atol=1e-10): bad[key]="VAL %.2e"%(got-ref).abs().max()
        # diag, transpose
        try:
            if n1==n2: pass
            T=lz.transpose(-1,-2).to_dense()
            if not torch.allclose(T,D.transpose(-1,-2)): bad[(kbs,xbs,name,"T")]="VAL"
        except Exception as e: bad[(kbs,xbs,name,"T")]="EXC "+str(e)[:60]
        try:
            dg=k(x1,diag=True); 
            with S.lazily_evaluate_kernels(False): Dxx=k(x1).to_dense()
            if not torch.allclose(torch.as_tensor(dg),Dxx.diagonal(dim1=-1,dim2=-2)): bad[(kbs,xbs,name,"diag")]="VAL"
        except Exception as e: bad[(kbs,xbs,name,"diag")]="EXC "+str(e)[:60]
print("cells",tot,"bad",len(bad))
from collections import Counter
c=Counter((k[2],v.split()[0]) for k,v in bad.items()); print(c)
for k,v in list(bad.items())[:30]: print(k,v)
print("-----")
seen=set()
for k,v in bad.items():
    if k[2] in ("rbf_active","multitask","rbfgrad","prod_active") and v.startswith("EXC"):
        sig=(k[0],k[1],k[2],v[:60])
        if sig in seen: continue
        seen.add(sig); print(k,v)
    if len(seen)>25: break
print("----- non-negative-int SHAPE/VAL issues")
cnt=0
for k,v in bad.items():
    if v.startswith("EXC"): continue
    if "-1," in k[3] or "-1)" in k[3]: continue
    print(k,v); cnt+=1
    if cnt>25: break
