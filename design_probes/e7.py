from gp_util import *
import itertools, copy
torch.manual_seed(3)
S=gpytorch.settings
n,d,ns,nf=8,2,4,3
X=torch.randn(n,d); y=torch.sin(X.sum(-1)); xs=torch.randn(ns,d)
def mk(X,y,fixed=None, bs=()):
    if fixed is None:
        lik=gpytorch.likelihoods.GaussianLikelihood(batch_shape=torch.Size(bs)); lik.noise=0.05
    else:
        lik=gpytorch.likelihoods.FixedNoiseGaussianLikelihood(noise=fixed)
    k=gpytorch.kernels.ScaleKernel(gpytorch.kernels.RBFKernel(batch_shape=torch.Size(bs)), batch_shape=torch.Size(bs))
    m=GP(X,y,lik,kernel=k, mean=gpytorch.means.ConstantMean(batch_shape=torch.Size(bs)))
    m.covar_module.base_kernel.lengthscale=0.9; m.mean_module.constant=0.3
    return m
def cmp(a,b):
    return max((a.mean-b.mean).abs().max().item(), (a.covariance_matrix-b.covariance_matrix).abs().max().item())
for fpv, det in itertools.product([False,True],[True,False]):
  with S.fast_pred_var(fpv), S.detach_test_caches(det):
    # plain
    m=mk(X,y).eval(); before=m(xs); sd0=copy.deepcopy(m.state_dict())
    Xf=torch.randn(nf,d); yf=torch.randn(nf)
    fm=m.get_fantasy_model(Xf,yf)
    ref=mk(torch.cat([X,Xf]),torch.cat([y,yf])).eval()
    e1=cmp(fm(xs),ref(xs))
    after=m(xs); e_src=cmp(before,after)
    # fantasy of fantasy
    Xf2=torch.randn(2,d); yf2=torch.randn(2)
    fm2=fm.get_fantasy_model(Xf2,yf2)
    ref2=mk(torch.cat([X,Xf,Xf2]),torch.cat([y,yf,yf2])).eval()
    e2=cmp(fm2(xs),ref2(xs))
    # fantasy batch f x m targets with shared inputs
    yfb=torch.randn(3,nf)
    fmb=m.get_fantasy_model(Xf,yfb)
    outb=fmb(xs)
    e3=0
    for i in range(3):
        r=mk(torch.cat([X,Xf]),torch.cat([y,yfb[i]])).eval()(xs)
        e3=max(e3,(outb.mean[i]-r.mean).abs().max().item(),(outb.covariance_matrix[i]-r.covariance_matrix).abs().max().item())
    # per-fantasy inputs
    Xfb=torch.randn(3,nf,d)
    fmc=m.get_fantasy_model(Xfb,yfb); outc=fmc(xs); e4=0
    for i in range(3):
        r=mk(torch.cat([X,Xfb[i]]),torch.cat([y,yfb[i]])).eval()(xs)
        e4=max(e4,(outc.mean[i]-r.mean).abs().max().item(),(outc.covariance_matrix[i]-r.covariance_matrix).abs().max().item())
    # fixed noise
    fn=torch.rand(n)*0.1+0.01; fnf=torch.rand(nf)*0.1+0.01
    mf=mk(X,y,fixed=fn).eval(); mf(xs)
    fmf=mf.get_fantasy_model(Xf,yf,noise=fnf)
    rf=mk(torch.cat([X,Xf]),torch.cat([y,yf]),fixed=torch.cat([fn,fnf])).eval()
    e5=cmp(fmf(xs),rf(xs))
    print("fpv",fpv,"det",det,"plain %.2e src %.2e fof %.2e batchT %.2e batchXT %.2e fixed %.2e"%(e1,e_src,e2,e3,e4,e5))
