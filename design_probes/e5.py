from gp_util import *
import itertools
torch.manual_seed(1)
n,d,ns=12,2,5
X=torch.randn(n,d); y=torch.sin(X.sum(-1))+0.1*torch.randn(n); xs=torch.randn(ns,d)
S=gpytorch.settings
def mk():
    lik=gpytorch.likelihoods.GaussianLikelihood(); lik.noise=0.05
    m=GP(X,y,lik); m.covar_module.base_kernel.lengthscale=0.9; m.covar_module.outputscale=1.3; m.mean_module.constant=0.2
    return m
worst=0
for lazy, eager, chol, fpv, det in itertools.product([True,False],[512,4],[800,2],[False,True],[True,False]):
    m=mk().eval()
    ref_m, ref_c = dense_post(m, xs)
    with S.lazily_evaluate_kernels(lazy), S.max_eager_kernel_size(eager), S.max_cholesky_size(chol), S.fast_pred_var(fpv), S.detach_test_caches(det), S.cg_tolerance(1e-10), S.eval_cg_tolerance(1e-10), S.max_cg_iterations(2000), S.max_root_decomposition_size(100), S.max_lanczos_quadrature_iterations(100):
        out=m(xs)
        em=(out.mean-ref_m).abs().max().item(); ec=(out.covariance_matrix-ref_c).abs().max().item()
        pl = m.likelihood(out)
        en=(pl.covariance_matrix-ref_c-0.05*torch.eye(ns)).abs().max().item()
    worst=max(worst,em,ec,en)
    if max(em,ec,en)>1e-6: print("DEV", lazy,eager,chol,fpv,det, em,ec,en)
print("worst", worst)
