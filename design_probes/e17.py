from gp_util import *
import itertools
torch.manual_seed(5)
S=gpytorch.settings
def dense_mll(model, X, y, extra_priors=True):
    k=model.covar_module; m=model.mean_module
    with S.lazily_evaluate_kernels(False):
        K=k(X).to_dense(); mx=m(X)
    noise=model.likelihood.noise
    A=K+noise.unsqueeze(-1)*torch.eye(X.shape[-2]) if noise.dim()>0 else K+noise*torch.eye(X.shape[-2])
    lp=torch.distributions.MultivariateNormal(mx,A).log_prob(y)
    return lp
for bs in ((),(2,)):
    n,d=7,2
    X=torch.randn(*bs,n,d); y=torch.randn(*bs,n)
    lik=gpytorch.likelihoods.GaussianLikelihood(batch_shape=torch.Size(bs), noise_prior=gpytorch.priors.GammaPrior(1.1,0.5))
    kern=gpytorch.kernels.ScaleKernel(gpytorch.kernels.MaternKernel(nu=2.5,ard_num_dims=d,batch_shape=torch.Size(bs), lengthscale_prior=gpytorch.priors.LogNormalPrior(0.0,1.0)),batch_shape=torch.Size(bs), outputscale_prior=gpytorch.priors.GammaPrior(2.0,0.15))
    mean=gpytorch.means.ConstantMean(batch_shape=torch.Size(bs), constant_prior=gpytorch.priors.NormalPrior(0.0,2.0))
    model=GP(X,y,lik,kernel=kern,mean=mean)
    with torch.no_grad():
        for p in model.parameters(): p.add_(0.3*torch.randn_like(p))
    model.train()
    for fast in (False,True):
        mll=gpytorch.mlls.ExactMarginalLogLikelihood(lik,model)
        model.zero_grad()
        with S.fast_computations(fast,fast,fast):
            v=mll(model(X),y)
        v.sum().backward()
        g=[p.grad.clone() for p in model.parameters()]
        # dense
        model.zero_grad()
        lp=dense_mll(model,X,y)
        pri=0
        ls=kern.base_kernel.lengthscale; pri=pri+torch.distributions.LogNormal(0.0,1.0).log_prob(ls).sum((-1,-2))
        pri=pri+torch.distributions.Gamma(2.0,0.15).log_prob(kern.outputscale)
        pri=pri+torch.distributions.Gamma(1.1,0.5).log_prob(lik.noise).sum(-1)
        pri=pri+torch.distributions.Normal(0.0,2.0).log_prob(mean.constant)
        ref=(lp+pri)/n
        ref.sum().backward()
        gr=[p.grad.clone() for p in model.parameters()]
        print("bs",bs,"fast",fast,"val err %.2e"%(v-ref).abs().max().item(),"grad err %.2e"%max((a-b).abs().max().item() for a,b in zip(g,gr)))
    # LOO
    loo=gpytorch.mlls.LeaveOneOutPseudoLikelihood(lik,model)
    v=loo(model(X),y)
    # literal
    tot=torch.zeros(bs)
    with torch.no_grad(), S.lazily_evaluate_kernels(False):
        K=kern(X).to_dense(); mx=mean(X); nz=lik.noise
        A=K+(nz.unsqueeze(-1) if nz.dim()>0 else nz)*torch.eye(n)
        for i in range(n):
            keep=[j for j in range(n) if j!=i]
            Aoo=A[...,keep,:][...,:,keep]; aio=A[...,i,keep]
            sol=torch.linalg.solve(Aoo,(y[...,keep]-mx[...,keep]).unsqueeze(-1)).squeeze(-1)
            mu=mx[...,i]+(aio*sol).sum(-1)
            var=A[...,i,i]-(aio*torch.linalg.solve(Aoo,aio.unsqueeze(-1)).squeeze(-1)).sum(-1)
            tot=tot+torch.distributions.Normal(mu,var.sqrt()).log_prob(y[...,i])
        pri2=pri.detach()
        ref=tot/n+pri2/n
    print("   LOO err %.2e"%(v-ref).abs().max().item(), v.detach().tolist(), ref.tolist())
