import torch, gpytorch, math, warnings
warnings.simplefilter("ignore")
torch.set_default_dtype(torch.double)
from gpytorch.kernels import *
# C06: kernel[i] with active_dims
k = RBFKernel(batch_shape=torch.Size([2]), active_dims=(1,2))
k.lengthscale = torch.tensor([[[0.5]],[[2.0]]])
x = torch.randn(2,4,3)
full = k(x).to_dense()
for i in range(2):
    try:
        ki = k[i]
        print("k[i].active_dims", ki.active_dims, "batch_shape", ki.batch_shape)
        out = ki(x[i]).to_dense()
        print(i, "match", torch.allclose(out, full[i]), (out-full[i]).abs().max().item())
    except Exception as e:
        print(i, "EXC", type(e).__name__, e)
# lazy batch index
try:
    lz = k(x)
    print("lazy[0] match", torch.allclose(lz[0].to_dense(), full[0]))
except Exception as e:
    print("lazy[0] EXC", type(e).__name__, str(e)[:200])
# expand_batch with active dims
k1 = RBFKernel(active_dims=(1,2))
try:
    ke = k1.expand_batch(torch.Size([3]))
    print("expand active_dims", ke.active_dims)
    print(torch.allclose(ke(x[0]).to_dense()[1], k1(x[0]).to_dense()))
except Exception as e:
    print("expand EXC", type(e).__name__, str(e)[:200])
kb = RBFKernel(batch_shape=torch.Size([2]), active_dims=(1,2))
try:
    ke = kb.expand_batch(torch.Size([3,2]))
    print("expand2 active_dims", ke.active_dims)
    print(ke(x).shape)
except Exception as e:
    print("expand2 EXC", type(e).__name__, str(e)[:200])

# C05 piecewise polynomial q=2
def pp(r, D, q):
    j = D//2 + q + 1
    base = torch.clamp(1-r, min=0)
    if q==0: return base**j
    if q==1: return base**(j+1)*((j+1)*r+1)
    if q==2: return base**(j+2)*(1+(j+2)*r+(j*j+4*j+3)/3*r*r)
    if q==3: return base**(j+3)*(1+(j+3)*r+(6*j*j+36*j+45)/15*r*r+(j**3+9*j*j+23*j+15)/15*r**3)
for q in range(4):
    for D in (1,2,3):
        kk = PiecewisePolynomialKernel(q=q)
        kk.lengthscale = 1.7
        a = torch.rand(5,D); b = torch.rand(4,D)
        r = torch.cdist(a,b)/1.7
        print("pp q",q,"D",D, (kk(a,b).to_dense()-pp(r,D,q)).abs().max().item())
