import torch, gpytorch, math, warnings, itertools
warnings.simplefilter("ignore")
torch.set_default_dtype(torch.double)
from gpytorch.distributions import MultivariateNormal as MVN
from gpytorch.kernels import *
from linear_operator import to_linear_operator
torch.manual_seed(0)
S=gpytorch.settings
def idx_atoms(n):
    return [0,-1,n-1, slice(None), slice(1,None), slice(None,-1), slice(0,None,2), slice(1,n+3), slice(-2,None), torch.tensor([0,n-1]), torch.tensor([n-1,0,0]), Ellipsis]
def rc(*shape):
    a=torch.randn(*shape,shape[-1]); return a@a.transpose(-1,-2)+0.5*torch.eye(shape[-1])
bad={}
tot=0
for bshape in ((),(2,),(3,2)):
    N=4
    mean=torch.randn(*bshape,N); cov=rc(*bshape,N)
    for lazy in (False,True):
        d=MVN(mean, to_linear_operator(cov) if lazy else cov)
        dims=[*bshape,N]
        atoms=[idx_atoms(s) for s in dims]
        for L in range(1,len(dims)+1):
            for combo in itertools.product(*atoms[:L]):
                if sum(1 for c in combo if c is Ellipsis)>1: continue
                if sum(1 for c in combo if torch.is_tensor(c))>1: continue
                idx=combo if len(combo)>1 else combo[0]
                try: mref=mean[idx]
                except Exception: continue
                if mref.dim()==0: continue
                tot+=1
                key=(bshape,lazy,str(combo))
                try: sub=d[idx]
                except Exception as e: bad[key]="EXC "+type(e).__name__+" "+str(e)[:60]; continue
                if sub.mean.shape!=mref.shape or not torch.allclose(sub.mean,mref): bad[key]="MEAN"; continue
                # reference cov: determine whether last mean dim indexed
                full=combo+(slice(None),)*(len(dims)-len([c for c in combo if c is not Ellipsis])) if Ellipsis not in combo else None
                # brute: label tensor trick
                lab=torch.arange(mean.numel()).reshape(mean.shape)
                sel=lab[idx]  # which original entries
                # joint over last dim only: the cov between sel[...,i] and sel[...,j] requires same batch element
                flat_b = sel // N; flat_n = sel % N
                Cfull=cov.reshape(-1,N,N) if bshape else cov.reshape(1,N,N)
                if not torch.equal(flat_b, flat_b[...,:1].expand_as(flat_b)):
                    continue  # event dim mixes batch elements (tensor index into batch & event) - skip
                ref=Cfull[flat_b[...,:,None].expand(*sel.shape,sel.shape[-1]), flat_n[...,:,None].expand(*sel.shape,sel.shape[-1]), flat_n[...,None,:].expand(*sel.shape,sel.shape[-1])]
                got=sub.covariance_matrix
                if got.shape!=ref.shape: bad[key]=f"COVSHAPE {tuple(got.shape)} vs {tuple(ref.shape)}"; continue
                if not torch.allclose(got,ref): bad[key]="COV %.2e"%(got-ref).abs().max()
print("MVN getitem cells",tot,"bad",len(bad))
for k,v in list(bad.items())[:25]: print(k,v)
