from gp_util import *
torch.manual_seed(4)
S=gpytorch.settings
n,d,ns=9,2,4
X=torch.randn(n,d); y=torch.sin(X.sum(-1)); xs=torch.randn(ns,d)
def mk(X,y):
    lik=gpytorch.likelihoods.GaussianLikelihood(); lik.noise=0.05
    m=GP(X,y,lik); m.covar_module.base_kernel.lengthscale=0.9; m.mean_module.constant=0.3
    return m
pat=[2,5]; yn=y.clone(); yn[pat]=float("nan"); keep=[i for i in range(n) if i not in pat]
ref=mk(X[keep],y[keep]).eval()(xs); full=mk(X,y).eval()(xs)
for pol in ("mask","fill"):
  for fpv in (False,True):
    m=mk(X,yn).eval()
    with S.observation_nan_policy(pol), S.fast_pred_var(fpv):
        o=m(xs)
    print(pol,"fpv",fpv,"mean err %.2e cov err vs deletion %.2e  cov err vs all-observed %.2e"%((o.mean-ref.mean).abs().max(), (o.covariance_matrix-ref.covariance_matrix).abs().max(), (o.covariance_matrix-full.covariance_matrix).abs().max()))
