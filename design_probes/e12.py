import torch, gpytorch, math, warnings, itertools
warnings.simplefilter("ignore")
torch.set_default_dtype(torch.double)
from gpytorch.variational import *
S=gpytorch.settings
torch.manual_seed(0)
class VGP(gpytorch.models.ApproximateGP):
    def __init__(self, Z, strat_cls, dist_cls, **kw):
        vd = dist_cls(Z.size(-2))
        vs = strat_cls(self, Z, vd, learn_inducing_locations=True, **kw)
        super().__init__(vs)
        self.mean_module=gpytorch.means.ConstantMean(); self.covar_module=gpytorch.kernels.ScaleKernel(gpytorch.kernels.RBFKernel())
    def forward(self,x): return gpytorch.distributions.MultivariateNormal(self.mean_module(x), self.covar_module(x))
M,n,d=5,7,2
Z=torch.randn(M,d); X=torch.randn(n,d)
def dense(model, whitened, m_par, S_par, jit):
    with torch.no_grad(), S.lazily_evaluate_kernels(False):
        k=model.covar_module; mu=model.mean_module
        Kzz=k(Z).to_dense()+jit*torch.eye(M); Kxz=k(X,Z).to_dense(); Kxx=k(X).to_dense()
        mz=mu(Z); mx=mu(X)
        if whitened:
            L=torch.linalg.cholesky(Kzz); m_u=mz+L@m_par; S_u=L@S_par@L.T
        else: m_u=m_par; S_u=S_par
        A=torch.linalg.solve(Kzz,Kxz.T).T
        mean=mx+A@(m_u-mz); cov=Kxx-A@(Kzz-S_u)@A.T
        # KL(q||p)
        q=torch.distributions.MultivariateNormal(m_u,S_u); p=torch.distributions.MultivariateNormal(mz,Kzz)
        kl=torch.distributions.kl_divergence(q,p)
    return mean,cov,kl
for strat,wh in ((VariationalStrategy,True),(UnwhitenedVariationalStrategy,False)):
    for dist in (CholeskyVariationalDistribution, MeanFieldVariationalDistribution, NaturalVariationalDistribution, TrilNaturalVariationalDistribution):
        model=VGP(Z,strat,dist); model.covar_module.base_kernel.lengthscale=1.1; model.mean_module.constant=0.4
        model.train(); model(X)  # init
        vd=model.variational_strategy._variational_distribution
        # randomize params
        with torch.no_grad():
            for p in vd.parameters(): p.add_(0.3*torch.randn_like(p))
            if isinstance(vd, NaturalVariationalDistribution):
                Lr=torch.randn(M,M).tril(); P=Lr@Lr.T+torch.eye(M); vd.natural_mat.copy_(-0.5*P); vd.natural_vec.copy_(torch.randn(M))
            if isinstance(vd, TrilNaturalVariationalDistribution):
                vd.natural_tril_mat.copy_(torch.randn(M,M).tril()+2*torch.eye(M))
        model.train(); out_tr=model(X); kl_tr=model.variational_strategy.kl_divergence()
        qu=vd(); m_par=qu.mean.detach(); S_par=qu.covariance_matrix.detach()
        jit=model.variational_strategy.jitter_val
        mean,cov,kl=dense(model,wh,m_par,S_par,jit)
        model.eval(); out=model(X); kl_ev=model.variational_strategy.kl_divergence()
        print(strat.__name__[:10],dist.__name__[:10],"mean %.1e cov %.1e | train mean %.1e var %.1e | kl_train %.1e kl_eval %.1e"%((out.mean-mean).abs().max(),(out.covariance_matrix-cov).abs().max(),(out_tr.mean-mean).abs().max(),(out_tr.variance-cov.diag()).abs().max(),(kl_tr-kl).abs(),(kl_ev-kl).abs()))
