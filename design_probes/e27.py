import torch, gpytorch, math, warnings, itertools, copy, random
warnings.simplefilter("ignore")
torch.set_default_dtype(torch.double)
from gpytorch.variational import *
S=gpytorch.settings
torch.manual_seed(0); random.seed(0)
class VGP(gpytorch.models.ApproximateGP):
    def __init__(self, Z, strat_cls, dist_cls):
        vd = dist_cls(Z.size(-2)); vs = strat_cls(self, Z, vd, learn_inducing_locations=True)
        super().__init__(vs)
        self.mean_module=gpytorch.means.ConstantMean(); self.covar_module=gpytorch.kernels.ScaleKernel(gpytorch.kernels.RBFKernel())
    def forward(self,x): return gpytorch.distributions.MultivariateNormal(self.mean_module(x), self.covar_module(x))
M,N,d=4,12,2
Z0=torch.randn(M,d); X=torch.randn(N,d); y=torch.sin(X.sum(-1)); xs=torch.randn(5,d); xsb=torch.randn(3,5,d)
def mk(strat): 
    m=VGP(Z0.clone(),strat,CholeskyVariationalDistribution); return m
def fresh(m,strat):
    f=mk(strat); f.load_state_dict(copy.deepcopy(m.state_dict())); f.eval(); return f
def pred(m,x=xs):
    o=m(x); return o.mean.detach().clone(), o.covariance_matrix.detach().clone()
ops=["pred","predbatch","trainstep","load_sd","prior","traineval","kl","predskip","backward"]
def apply(m,op,lik):
    if op=="pred": pred(m)
    elif op=="predbatch": pred(m,xsb)
    elif op=="predskip":
        with S.skip_posterior_variances(True): m(xs)
    elif op=="trainstep":
        m.train(); lik.train(); opt=torch.optim.SGD(list(m.parameters())+list(lik.parameters()),lr=0.05); mll=gpytorch.mlls.VariationalELBO(lik,m,num_data=N)
        opt.zero_grad(); (-mll(m(X),y)).backward(); opt.step(); m.eval(); lik.eval()
    elif op=="load_sd":
        sd=copy.deepcopy(m.state_dict())
        for k in sd:
            if "inducing_points" in k or "raw_lengthscale" in k or "variational_mean" in k: sd[k]=sd[k]+0.2
        m.load_state_dict(sd)
    elif op=="prior": m(xs,prior=True)
    elif op=="traineval": m.train(); m.eval()
    elif op=="kl": m.variational_strategy.kl_divergence()
    elif op=="backward":
        o=m(xs); (o.mean.sum()+o.variance.sum()).backward(); m.zero_grad()
for strat in (VariationalStrategy, UnwhitenedVariationalStrategy):
    bad=0; tot=0; exc=0
    seqs=[s for L in (1,2,3) for s in itertools.product(ops,repeat=L)]
    for seq in seqs:
        m=mk(strat); lik=gpytorch.likelihoods.GaussianLikelihood(); m.eval()
        try:
            for op in seq: apply(m,op,lik)
        except Exception as e:
            exc+=1
            if exc<4: print(strat.__name__,seq,"OPEXC",type(e).__name__,str(e)[:80])
            continue
        try:
            got=pred(m); ref=pred(fresh(m,strat))
            gotb=pred(m,xsb); refb=pred(fresh(m,strat),xsb)
        except Exception as e:
            bad+=1; print(strat.__name__,seq,"FINAL EXC",type(e).__name__,str(e)[:80]); continue
        tot+=1
        err=max((got[0]-ref[0]).abs().max().item(),(got[1]-ref[1]).abs().max().item(),(gotb[0]-refb[0]).abs().max().item(),(gotb[1]-refb[1]).abs().max().item())
        if err>1e-8:
            bad+=1
            if "kl" not in seq: print(strat.__name__,seq,"NOKL ERR %.2e"%err)
    print(strat.__name__,"histories",tot,"bad",bad,"op-exceptions",exc)
print("---- targeted")
for seq in (("pred","kl"),("trainstep","kl"),("trainstep","kl","pred"),("kl","trainstep"),("pred","kl","pred")):
    m=mk(UnwhitenedVariationalStrategy); lik=gpytorch.likelihoods.GaussianLikelihood(); m.eval()
    for op in seq: apply(m,op,lik)
    got=pred(m); ref=pred(fresh(m,UnwhitenedVariationalStrategy))
    print(seq, "%.2e"%max((got[0]-ref[0]).abs().max().item(),(got[1]-ref[1]).abs().max().item()))
