import torch, gpytorch, math, warnings, itertools
warnings.simplefilter("ignore")
torch.set_default_dtype(torch.double)
from gpytorch.kernels import *
S=gpytorch.settings
torch.manual_seed(0)
def cd(a,b): return (a.unsqueeze(-2)-b.unsqueeze(-3))   # ... n1 n2 d
def r2(a,b,ls): return ((cd(a,b)/ls.unsqueeze(-2))**2).sum(-1)
res={}
def chk(name, got, ref):
    e=(got-ref).abs().max().item(); res[name]=max(res.get(name,0),e)
for d in (1,3):
  for ard in (False,True):
    if ard and d==1: continue
    x1=torch.randn(5,d); x2=torch.randn(4,d)
    ad=d if ard else None
    def ls(k): return k.lengthscale  # 1 x d or 1 x 1
    k=RBFKernel(ard_num_dims=ad); k.lengthscale=torch.rand(1,ad or 1)+0.5
    chk("rbf",k(x1,x2).to_dense(), torch.exp(-0.5*r2(x1,x2,k.lengthscale.detach())))
    for nu in (0.5,1.5,2.5):
        k=MaternKernel(nu=nu,ard_num_dims=ad); k.lengthscale=torch.rand(1,ad or 1)+0.5
        r=r2(x1,x2,k.lengthscale.detach()).sqrt(); s=math.sqrt(2*nu)*r
        ref={0.5:torch.exp(-s),1.5:(1+s)*torch.exp(-s),2.5:(1+s+s**2/3)*torch.exp(-s)}[nu]
        chk("matern%s"%nu,k(x1,x2).to_dense(),ref)
    k=RQKernel(ard_num_dims=ad); k.lengthscale=torch.rand(1,ad or 1)+0.5; k.alpha=1.7
    chk("rq",k(x1,x2).to_dense(),(1+r2(x1,x2,k.lengthscale.detach())/(2*1.7))**(-1.7))
    k=PeriodicKernel(ard_num_dims=ad) if ard else PeriodicKernel(); k.lengthscale=torch.rand(1,ad or 1)+0.5; k.period_length=torch.rand(1,ad or 1)+0.7
    p=k.period_length.detach(); l=k.lengthscale.detach()
    ref=torch.exp(-2*((torch.sin(math.pi*cd(x1,x2)/p.unsqueeze(-2))**2)/l.unsqueeze(-2)).sum(-1))
    chk("periodic",k(x1,x2).to_dense(),ref)
    k=CosineKernel(); k.period_length=1.3
    chk("cosine",k(x1,x2).to_dense(),torch.cos(math.pi*torch.cdist(x1,x2)/1.3))
    k=LinearKernel(ard_num_dims=ad); k.variance=torch.rand(1,ad or 1)+0.5
    chk("linear",k(x1,x2).to_dense(),(x1*k.variance.detach())@x2.T)
    for pw in (1,2,3):
        k=PolynomialKernel(power=pw); k.offset=0.8
        chk("poly",k(x1,x2).to_dense(),(x1@x2.T+0.8)**pw)
    k=ConstantKernel(); k.constant=torch.tensor(2.2)
    chk("const",k(x1,x2).to_dense(),torch.full((5,4),2.2))
    # spectral mixture (product over dims of 1-d mixtures)
    Q=3; k=SpectralMixtureKernel(num_mixtures=Q, ard_num_dims=d)
    k.mixture_weights=torch.rand(Q)+0.2; k.mixture_means=torch.rand(Q,1,d)+0.1; k.mixture_scales=torch.rand(Q,1,d)+0.1
    w=k.mixture_weights.detach(); mu=k.mixture_means.detach(); sc=k.mixture_scales.detach()
    tau=cd(x1,x2) # n1 n2 d
    comp=torch.exp(-2*math.pi**2*tau.unsqueeze(0)**2*sc.unsqueeze(1)**2)*torch.cos(2*math.pi*tau.unsqueeze(0)*mu.unsqueeze(1)) # Q n1 n2 d
    ref=(w.view(Q,1,1,1)*comp).sum(0).prod(-1)
    chk("sm",k(x1,x2).to_dense(),ref)
    # arc kernel
    # cylindrical
    xb1=torch.rand(5,d)*0.5; xb2=torch.rand(4,d)*0.5
    # hamming
V=4;T=3
c1=torch.randint(0,V,(5,T)); c2=torch.randint(0,V,(4,T))
o1=torch.nn.functional.one_hot(c1,V).reshape(5,-1).double(); o2=torch.nn.functional.one_hot(c2,V).reshape(4,-1).double()
k=HammingIMQKernel(vocab_size=V); k.alpha=torch.tensor([1.3]); k.beta=torch.tensor([0.7])
dist=(c1.unsqueeze(1)!=c2.unsqueeze(0)).sum(-1).double()
chk("hamming",k(o1,o2).to_dense(),((1+1.3)/(1.3+dist))**0.7)
# grad kernels vs autograd
def rbf_fn(a,b,l): return torch.exp(-0.5*(((a-b)/l)**2).sum())
for d in (1,2):
    x1=torch.randn(3,d); x2=torch.randn(2,d)
    k=RBFKernelGrad(); k.lengthscale=0.9
    out=k(x1,x2).to_dense()
    ref=torch.zeros(3*(d+1),2*(d+1))
    for i in range(3):
        for j in range(2):
            a=x1[i].clone().requires_grad_(True); b=x2[j].clone().requires_grad_(True)
            v=rbf_fn(a,b,0.9)
            ga,=torch.autograd.grad(v,a,create_graph=True); gb,=torch.autograd.grad(v,b,create_graph=True)
            ref[i*(d+1),j*(d+1)]=v.detach()
            ref[i*(d+1)+1:(i+1)*(d+1),j*(d+1)]=ga.detach()
            ref[i*(d+1),j*(d+1)+1:(j+1)*(d+1)]=gb.detach()
            for p in range(d):
                h,=torch.autograd.grad(ga[p],b,retain_graph=True)
                ref[i*(d+1)+1+p,j*(d+1)+1:(j+1)*(d+1)]=h
    # library layout? check both interleaved-per-point and blocked
    e_inter=(out-ref).abs().max().item()
    # blocked layout: [k; d1 all points; d2 all points]
    perm1=torch.tensor([i*(d+1)+c for c in range(d+1) for i in range(3)]); perm2=torch.tensor([j*(d+1)+c for c in range(d+1) for j in range(2)])
    e_block=(out-ref[perm1][:,perm2]).abs().max().item()
    print("rbfgrad d",d,"interleaved err %.1e blocked err %.1e"%(e_inter,e_block))
for kname,v in res.items(): print(kname,"%.1e"%v)
