import torch, gpytorch, math, warnings
warnings.simplefilter("ignore")
torch.set_default_dtype(torch.double)
from gpytorch.distributions import MultivariateNormal as MVN, MultitaskMultivariateNormal as MT
from gpytorch.likelihoods import *
torch.manual_seed(0)
n=5
a=torch.randn(n,n); C=a@a.T+torch.eye(n); m=torch.randn(n)
d=MVN(m,C)
# FixedNoise + learned + call-time noise
fn = torch.rand(n)+0.1
lik = FixedNoiseGaussianLikelihood(noise=fn, learn_additional_noise=True)
lik.second_noise = 0.37
out = lik(d)
print("fixed+learned:", torch.allclose(out.covariance_matrix - C, torch.diag(fn)+0.37*torch.eye(n)))
tn = torch.rand(n)+0.2
out = lik(d, noise=tn)
R = out.covariance_matrix - C
print("calltime+learned diag:", R.diag(), "expected", tn+0.37, "2*tn", 2*tn)
lik2 = FixedNoiseGaussianLikelihood(noise=fn)
out = lik2(d, noise=tn); print("calltime only ok:", torch.allclose(out.covariance_matrix-C, torch.diag(tn)))
# expected_log_prob / log_marginal with noise kw
y = torch.randn(n)
try:
    e = lik.expected_log_prob(y, d, noise=tn)
    ref = -0.5*(((y-m)**2 + C.diag())/(tn+0.37) + (tn+0.37).log() + math.log(2*math.pi))
    print("elp calltime+learned match:", torch.allclose(e, ref), (e-ref).abs().max().item())
except Exception as ex: print("elp EXC", ex)
# LikelihoodList with noise
ll = LikelihoodList(FixedNoiseGaussianLikelihood(noise=fn), FixedNoiseGaussianLikelihood(noise=fn))
try:
    outs = ll(d, d, noise=[tn, tn*2])
    print("LL noise:", [torch.allclose(o.covariance_matrix-C, torch.diag(t)) for o,t in zip(outs,[tn,tn*2])])
except Exception as ex: print("LikelihoodList noise EXC", type(ex).__name__, str(ex)[:100])
try:
    outs = ll(d, d)
    print("LL plain:", [torch.allclose(o.covariance_matrix-C, torch.diag(fn)) for o in outs])
except Exception as ex: print("LikelihoodList EXC", type(ex).__name__, str(ex)[:100])
# Multitask
t=3
mm = torch.randn(n,t); a=torch.randn(n*t,n*t); CC=a@a.T+torch.eye(n*t)
for inter in (True, False):
  for rank in (0,1,2):
    for glob, task in ((True,True),(True,False),(False,True)):
        ml = MultitaskGaussianLikelihood(num_tasks=t, rank=rank, has_global_noise=glob, has_task_noise=task)
        dd = MT(mm, CC, interleaved=inter)
        out = ml(dd)
        R = out.covariance_matrix - CC
        if task:
            D = torch.diag(ml.task_noises) if rank==0 else ml.task_noise_covar
        else: D = torch.zeros(t,t)
        if glob: D = D + ml.noise*torch.eye(t)
        ref = torch.kron(torch.eye(n), D) if inter else torch.kron(D, torch.eye(n))
        ok = torch.allclose(R, ref)
        # elp
        y = torch.randn(n,t)
        try:
            e = ml.expected_log_prob(y, dd)
            nd = D.diag().expand(n,t)
            var = dd.variance
            ref_e = (-0.5*(((y-mm)**2+var)/nd + nd.log() + math.log(2*math.pi))).sum(-1)
            ok2 = torch.allclose(e, ref_e)
        except Exception as ex: ok2 = "EXC "+str(ex)[:60]
        print("MT inter",inter,"rank",rank,"glob",glob,"task",task,"marg",ok,"elp",ok2)
