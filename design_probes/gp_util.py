import torch, gpytorch, math, warnings
warnings.simplefilter("ignore")
torch.set_default_dtype(torch.double)
class GP(gpytorch.models.ExactGP):
    def __init__(self, x, y, lik, kernel=None, mean=None):
        super().__init__(x, y, lik)
        self.mean_module = mean or gpytorch.means.ConstantMean()
        self.covar_module = kernel or gpytorch.kernels.ScaleKernel(gpytorch.kernels.RBFKernel())
    def forward(self, x):
        return gpytorch.distributions.MultivariateNormal(self.mean_module(x), self.covar_module(x))
def dense_post(model, xs):
    """closed form from model's own prior pieces, evaluated eagerly in prior mode on separate calls"""
    X = model.train_inputs[0]; y = model.train_targets
    with torch.no_grad(), gpytorch.settings.lazily_evaluate_kernels(False):
        k = model.covar_module; m = model.mean_module
        Kxx = k(X).to_dense(); Ksx = k(xs, X).to_dense(); Kss = k(xs).to_dense()
        mx = m(X); ms = m(xs)
        S = model.likelihood(gpytorch.distributions.MultivariateNormal(torch.zeros_like(mx), torch.zeros_like(Kxx)+1e-30*torch.eye(Kxx.shape[-1])), X).covariance_matrix
        A = Kxx + S
        L = torch.linalg.cholesky(A)
        alpha = torch.cholesky_solve((y-mx).unsqueeze(-1), L).squeeze(-1)
        mean = ms + (Ksx@alpha.unsqueeze(-1)).squeeze(-1)
        cov = Kss - Ksx@torch.cholesky_solve(Ksx.transpose(-1,-2), L)
    return mean, cov
