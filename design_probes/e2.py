import torch, gpytorch, math, warnings, itertools
warnings.simplefilter("ignore")
torch.set_default_dtype(torch.double)
from gpytorch.distributions import MultitaskMultivariateNormal as MT, MultivariateNormal as MVN
torch.manual_seed(0)
def rand_cov(*shape):
    a = torch.randn(*shape, shape[-1]); return a@a.transpose(-1,-2)+torch.eye(shape[-1])*0.1
def dense_joint(d):
    # returns mean (.., n,t) and cov indexed [(i,a),(j,b)] as (..., n,t,n,t)
    n,t = d.event_shape
    C = d.covariance_matrix
    if d._interleaved:
        C4 = C.reshape(*C.shape[:-2], n,t,n,t)
    else:
        C4 = C.reshape(*C.shape[:-2], t,n,t,n).permute(*range(C.dim()-2), -3,-4,-1,-2)
    return d.mean, C4
bad = {}
n,t=4,3
for inter in (True, False):
  for bshape in ((),(2,)):
    mean = torch.randn(*bshape,n,t); cov = rand_cov(*bshape,n*t)
    d = MT(mean, cov, interleaved=inter)
    m, C4 = dense_joint(d)
    idxs = [0,-1,1, slice(None), slice(1,None), slice(None,2), slice(1,3), slice(0,None,2), slice(1,None,2), slice(-2,None), slice(0,100), slice(None,-1), torch.tensor([0,2]), torch.tensor([2,1])]
    for ri, ci in itertools.product(idxs, idxs):
        idx = (ri, ci) if not bshape else (slice(None), ri, ci)
        key = (inter, bshape, str(ri), str(ci))
        try:
            sub = d[idx]
        except Exception as e:
            bad[key] = "EXC "+type(e).__name__+": "+str(e)[:80]; continue
        # reference
        try:
            mref = m[idx]
        except Exception as e:
            continue
        # build reference cov: positions
        pos = torch.arange(n*t).reshape(n,t)
        if torch.is_tensor(ri) and torch.is_tensor(ci):
            sel = pos[ri,ci].reshape(-1)
        else:
            sel = pos[ri][..., ci] if not (isinstance(ri,int)) else pos[ri][ci]
            sel_shape = sel.shape
            sel = sel.reshape(-1)
        Cfull = C4.reshape(*C4.shape[:-4], n*t, n*t)  # interleaved order (i*t+a)
        Cref = Cfull[..., sel, :][..., :, sel]
        if not torch.allclose(sub.mean.reshape(*bshape,-1) if True else sub.mean, mref.reshape(*bshape,-1)):
            bad[key] = "MEAN mismatch"; continue
        # sub's own joint
        if isinstance(sub, MT):
            sm, sC4 = dense_joint(sub)
            sn, st = sub.event_shape
            sC = sC4.reshape(*sC4.shape[:-4], sn*st, sn*st)
        else:
            sC = sub.covariance_matrix
        if sC.shape != Cref.shape:
            bad[key] = f"COV shape {tuple(sC.shape)} vs {tuple(Cref.shape)}"; continue
        if not torch.allclose(sC, Cref):
            bad[key] = "COV mismatch %.3g" % (sC-Cref).abs().max().item()
print(len(bad), "bad cells")
from collections import Counter
for k,v in list(bad.items())[:60]: print(k, v)
