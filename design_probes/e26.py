import torch, gpytorch, math, warnings, time
warnings.simplefilter("ignore")
torch.set_default_dtype(torch.double)
import mpmath as mp
from gpytorch.likelihoods import *
from gpytorch.distributions import MultivariateNormal as MVN
torch.manual_seed(0)
S=gpytorch.settings
mp.mp.dps=30
def gauss(f,m,v): return mp.npdf(f,m,mp.sqrt(v))
m=torch.tensor([0.3,-1.0,1.5]); v=torch.tensor([0.5,1.5,0.05]); d=MVN(m,torch.diag(v))
t0=time.time()
cases=[]
# Laplace
lik=LaplaceLikelihood(); lik.noise=0.4; y=torch.tensor([0.1,0.7,-0.3])
def lp_laplace(yy,f,b): return -mp.log(2*b)-abs(yy-f)/b
for nl in (10,20,40):
    with S.num_gauss_hermite_locs(nl):
        lik=LaplaceLikelihood(); lik.noise=0.4
        lik.quadrature.locations=lik.quadrature.locations.double(); lik.quadrature.weights=lik.quadrature.weights.double()
        e=lik.expected_log_prob(y,d); lm=lik.log_marginal(y,d)
    b=math.sqrt(0.4)
    ref_e=[mp.quad(lambda f: lp_laplace(yy,f,b)*gauss(f,mm,vv),[-mp.inf,yy,mp.inf]) for yy,mm,vv in zip(y.tolist(),m.tolist(),v.tolist())]
    ref_m=[mp.log(mp.quad(lambda f: mp.exp(lp_laplace(yy,f,b))*gauss(f,mm,vv),[-mp.inf,yy,mp.inf])) for yy,mm,vv in zip(y.tolist(),m.tolist(),v.tolist())]
    print("laplace nl",nl,"elp err",max(abs(float(a)-b_) for a,b_ in zip(ref_e,e.tolist())),"lm err",max(abs(float(a)-b_) for a,b_ in zip(ref_m,lm.tolist())))
# Bernoulli
bl=BernoulliLikelihood(); yb=torch.tensor([1.,0.,1.])
pr=bl(d).probs; ref=[0.5*math.erfc(-mm/math.sqrt(1+vv)/math.sqrt(2)) for mm,vv in zip(m.tolist(),v.tolist())]
print("bernoulli marginal err",max(abs(a-b) for a,b in zip(pr.tolist(),ref)))
e=bl.expected_log_prob(yb,d)
ref_e=[mp.quad(lambda f: mp.log(mp.ncdf((2*yy-1)*f))*gauss(f,mm,vv),[-mp.inf,mm,mp.inf]) for yy,mm,vv in zip(yb.tolist(),m.tolist(),v.tolist())]
print("bernoulli elp err",max(abs(float(a)-b) for a,b in zip(ref_e,e.tolist())), "quad dtype", bl.quadrature.locations.dtype)
# StudentT, Beta
st=StudentTLikelihood(); st.noise=0.3; st.deg_free=4.0
e=st.expected_log_prob(y,d)
def lp_t(yy,f,nu,s): 
    z=(yy-f)/s; return mp.loggamma((nu+1)/2)-mp.loggamma(nu/2)-0.5*mp.log(nu*mp.pi)-mp.log(s)-(nu+1)/2*mp.log(1+z*z/nu)
ref_e=[mp.quad(lambda f: lp_t(yy,f,4.0,math.sqrt(0.3))*gauss(f,mm,vv),[-mp.inf,mm,mp.inf]) for yy,mm,vv in zip(y.tolist(),m.tolist(),v.tolist())]
print("studentt elp err",max(abs(float(a)-b) for a,b in zip(ref_e,e.tolist())))
print("time",time.time()-t0)
