from gp_util import *
import itertools
from gpytorch.kernels import *
torch.manual_seed(7)
S=gpytorch.settings
# C07 hostile PSD
def geoms(d):
    base=torch.randn(8,d)
    yield "random", base
    yield "dups", torch.cat([base[:4],base[:4]])
    yield "near", torch.cat([base[:4],base[:4]+1e-7*torch.randn(4,d)])
    yield "cluster+far", torch.cat([1e-3*torch.randn(7,d), 50*torch.ones(1,d)])
    yield "single", base[:1]
worst={}
def mkk(d):
    yield "rbf",RBFKernel(); yield "m05",MaternKernel(nu=0.5); yield "m15",MaternKernel(nu=1.5); yield "m25",MaternKernel(nu=2.5); yield "rq",RQKernel(); yield "per",PeriodicKernel()
    yield "lin",LinearKernel(); yield "poly2",PolynomialKernel(power=2)
    for q in range(4): yield "pp%d"%q,PiecewisePolynomialKernel(q=q)
    yield "sm",SpectralMixtureKernel(num_mixtures=2,ard_num_dims=d)
    if d==1: yield "cos",CosineKernel()
    yield "rbfgrad",RBFKernelGrad(); yield "m52grad",Matern52KernelGrad(); yield "gradgrad", RBFKernelGradGrad()
for d in (1,2,3):
  for gname,x in geoms(d):
    for ls in (0.05,1.0,30.0):
        for name,k in mkk(d):
            if hasattr(k,"lengthscale") and k.has_lengthscale: k.lengthscale=ls
            try:
                with S.lazily_evaluate_kernels(False): K=k(x).to_dense().detach()
            except Exception as e:
                worst[(name,"EXC")]=str(e)[:60]; continue
            asym=(K-K.T).abs().max().item()
            ev=torch.linalg.eigvalsh((K+K.T)/2)
            rel=(ev.min()/ev.max().abs().clamp_min(1e-300)).item()
            key=name
            w=worst.get(key,(0,0,None))
            if rel<w[0] or asym>w[1]: worst[key]=(min(rel,w[0]),max(asym,w[1]),(d,gname,ls))
for k,v in worst.items(): print(k,v)
