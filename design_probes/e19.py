import torch, gpytorch, math, warnings, itertools, inspect, copy, pickle, io
warnings.simplefilter("ignore")
torch.set_default_dtype(torch.double)
from gpytorch.constraints import *
torch.manual_seed(0)
raws=torch.cat([torch.tensor([-1e300,-1e30,-745.,-50.,-1e-300,0.,1e-300,50.,709.,1e30,1e300]), torch.randn(50)*5])
for c in (Positive(), GreaterThan(1e-4), GreaterThan(-3.0), LessThan(2.0), Interval(0.1,0.9), Interval(-5.,7.), Interval(torch.tensor([0.,1.]),torch.tensor([1.,5.])), GreaterThan(torch.tensor([0.1,2.0]))):
    r=raws if c.lower_bound.numel()==1 else raws.unsqueeze(-1).expand(-1,2)
    t=c.transform(r)
    ok_range=bool(((t>=c.lower_bound)&(t<=c.upper_bound)).all()); finite=bool(torch.isfinite(t).all()) if torch.isfinite(c.upper_bound).all() and torch.isfinite(c.lower_bound).all() else "n/a"
    srt,_=r.sort(0); ts=c.transform(srt); mono=bool((ts[1:]>=ts[:-1]).all())
    # round trip interior
    lo=torch.where(torch.isfinite(c.lower_bound),c.lower_bound,c.upper_bound-10); hi=torch.where(torch.isfinite(c.upper_bound),c.upper_bound,c.lower_bound+10)
    v=lo+(hi-lo)*torch.rand(40,*lo.shape).clamp(0.01,0.99)
    rt=c.transform(c.inverse_transform(v)); e=((rt-v).abs()/(1+v.abs())).max().item()
    print(type(c).__name__, "range",ok_range,"nan-free",bool(~torch.isnan(t).any()),"mono",mono,"roundtrip %.1e"%e)
# setters by reflection
import gpytorch.kernels as K, gpytorch.likelihoods as L, gpytorch.means as Mn
objs=[K.RBFKernel(), K.RBFKernel(ard_num_dims=3,batch_shape=torch.Size([2])), K.MaternKernel(), K.RQKernel(), K.PeriodicKernel(), K.CosineKernel(), K.LinearKernel(), K.PolynomialKernel(power=2), K.ConstantKernel(), K.ScaleKernel(K.RBFKernel()), K.ScaleKernel(K.RBFKernel(),batch_shape=torch.Size([2])),
 K.SpectralMixtureKernel(num_mixtures=2,ard_num_dims=2), K.ArcKernel(K.MaternKernel(nu=2.5)), K.CylindricalKernel(3,K.MaternKernel()), K.HammingIMQKernel(vocab_size=3), K.IndexKernel(num_tasks=3), K.SpectralDeltaKernel(num_dims=2,num_deltas=4), K.PiecewisePolynomialKernel(), K.RFFKernel(num_samples=4,num_dims=2),
 L.GaussianLikelihood(), L.GaussianLikelihood(batch_shape=torch.Size([2])), L.MultitaskGaussianLikelihood(num_tasks=3), L.LaplaceLikelihood(), L.StudentTLikelihood(), L.BetaLikelihood(), L.FixedNoiseGaussianLikelihood(torch.rand(4)+0.1,learn_additional_noise=True), Mn.ConstantMean(), Mn.ConstantMean(batch_shape=torch.Size([2]))]
for o in objs:
    for cname, cons in list(o.named_constraints()):
        if "." in cname: continue
        raw=cname[:-len("_constraint")]; pub=raw[4:] if raw.startswith("raw_") else None
        if pub is None or not hasattr(type(o), pub) or not isinstance(getattr(type(o),pub),property) or getattr(type(o),pub).fset is None:
            print("  (no public setter)", type(o).__name__, raw); continue
        cur=getattr(o,pub).detach()
        lo=torch.where(torch.isfinite(cons.lower_bound),cons.lower_bound,cons.upper_bound-3); hi=torch.where(torch.isfinite(cons.upper_bound),cons.upper_bound,cons.lower_bound+3)
        v=(lo+(hi-lo)*torch.rand_like(cur).clamp(0.05,0.95))
        try:
            setattr(o,pub,v); back=getattr(o,pub).detach()
            e=(back-v).abs().max().item()
            flag="" if e<1e-8 else "  <<<<<< MISMATCH"
            print(type(o).__name__,pub,tuple(cur.shape),"rt %.1e"%e,flag)
        except Exception as ex:
            print(type(o).__name__,pub,"EXC",type(ex).__name__,str(ex)[:80])
        # out of bounds rejected?
        if torch.isfinite(cons.lower_bound).all():
            try:
                setattr(o,pub,(cons.lower_bound-0.5).expand_as(cur).clone()); print("   OOB accepted ->", getattr(o,pub).flatten()[:2].tolist())
            except Exception as ex: pass
