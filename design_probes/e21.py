from gp_util import *
import itertools, copy, pickle
torch.manual_seed(6)
S=gpytorch.settings
n,d,ns=14,2,5
X=torch.rand(n,d)*2-1; y=torch.sin(3*X.sum(-1)); xs=torch.rand(ns,d)*1.6-0.8
def dense_cond(K, m, y, noise, n):
    Kxx=K[:n,:n]; Ksx=K[n:,:n]; Kss=K[n:,n:]
    A=Kxx+noise*torch.eye(n); L=torch.linalg.cholesky(A)
    mean=m[n:]+Ksx@torch.cholesky_solve((y-m[:n]).unsqueeze(-1),L).squeeze(-1)
    cov=Kss-Ksx@torch.cholesky_solve(Ksx.T,L)
    return mean,cov
def mk(kind):
    lik=gpytorch.likelihoods.GaussianLikelihood(); lik.noise=0.05
    if kind=="ski": k=gpytorch.kernels.ScaleKernel(gpytorch.kernels.GridInterpolationKernel(gpytorch.kernels.RBFKernel(), grid_size=20, grid_bounds=[(-1.2,1.2),(-1.2,1.2)]))
    elif kind=="sgpr": k=gpytorch.kernels.InducingPointKernel(gpytorch.kernels.ScaleKernel(gpytorch.kernels.RBFKernel()), inducing_points=X[:6].clone(), likelihood=lik)
    elif kind=="rff": k=gpytorch.kernels.ScaleKernel(gpytorch.kernels.RFFKernel(num_samples=30,num_dims=2))
    elif kind=="default": k=None
    return GP(X,y,lik,kernel=k)
# persistence
for kind in ("default","ski","sgpr","rff"):
  for nograd in (False,True):
    m=mk(kind)
    with torch.no_grad():
        for p in m.parameters(): p.add_(0.2*torch.randn_like(p))
    m.eval()
    with torch.set_grad_enabled(not nograd):
        o=m(xs)
    base=(o.mean.detach(),o.covariance_matrix.detach())
    e=lambda o:max((o.mean-base[0]).abs().max().item(),(o.covariance_matrix-base[1]).abs().max().item())
    res={}
    for name,fn in (("sd",lambda: (lambda f:(f.load_state_dict(copy.deepcopy(m.state_dict())),f.eval(),f)[-1])(mk(kind))),("deepcopy",lambda: copy.deepcopy(m)),("pickle",lambda: pickle.loads(pickle.dumps(m)))):
        try:
            r=fn(); res[name]="%.1e"%e(r(xs))
        except Exception as ex: res[name]="EXC "+type(ex).__name__+" "+str(ex)[:50]
    print("persist",kind,"nograd",nograd,res)
