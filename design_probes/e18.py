import torch, gpytorch, math, warnings, itertools
warnings.simplefilter("ignore")
torch.set_default_dtype(torch.double)
from gpytorch.variational import *
S=gpytorch.settings
torch.manual_seed(0)
class VGP(gpytorch.models.ApproximateGP):
    def __init__(self, Z, strat_cls, dist_cls):
        vd = dist_cls(Z.size(-2)); vs = strat_cls(self, Z, vd, learn_inducing_locations=True)
        super().__init__(vs)
        self.mean_module=gpytorch.means.ConstantMean(); self.covar_module=gpytorch.kernels.ScaleKernel(gpytorch.kernels.RBFKernel())
    def forward(self,x): return gpytorch.distributions.MultivariateNormal(self.mean_module(x), self.covar_module(x))
M,N,d=5,30,1
Z=torch.linspace(-2,2,M).unsqueeze(-1); X=torch.randn(N,d); y=torch.sin(2*X.squeeze(-1))+0.2*torch.randn(N)
for strat in (VariationalStrategy,UnwhitenedVariationalStrategy):
  for dist in (NaturalVariationalDistribution, TrilNaturalVariationalDistribution):
    model=VGP(Z,strat,dist); lik=gpytorch.likelihoods.GaussianLikelihood(); lik.noise=0.1
    model.covar_module.base_kernel.lengthscale=0.8; model.mean_module.constant=0.1
    model.train(); lik.train()
    mll=gpytorch.mlls.VariationalELBO(lik,model,num_data=N)
    # exact and titsias
    with torch.no_grad(), S.lazily_evaluate_kernels(False):
        jit=model.variational_strategy.jitter_val
        k=model.covar_module; Kzz=k(Z).to_dense()+jit*torch.eye(M); Kxz=k(X,Z).to_dense(); Kxx=k(X).to_dense()
        if strat is VariationalStrategy: Kxx=Kxx+jit*torch.eye(N)
        mx=model.mean_module(X); s2=lik.noise
        exact=torch.distributions.MultivariateNormal(mx,Kxx+s2*torch.eye(N)).log_prob(y)
        Q=Kxz@torch.linalg.solve(Kzz,Kxz.T)
        tits=torch.distributions.MultivariateNormal(mx,Q+s2*torch.eye(N)).log_prob(y)-0.5*(Kxx-Q).diagonal().sum()/s2
    e0=mll(model(X),y).item()*N
    opt=gpytorch.optim.NGD(model.variational_parameters(), num_data=N, lr=1.0)
    opt.zero_grad(); loss=-mll(model(X),y); loss.backward(); opt.step()
    e1=mll(model(X),y).item()*N
    # minibatch scaling
    idx=torch.randperm(N)[:7]
    out=model(X[idx]); 
    mll2=gpytorch.mlls.VariationalELBO(lik,model,num_data=N,beta=0.3,combine_terms=False)
    ll,kl,pr=mll2(out,y[idx])
    ref_ll=lik.expected_log_prob(y[idx],out).sum()/7
    ref_kl=model.variational_strategy.kl_divergence()*0.3/N
    print(strat.__name__[:8],dist.__name__[:8],"ELBO0 %.4f <= ELBO1 %.6f ; titsias %.6f ; exact %.6f | mb ll %.1e kl %.1e"%(e0,e1,tits.item(),exact.item(),(ll-ref_ll).abs().item(),(kl-ref_kl).abs().item()))
