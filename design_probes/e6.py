from gp_util import *
import itertools, copy, random
torch.manual_seed(2); random.seed(2)
n,d,ns=10,2,4
X=torch.randn(n,d); y=torch.sin(X.sum(-1)); xs=torch.randn(ns,d); X2=torch.randn(n,d); y2=torch.cos(X2.sum(-1))
S=gpytorch.settings
def mk(kind="default"):
    lik=gpytorch.likelihoods.GaussianLikelihood(); lik.noise=0.05
    if kind=="default": k=None
    elif kind=="ski": k=gpytorch.kernels.ScaleKernel(gpytorch.kernels.GridInterpolationKernel(gpytorch.kernels.RBFKernel(), grid_size=16, num_dims=2))
    elif kind=="sgpr": k=gpytorch.kernels.InducingPointKernel(gpytorch.kernels.ScaleKernel(gpytorch.kernels.RBFKernel()), inducing_points=X[:5].clone(), likelihood=lik)
    m=GP(X,y,lik,kernel=k)
    return m
def fresh_like(m, kind):
    f=mk(kind); f.set_train_data(m.train_inputs[0], m.train_targets, strict=False)
    f.load_state_dict(copy.deepcopy(m.state_dict())); f.eval(); return f
def pred(m, cfg):
    with S.fast_pred_var(cfg[0]), S.detach_test_caches(cfg[1]), S.skip_posterior_variances(cfg[2]):
        o=m(xs); return o.mean.detach().clone(), o.covariance_matrix.detach().clone()
ops=["pred00","predfpv","prednodet","predskip","trainstep","set_data","load_sd","fantasy","prior","backward","traineval"]
def apply(m, op, kind):
    if op=="pred00": pred(m,(False,True,False))
    elif op=="predfpv": pred(m,(True,True,False))
    elif op=="prednodet": pred(m,(False,False,False))
    elif op=="predskip": pred(m,(False,True,True))
    elif op=="trainstep":
        m.train(); opt=torch.optim.SGD(m.parameters(), lr=0.05); mll=gpytorch.mlls.ExactMarginalLogLikelihood(m.likelihood,m)
        opt.zero_grad(); loss=-mll(m(*m.train_inputs), m.train_targets); loss.backward(); opt.step(); m.eval()
    elif op=="set_data":
        m.set_train_data(X2, y2, strict=False)
    elif op=="load_sd":
        sd=copy.deepcopy(m.state_dict())
        for k in sd:
            if "raw_lengthscale" in k or "raw_noise" in k: sd[k]=sd[k]+0.3
        m.load_state_dict(sd)
    elif op=="fantasy":
        if m.prediction_strategy is None: pred(m,(False,True,False))
        try: m.get_fantasy_model(torch.randn(2,d), torch.randn(2))
        except NotImplementedError: pass
    elif op=="prior":
        with S.prior_mode(True): m(xs)
    elif op=="backward":
        with S.detach_test_caches(False):
            o=m(xs); (o.mean.sum()+o.variance.sum()).backward()
        m.zero_grad()
    elif op=="traineval": m.train(); m.eval()
for kind in ["default","ski","sgpr"]:
    bad=0; tot=0
    for L in (1,2,3):
        seqs = list(itertools.product(ops, repeat=L)) if L<3 else random.sample(list(itertools.product(ops, repeat=3)), 150)
        for seq in seqs:
            m=mk(kind).eval()
            try:
                for op in seq: apply(m, op, kind)
                got=pred(m,(False,True,False)); f=fresh_like(m,kind); ref=pred(f,(False,True,False))
            except Exception as e:
                print(kind, seq, "EXC", type(e).__name__, str(e)[:100]); bad+=1; continue
            tot+=1
            err=max((got[0]-ref[0]).abs().max().item(), (got[1]-ref[1]).abs().max().item())
            if err>1e-6:
                bad+=1
                if bad<12: print(kind, seq, err)
    print(kind, "total", tot, "bad", bad)
