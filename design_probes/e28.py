import torch, gpytorch, math, warnings, itertools, copy
warnings.simplefilter("ignore")
torch.set_default_dtype(torch.double)
from gpytorch.variational import *
S=gpytorch.settings
torch.manual_seed(0)
Q,T,M,N,d=3,4,5,6,2
class LMC(gpytorch.models.ApproximateGP):
    def __init__(self, kind):
        Z=torch.randn(Q,M,d)
        vd=CholeskyVariationalDistribution(M,batch_shape=torch.Size([Q]))
        base=VariationalStrategy(self,Z,vd,learn_inducing_locations=True)
        if kind=="lmc": vs=LMCVariationalStrategy(base,num_tasks=T,num_latents=Q,latent_dim=-1)
        else: vs=IndependentMultitaskVariationalStrategy(base,num_tasks=Q,task_dim=-1)
        super().__init__(vs)
        self.mean_module=gpytorch.means.ConstantMean(batch_shape=torch.Size([Q])); self.covar_module=gpytorch.kernels.ScaleKernel(gpytorch.kernels.RBFKernel(batch_shape=torch.Size([Q])),batch_shape=torch.Size([Q]))
    def forward(self,x): return gpytorch.distributions.MultivariateNormal(self.mean_module(x), self.covar_module(x))
X=torch.randn(N,d)
for kind in ("lmc","indep"):
    m=LMC(kind); m.train(); m(X)
    with torch.no_grad():
        for p in m.parameters(): p.add_(0.3*torch.randn_like(p))
    m.eval()
    out=m(X)
    base=m.variational_strategy.base_variational_strategy
    lat=base(X)   # batch Q MVN
    lm=lat.mean.detach(); lc=lat.covariance_matrix.detach()  # Q x N, Q x N x N
    if kind=="lmc":
        A=m.variational_strategy.lmc_coefficients.detach()  # Q x T
        mean=torch.einsum("qn,qt->nt",lm,A)
        C4=torch.einsum("qij,qa,qb->iajb",lc,A,A)  # N T N T
        jit=m.variational_strategy.jitter_val
        Cref=C4.reshape(N*T,N*T)+jit*torch.eye(N*T)
        # task_indices form
        ti=torch.randint(0,T,(N,))
        o2=m(X,task_indices=ti)
        mean2=(lm*A[:,ti]).sum(0); C2=torch.einsum("qij,qi,qj->ij",lc,A[:,ti],A[:,ti])+jit*torch.eye(N)
        print("lmc task_indices mean %.1e cov %.1e"%((o2.mean-mean2).abs().max(),(o2.covariance_matrix-C2).abs().max()))
    else:
        mean=lm.T
        C4=torch.zeros(N,Q,N,Q)
        for q in range(Q): C4[:,q,:,q]=lc[q]
        Cref=C4.reshape(N*Q,N*Q)
        ti=torch.randint(0,Q,(N,))
        o2=m(X,task_indices=ti)
        mean2=lm[ti,torch.arange(N)]; C2=torch.stack([torch.stack([lc[ti[i],i,j] if ti[i]==ti[j] else torch.tensor(0.) for j in range(N)]) for i in range(N)])
        print("indep task_indices mean %.1e cov %.1e"%((o2.mean-mean2).abs().max(),(o2.covariance_matrix-C2).abs().max()))
    # map out to interleaved frame
    got=out.covariance_matrix.detach()
    if not out._interleaved:
        t=out.event_shape[-1]; got=got.reshape(t,N,t,N).permute(1,0,3,2).reshape(N*t,N*t)
    print(kind,"mean %.1e cov %.1e"%((out.mean-mean).abs().max(),(got-Cref).abs().max()), "interleaved",out._interleaved)
    kl=m.variational_strategy.kl_divergence(); klb=base.kl_divergence()
    print("   kl sum err %.1e"%(kl-klb.sum()).abs())
