import torch, gpytorch, math, warnings, itertools
warnings.simplefilter("ignore")
torch.set_default_dtype(torch.double)
from gpytorch.distributions import MultivariateNormal as MVN
from linear_operator.operators import *
from linear_operator import to_linear_operator
S=gpytorch.settings
torch.manual_seed(0)
def rc(*shape):
    a=torch.randn(*shape,shape[-1]); return a@a.transpose(-1,-2)+0.5*torch.eye(shape[-1])
def ref_lp(mean,cov,v):
    shape=torch.broadcast_shapes(mean.shape[:-1],cov.shape[:-2],v.shape[:-1])
    m=mean.expand(*shape,mean.shape[-1]); c=cov.expand(*shape,*cov.shape[-2:]); vv=v.expand(*shape,v.shape[-1])
    return torch.distributions.MultivariateNormal(m,c).log_prob(vv)
N=4
bad=[]
for db in [(),(2,),(3,2),(1,2)]:
  for mb in [None,(),(2,)]:
    for vb in [(),(2,),(3,2),(5,3,2),(3,1)]:
      for rep in ("dense","lazy","root","diagadd"):
        for fast in (True,False):
            mbs = db if mb is None else mb
            try: torch.broadcast_shapes(db,mbs)
            except RuntimeError: continue
            mean=torch.randn(*mbs,N); 
            if rep=="root":
                R=torch.randn(*db,N,N); cov=R@R.transpose(-1,-2); covop=RootLinearOperator(R)
            elif rep=="diagadd":
                base=rc(*db,N); dg=torch.rand(*db,N)+0.1; cov=base+torch.diag_embed(dg); covop=to_linear_operator(base)+DiagLinearOperator(dg)
            else:
                cov=rc(*db,N); covop=cov if rep=="dense" else to_linear_operator(cov)
            try:
                d=MVN(mean,covop)
            except Exception as e:
                bad.append((db,mbs,vb,rep,fast,"CONSTRUCT "+str(e)[:50])); continue
            v=torch.randn(*vb,N)
            try: refv=ref_lp(mean,cov,v)
            except Exception as e: continue
            try:
                with S.fast_computations(log_prob=fast), S.max_cholesky_size(800):
                    got=d.log_prob(v)
                if got.shape!=refv.shape: bad.append((db,mbs,vb,rep,fast,"SHAPE",tuple(got.shape),tuple(refv.shape)))
                elif not torch.allclose(got,refv,atol=1e-8): bad.append((db,mbs,vb,rep,fast,"VAL %.2e"%(got-refv).abs().max()))
            except Exception as e:
                bad.append((db,mbs,vb,rep,fast,"EXC "+type(e).__name__+" "+str(e)[:60]))
print(len(bad)); 
for b in bad[:40]: print(b)
